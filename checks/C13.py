"""C13 funcutils.wraps / update_wrapper / FunctionBuilder"""
LEVEL = 'exploration'
LEVEL_TEXT = 'bounded stand-in only (no deductive part: FunctionBuilder emits source text and exec()s it)'
LEVEL_NOTE = 'bounded'
TECHNIQUE = ('executable contracts on the real wraps/update_wrapper over an enumerated family of signatures '
             '(parameter kinds x defaults x annotations x sync/async) x all call shapes x injected/expected variants; '
             'oracle = the interpreter binding calls to the wrapped function / inspect.Signature.bind')
EXPLANATION = 'C13'
