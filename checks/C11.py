"""C11 ThresholdCounter"""
LEVEL = 'exploration'
LEVEL_TEXT = 'bounded stand-in only (deductive part pending)'
LEVEL_NOTE = 'bounded'
TECHNIQUE = 'executable contracts on the real ThresholdCounter, bounded-exhaustive streams'
EXPLANATION = 'C11'
