from checks._meta import export
globals().update(export("C09"))
