"""C16 tbutils: ParsedException round trip; TracebackInfo / ExceptionInfo vs the traceback module"""
LEVEL = 'exploration'
LEVEL_TEXT = 'bounded stand-in only (no deductive part: regex-driven scanner and interpreter frames)'
LEVEL_NOTE = 'bounded'
TECHNIQUE = ('executable contracts on the real tbutils: every traceback text rendered from a model (frames x optional '
             'source/marker lines x paths x function names x type names x messages) through from_string/to_string; live '
             'exceptions raised through enumerated call chains compared with traceback.extract_tb/format_exception '
             '(marker lines removed)')
EXPLANATION = 'C16'
