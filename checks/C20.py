"""C20 ThresholdCounter: contracts in contracts/tc.py discharged by pyvc; bounded stand-in in bounded/C20.py"""
from pyvc.engine import Engine
from pyvc import driver
from contracts import tc

LEVEL = 'other'
LEVEL_TEXT = ('Deductive: the real bodies of ThresholdCounter.add/get/__getitem__/__contains__/__len__ are symbolically '
              'executed from /repo source against the lossy-counting representation invariant with ghost true counts '
              '(never over-counts, under-count <= floor(total/w), frequent keys present, total counts additions) and every '
              'obligation is discharged by z3 for all states and keys, unbounded. Bounded (not proof): update() argument '
              'kinds, derived views (items/keys/values/elements/most_common/common+uncommon), size clause, by exhaustive '
              'streams. Mixed, hence "other".')
LEVEL_NOTE = ('Trusted: pyvc encoding of Python semantics (ints mathematical, dict as map + ghost size, opaque hashable '
              'keys with total side-effect-free ==), z3 5.1; int(1/threshold) is the intended floor(1/threshold); the size '
              'clause len <= 2/threshold is a known finding (false for lossy counting).')
TECHNIQUE = 'contract-based deductive verification (pyvc: ast -> VCs -> z3) of the real source + bounded executable contracts'
DESIGN_REF = 'DESIGN.md section 3 C20'
EXPLANATION = ('C20: add() proved against invariant T1-T3 with ghost true counts; readers proved against the map; '
               'update/most_common/elements/size clause decided by the bounded stand-in.')

CLAUSES = {'*': 'counts_contract'}
FUNCS = ['ThresholdCounter.add', 'ThresholdCounter.__getitem__', 'ThresholdCounter.get',
         'ThresholdCounter.__contains__', 'ThresholdCounter.__len__']


def deductive(ded, repo, tier):
    eng = Engine(repo, tc.FILE, classes=tc.CLASSES, contracts=tc.CONTRACTS)
    for c in tc.ALL:
        eng.register_class(c)
    for q in FUNCS:
        driver.discharge(ded, eng, q, clause_of=CLAUSES, tier=tier)
    ded.assume('hash/== of keys are total, deterministic and side-effect free; no NaN keys')
    ded.assume('integers are mathematical (exact for Python ints)')
