"""Expression evaluation of the symbolic executor.  Every evaluation returns a list of
(value | SExc, state): an expression can fork (dict lookup that may raise KeyError, `a or b`) and can raise."""
import ast

import z3

from .values import (SV, SInt, SBool, SReal, SVal, SStr, SNone, SRef, STuple, SLit, SFunc, SClass, SExc,
                     SSeq, SIterView, Val, NONE, NULL, INT, BOOL, REAL, VAL, STR, Ty, HeapClass,
                     Unsupported, Inapplicable, State, exc_isa)


def is_exc(v):
    return isinstance(v, SExc)


class ExprMixin:

    # ---- helpers ---------------------------------------------------------------------------
    def heap_arr(self, st, cls, field):
        key = (cls.name, field)
        a = st.heap.get(key)
        if a is None:
            a = z3.Const('H0_%s_%s' % key, z3.ArraySort(z3.IntSort(), cls.field_sort(field)))
            self.base_heap[key] = a
            st.heap[key] = a
        return a

    def hload(self, st, ref, field):
        return z3.Select(self.heap_arr(st, ref.cls, field), ref.t)

    def hstore(self, st, ref, field, term):
        st.heap[(ref.cls.name, field)] = z3.Store(self.heap_arr(st, ref.cls, field), ref.t, term)

    def wrap(self, ty, term):
        """z3 term of declared type -> SV"""
        if isinstance(ty, tuple):
            raise Unsupported('map-typed field loaded as a value')
        k = ty.kind
        if k == 'int':
            return SInt(term)
        if k == 'bool':
            return SBool(term)
        if k == 'real':
            return SReal(term)
        if k == 'val':
            return SVal(term)
        if k == 'str':
            return SStr(term)
        if k == 'ref':
            return SRef(ty.arg, term)
        raise Unsupported('wrap %r' % (ty,))

    def coerce(self, st, v, ty):
        """SV -> z3 term of the sort of ty (allocating literals that meet a reference type)"""
        k = ty.kind
        if k == 'int':
            if isinstance(v, SInt):
                return v.t
            if isinstance(v, SBool):
                return z3.If(v.t, 1, 0)
        elif k == 'bool':
            if isinstance(v, SBool):
                return v.t
        elif k == 'real':
            if isinstance(v, SReal):
                return v.t
            if isinstance(v, SInt):
                return z3.ToReal(v.t)
        elif k == 'val':
            if isinstance(v, SVal):
                return v.t
            if isinstance(v, SNone):
                return NONE
            if isinstance(v, SInt):
                return self.int2val(v.t)
            if isinstance(v, SBool):
                # bool is an int subclass: True == 1 and hash(True) == hash(1), so as a dict key / set member it IS the integer
                return self.int2val(z3.If(v.t, 1, 0))
            if isinstance(v, SFunc) and v.how == 'opaque':
                return v.a[0]
        elif k == 'str':
            if isinstance(v, SStr):
                return v.t
        elif k == 'ref':
            if isinstance(v, SRef):
                if v.cls is not ty.arg and v.cls.name != ty.arg.name:
                    raise Unsupported('reference to %s stored where %s expected' % (v.cls.name, ty.arg.name))
                return v.t
            if isinstance(v, SNone):
                return z3.IntVal(NULL)
            if isinstance(v, SLit):
                return self.alloc_literal(st, v, ty.arg).t
        raise Unsupported('cannot coerce %r to %r' % (v, ty))

    def int2val(self, t):
        return self.f_int2val(t)

    def fresh(self, st, base, sort):
        return st.fresh.const(base, sort)

    def new_ref(self, st, cls):
        """allocate: the new address is st.alloc; everything that existed before is below it"""
        r = SRef(cls, st.alloc)
        st.alloc = st.alloc + 1
        return r

    def alloc_literal(self, st, lit, cls):
        r = self.new_ref(st, cls)
        if lit.kind == 'list':
            if cls.kind == 'record' and cls.ncells is not None:
                if not lit.items:
                    return r            # `x = []` later filled by x[:] = [...]: an uninitialised cell
                if len(lit.items) != cls.ncells:
                    raise Unsupported('cell literal of length %d for %s' % (len(lit.items), cls.name))
                for i, it in enumerate(lit.items):
                    self.hstore(st, r, str(i), self.coerce(st, it, cls.fields[str(i)]))
                return r
            if cls.kind == 'list':
                if 'cat' in cls.fields:
                    cat = z3.StringVal('')
                    for it in lit.items:
                        cat = z3.Concat(cat, self.coerce(st, it, cls.e))
                    self.hstore(st, r, 'cat', cat)
                arr = z3.K(z3.IntSort(), self.default_of(cls.e))
                for i, it in enumerate(lit.items):
                    arr = z3.Store(arr, i, self.coerce(st, it, cls.e))
                self.hstore(st, r, 'elems', arr)
                self.hstore(st, r, 'len', z3.IntVal(len(lit.items)))
                return r
        if lit.kind == 'dict' and cls.has_dict() and not lit.items:
            self.hstore(st, r, 'dom', z3.K(cls.k.sort(), z3.BoolVal(False)))
            self.hstore(st, r, 'size', z3.IntVal(0))
            return r
        if lit.kind == 'set' and cls.kind == 'set' and not lit.items:
            self.hstore(st, r, 'dom', z3.K(cls.k.sort(), z3.BoolVal(False)))
            self.hstore(st, r, 'size', z3.IntVal(0))
            return r
        raise Unsupported('literal %s for class %s' % (lit.kind, cls.name))

    def default_of(self, ty):
        k = ty.kind
        if k in ('int', 'ref'):
            return z3.IntVal(0)
        if k == 'bool':
            return z3.BoolVal(False)
        if k == 'real':
            return z3.RealVal(0)
        if k == 'val':
            return NONE
        if k == 'str':
            return z3.StringVal('')
        raise Unsupported('default of %r' % ty)

    def truth(self, st, v):
        """Python truthiness as z3 Bool"""
        if isinstance(v, SBool):
            return v.t
        if isinstance(v, SInt):
            return v.t != 0
        if isinstance(v, SReal):
            return v.t != 0
        if isinstance(v, SNone):
            return z3.BoolVal(False)
        if isinstance(v, SStr):
            return z3.Length(v.t) != 0
        if isinstance(v, STuple):
            return z3.BoolVal(len(v.items) != 0)
        if isinstance(v, SLit):
            return z3.BoolVal(len(v.items) != 0)
        if isinstance(v, SFunc):
            if v.how == 'opaque':
                return v.a[0] != NONE
            return z3.BoolVal(True)
        if isinstance(v, SVal) and v.t.get_id() in self.stable_lists:
            return self.f_oseq_len(v.t) != 0
        if isinstance(v, SVal):
            # opaque value: None is falsy; any other opaque value has an uninterpreted truthiness
            return z3.And(v.t != NONE, self.f_truthy(v.t))
        if isinstance(v, SRef):
            cls = v.cls
            h = self.externals.get('truth:' + cls.name)
            if h is not None:
                return h(self, v, st)
            if cls.pyclass and self.has_method(cls, '__len__'):
                raise Unsupported('truthiness through user __len__')
            if cls.has_dict() or cls.kind == 'set':
                self.on_field_access(st, v, 'size', 'read', None)
                return z3.And(v.t != NULL, self.hload(st, v, 'size') != 0)
            if cls.kind == 'list':
                return z3.And(v.t != NULL, self.hload(st, v, 'len') != 0)
            if cls.kind == 'record' and cls.ncells:
                return v.t != NULL
            return v.t != NULL
        if isinstance(v, SSeq):
            return v.n != 0
        raise Unsupported('truthiness of %r' % (v,))

    def fork(self, st, b, note=None):
        """-> list of (bool, state) for the feasible sides of z3 Bool b"""
        b = z3.simplify(b)
        if z3.is_true(b):
            return [(True, st)]
        if z3.is_false(b):
            return [(False, st)]
        out = []
        for side, cond in ((True, b), (False, z3.Not(b))):
            if self.feasible(st.pc + (cond,)):
                s2 = st.assume(cond)
                if note:
                    s2.note('%s=%s' % (note, side))
                out.append((side, s2))
        return out

    # ---- expressions -----------------------------------------------------------------------
    def ev(self, node, st):
        m = getattr(self, 'ev_' + type(node).__name__, None)
        if m is None:
            raise Unsupported('expression %s at line %d' % (type(node).__name__, getattr(node, 'lineno', 0)))
        return m(node, st)

    def ev1(self, node, st):
        """evaluate an expression that must neither fork nor raise (pure sub-expression)"""
        r = self.ev(node, st)
        if len(r) != 1 or is_exc(r[0][0]):
            raise Unsupported('expected a simple expression at line %d' % getattr(node, 'lineno', 0))
        return r[0][0]

    def ev_seq(self, nodes, st):
        """evaluate a list of expressions left to right -> list of ([values] | SExc, state)"""
        res = [([], st)]
        for n in nodes:
            nxt = []
            for vals, s in res:
                if is_exc(vals):
                    nxt.append((vals, s))
                    continue
                for v, s2 in self.ev(n, s):
                    if is_exc(v):
                        nxt.append((v, s2))
                    else:
                        nxt.append((vals + [v], s2))
            res = nxt
        return res

    def ev_Constant(self, node, st):
        v = node.value
        if v is None:
            return [(SNone(), st)]
        if v is True or v is False:
            return [(SBool(v), st)]
        if isinstance(v, int):
            return [(SInt(v), st)]
        if isinstance(v, float):
            return [(SReal(z3.RealVal(repr(v))), st)]
        if isinstance(v, str):
            return [(SStr(v), st)]
        if isinstance(v, bytes):
            return [(SStr(v.decode('latin-1')), st)]
        raise Unsupported('constant %r' % (v,))

    def ev_JoinedStr(self, node, st):
        # f-string: only used for messages; an unconstrained string (sub-expressions are still evaluated for their effects)
        for v in node.values:
            if isinstance(v, ast.FormattedValue):
                self.ev1(v.value, st)
        return [(SStr(self.fresh(st, 'fstr', z3.StringSort())), st)]

    def ev_Name(self, node, st):
        n = node.id
        if n in st.locals:
            if isinstance(st.locals[n], SExc) and not getattr(self, '_in_raise', False):
                # a caught exception used as a VALUE (passed on, formatted, ...): expression results of type SExc mean
                # "raised" to every consumer, so anything but `raise e` / `e.attr` is outside the subset
                raise Unsupported('use of the caught exception %r as a value at line %d' % (n, node.lineno))
            return [(st.locals[n], st)]
        if n in self.consts:
            return [(self.consts[n], st)]
        if n in self.src.consts:
            c = self.src.consts[n]
            if isinstance(c, ast.Constant):
                return self.ev_Constant(c, st)
            if all(isinstance(x, (ast.Constant, ast.BinOp, ast.UnaryOp, ast.operator, ast.unaryop)) for x in ast.walk(c)) \
                    and all(isinstance(x.value, int) and not isinstance(x.value, bool) for x in ast.walk(c) if isinstance(x, ast.Constant)):
                # a module-level integer constant written as arithmetic on literals (e.g. 1024 ** 5): folded
                v = eval(compile(ast.Expression(c), '<const>', 'eval'), {'__builtins__': {}}, {})
                if isinstance(v, int):
                    return [(SInt(v), st)]
        if n in self.src.funcs or n in self.contracts:
            return [(SFunc('global', n), st)]
        if n in self.src.classes:
            return [(SClass(n), st)]
        if n in BUILTIN_NAMES:
            return [(SFunc('builtin', n), st)]
        if n in EXC_NAMES:
            return [(SClass(n), st)]
        raise Unsupported('unknown name %r at line %d' % (n, node.lineno))

    def ev_Tuple(self, node, st):
        return [((STuple(v) if not is_exc(v) else v), s) for v, s in self.ev_seq(node.elts, st)]

    def ev_List(self, node, st):
        return [((SLit('list', v) if not is_exc(v) else v), s) for v, s in self.ev_seq(node.elts, st)]

    def ev_Dict(self, node, st):
        if node.keys:
            raise Unsupported('non-empty dict display')
        return [(SLit('dict', []), st)]

    def ev_Set(self, node, st):
        raise Unsupported('set display')

    def ev_Attribute(self, node, st):
        out = []
        if isinstance(node.value, ast.Name) and isinstance(st.locals.get(node.value.id), SExc):
            # attribute of a caught exception bound by `except ... as e` (an exception VALUE, not a raise)
            return self.load_attr(st.locals[node.value.id], node.attr, st, node)
        for v, s in self.ev(node.value, st):
            if is_exc(v):
                out.append((v, s))
                continue
            out.extend(self.load_attr(v, node.attr, s, node))
        return out

    def load_attr(self, v, attr, st, node=None):
        if isinstance(v, SRef):
            cls = v.cls
            fc = self.field_consts.get((cls.name, attr))
            if fc is not None:
                return [(fc, st)]
            if attr in cls.fields and not isinstance(cls.fields[attr], tuple):
                self.on_field_access(st, v, attr, 'read', node)
                return [(self.wrap(cls.fields[attr], self.hload(st, v, attr)), st)]
            if attr == '__class__' and cls.pyclass:
                return [(SClass(cls.pyclass), st)]
            if attr in getattr(cls, 'props', {}):
                return self.call_user(cls.props[attr], v, [], {}, st, node)
            return [(SFunc('method', v, attr), st)]
        if isinstance(v, SClass):
            return [(SFunc('classattr', v.name, attr), st)]
        if isinstance(v, SFunc) and v.how == 'superobj':
            return [(SFunc('supermethod', v.a[0], attr), st)]
        if isinstance(v, SFunc) and v.how == 'builtin' and v.a[0] in ('dict', 'list', 'set'):
            return [(SFunc('classattr', v.a[0], attr), st)]
        if isinstance(v, SFunc) and v.how == 'module':
            mc = MODULE_CONSTANTS.get('%s.%s' % (v.a[0], attr))
            if mc is not None:
                return [(SInt(mc), st)]
            return [(SFunc('modfunc', v.a[0], attr), st)]
        if isinstance(v, SFunc) and v.how == 'modfunc':
            return [(SFunc('modfunc', '%s.%s' % (v.a[0], v.a[1]), attr), st)]
        if isinstance(v, (SStr, SVal, STuple, SLit, SSeq)):
            return [(SFunc('method', v, attr), st)]
        if isinstance(v, SExc) and attr == 'errno':
            # the error number of a caught OS error: an arbitrary integer
            return [(SInt(self.fresh(st, 'errno', z3.IntSort())), st)]
        raise Unsupported('attribute %s of %r' % (attr, v))

    def ev_Subscript(self, node, st):
        out = []
        if isinstance(node.slice, ast.Slice):
            return self.ev_slice(node, st)
        for vals, s in self.ev_seq([node.value, node.slice], st):
            if is_exc(vals):
                out.append((vals, s))
                continue
            out.extend(self.getitem(vals[0], vals[1], s, node))
        return out

    def getitem(self, obj, idx, st, node=None):
        if isinstance(obj, SLit) and obj.kind == 'list':
            i = self.concrete_int(idx)
            if i is None or not (-len(obj.items) <= i < len(obj.items)):
                raise Unsupported('display indexed out of range / symbolically')
            return [(obj.items[i], st)]
        if isinstance(obj, STuple):
            i = self.concrete_int(idx)
            if i is None:
                raise Unsupported('tuple indexed by a symbolic value')
            return [(obj.items[i], st)]
        if isinstance(obj, SRef):
            cls = obj.cls
            h = self.externals.get('getitem:' + cls.name)
            if h is not None:
                return h(self, obj, idx, st, node)
            if cls.pyclass and self.has_method(cls, '__getitem__'):
                return self.call_method(obj, '__getitem__', [idx], {}, st, node)
            if cls.kind == 'record' and cls.ncells is not None:
                i = self.concrete_int(idx)
                if i is None:
                    raise Unsupported('cell list indexed by a symbolic value')
                if i < 0:
                    i += cls.ncells
                self.on_field_access(st, obj, str(i), 'read', node)
                return [(self.wrap(cls.fields[str(i)], self.hload(st, obj, str(i))), st)]
            if cls.has_dict():
                return self.dict_getitem(obj, idx, st, node)
            if cls.kind == 'list':
                return self.list_getitem(obj, idx, st, node)
        if isinstance(obj, SSeq):
            if isinstance(idx, SInt):
                res = []
                inb = z3.And(idx.t >= -obj.n, idx.t < obj.n)
                for side, s in self.fork(st, inb):
                    if side:
                        j = z3.If(idx.t < 0, idx.t + obj.n, idx.t)
                        res.append((self.wrap(obj.ety, z3.Select(obj.arr, j)), s))
                    else:
                        res.append((SExc('IndexError'), s))
                return res
        if isinstance(obj, SVal):
            # item access on an opaque mapping/sequence argument: arbitrary value (or a KeyError)
            return [(SVal(self.fresh(st, 'opaque_item', Val)), st)]
        raise Unsupported('subscript of %r' % (obj,))

    def dict_getitem(self, obj, key, st, node=None):
        cls = obj.cls
        k = self.coerce(st, key, cls.k)
        self.on_field_access(st, obj, 'val', 'read', node)
        dom = self.hload(st, obj, 'dom')
        out = []
        for side, s in self.fork(st, z3.Select(dom, k), 'in'):
            if side:
                out.append((self.wrap(cls.v, z3.Select(self.hload(s, obj, 'val'), k)), s))
            else:
                out.append((SExc('KeyError', key), s))
        return out

    def list_getitem(self, obj, idx, st, node=None):
        cls = obj.cls
        if not isinstance(idx, SInt):
            raise Unsupported('list index %r' % (idx,))
        n = self.hload(st, obj, 'len')
        out = []
        for side, s in self.fork(st, z3.And(idx.t >= -n, idx.t < n), 'inbounds'):
            if side:
                j = z3.If(idx.t < 0, idx.t + n, idx.t)
                out.append((self.wrap(cls.e, z3.Select(self.hload(s, obj, 'elems'), j)), s))
            else:
                out.append((SExc('IndexError'), s))
        return out

    def ev_slice(self, node, st):
        out = []
        for obj, s in self.ev(node.value, st):
            if is_exc(obj):
                out.append((obj, s))
            else:
                out.extend(self.slice_of(obj, node, s))
        return out

    def slice_of(self, obj, node, st):
        sl = node.slice
        lo = self.concrete_int(self.ev1(sl.lower, st)) if sl.lower is not None else None
        if isinstance(obj, SSeq) and lo == -1 and sl.upper is None and sl.step is None:
            # seq[-1:] : the last element as a sequence of length min(n, 1)
            out = []
            for side, s in self.fork(st, obj.n >= 1, 'nonempty'):
                if side:
                    out.append((STuple([self.wrap(obj.ety, z3.Select(obj.arr, obj.n - 1))]), s))
                else:
                    out.append((STuple([]), s))
            return out
        if (isinstance(obj, SRef) and obj.cls.kind == 'list' and sl.lower is None and sl.upper is None
                and sl.step is None):
            s2 = st.copy()          # lst[:] is a fresh list with the same items
            r = self.new_ref(s2, obj.cls)
            self.hstore(s2, r, 'elems', self.hload(s2, obj, 'elems'))
            self.hstore(s2, r, 'len', self.hload(s2, obj, 'len'))
            return [(r, s2)]
        if isinstance(obj, SStr) and sl.step is None:
            n = z3.Length(obj.t)

            def norm(b, dflt):
                if b is None:
                    return dflt
                v = self.ev1(b, st)
                if not isinstance(v, SInt):
                    raise Unsupported('string slice bound %r' % (v,))
                # Python clamping: negative bounds count from the end, everything is clamped into [0, n]
                return z3.If(v.t < 0, z3.If(v.t + n < 0, 0, v.t + n), z3.If(v.t > n, n, v.t))
            a, b = norm(sl.lower, z3.IntVal(0)), norm(sl.upper, n)
            return [(SStr(z3.SubString(obj.t, a, z3.If(b - a < 0, 0, b - a))), st)]
        if isinstance(obj, SVal):      # a slice of an opaque sequence is an opaque sequence
            return [(SVal(self.fresh(st, 'opaque_slice', Val)), st)]
        raise Unsupported('slice expression at line %d' % node.lineno)

    def concrete_int(self, v):
        if isinstance(v, SInt):
            t = z3.simplify(v.t)
            if z3.is_int_value(t):
                return t.as_long()
        return None

    def ev_UnaryOp(self, node, st):
        out = []
        for v, s in self.ev(node.operand, st):
            if is_exc(v):
                out.append((v, s))
            elif isinstance(node.op, ast.Not):
                out.append((SBool(z3.Not(self.truth(s, v))), s))
            elif isinstance(node.op, ast.USub) and isinstance(v, SInt):
                out.append((SInt(-v.t), s))
            elif isinstance(node.op, ast.USub) and isinstance(v, SReal):
                out.append((SReal(-v.t), s))
            elif isinstance(node.op, ast.Invert) and not isinstance(v, (SInt, SBool)):
                out.append((SVal(self.fresh(s, 'bitinv', Val)), s))      # ~flag on an opaque flag value
            else:
                raise Unsupported('unary %s on %r' % (type(node.op).__name__, v))
        return out

    def ev_BoolOp(self, node, st):
        # a and b / a or b return operands; short circuit by forking on truthiness
        is_and = isinstance(node.op, ast.And)

        def go(i, s):
            res = []
            for v, s2 in self.ev(node.values[i], s):
                if is_exc(v) or i == len(node.values) - 1:
                    res.append((v, s2))
                    continue
                for side, s3 in self.fork(s2, self.truth(s2, v)):
                    if side == is_and:
                        res.extend(go(i + 1, s3))
                    else:
                        res.append((v, s3))
            return res
        return go(0, st)

    def ev_IfExp(self, node, st):
        out = []
        for v, s in self.ev(node.test, st):
            if is_exc(v):
                out.append((v, s))
                continue
            for side, s2 in self.fork(s, self.truth(s, v)):
                out.extend(self.ev(node.body if side else node.orelse, s2))
        return out

    def ev_BinOp(self, node, st):
        out = []
        for vals, s in self.ev_seq([node.left, node.right], st):
            if is_exc(vals):
                out.append((vals, s))
            else:
                out.extend(self.binop(node.op, vals[0], vals[1], s, node))
        return out

    def num_pair(self, a, b):
        if isinstance(a, SBool):
            a = SInt(z3.If(a.t, 1, 0))
        if isinstance(b, SBool):
            b = SInt(z3.If(b.t, 1, 0))
        if isinstance(a, SInt) and isinstance(b, SInt):
            return 'int', a.t, b.t
        if isinstance(a, (SInt, SReal)) and isinstance(b, (SInt, SReal)):
            at = z3.ToReal(a.t) if isinstance(a, SInt) else a.t
            bt = z3.ToReal(b.t) if isinstance(b, SInt) else b.t
            return 'real', at, bt
        return None, None, None

    def binop(self, op, a, b, st, node=None):
        if (isinstance(op, ast.Sub) and isinstance(a, SRef) and isinstance(b, SRef) and a.cls.kind == 'set'
                and a.cls is b.cls):
            return [self.set_difference(a, b, st)]
        kind, at, bt = self.num_pair(a, b)
        mk = SInt if kind == 'int' else SReal
        if kind:
            if isinstance(op, ast.Add):
                return [(mk(at + bt), st)]
            if isinstance(op, ast.Sub):
                return [(mk(at - bt), st)]
            if isinstance(op, ast.Mult):
                return [(mk(at * bt), st)]
            if isinstance(op, (ast.FloorDiv, ast.Mod)) and kind == 'int':
                out = []
                for side, s in self.fork(st, bt == 0, 'divzero'):
                    if side:
                        out.append((SExc('ZeroDivisionError'), s))
                    else:
                        # Python floor semantics: q = floor(a/b); r has the sign of b
                        q = self.fresh(s, 'q', z3.IntSort())
                        r = self.fresh(s, 'r', z3.IntSort())
                        s2 = s.assume(z3.And(at == q * bt + r,
                                             z3.If(bt > 0, z3.And(r >= 0, r < bt), z3.And(r <= 0, r > bt))))
                        s2 = self.apply_hints(s2, 'divmod', (at, bt, q, r))
                        out.append((SInt(q if isinstance(op, ast.FloorDiv) else r), s2))
                return out
            if isinstance(op, ast.Div):
                out = []
                ar = z3.ToReal(at) if kind == 'int' else at
                br = z3.ToReal(bt) if kind == 'int' else bt
                for side, s in self.fork(st, br == 0, 'divzero'):
                    if side:
                        out.append((SExc('ZeroDivisionError'), s))
                    else:
                        out.append((SReal(ar / br), s))
                return out
        if isinstance(op, (ast.BitAnd, ast.BitOr, ast.BitXor)) and (isinstance(a, (SVal, SFunc)) or isinstance(b, (SVal, SFunc))):
            return [(SVal(self.fresh(st, 'bitop', Val)), st)]      # bit arithmetic on opaque flag words: an arbitrary new flag word
        if isinstance(op, ast.Add) and isinstance(a, SStr) and isinstance(b, SStr):
            return [(SStr(z3.Concat(a.t, b.t)), st)]
        if isinstance(op, ast.Mod) and isinstance(a, SStr):
            # string formatting: only used for messages; result is an unconstrained string
            return [(SStr(self.fresh(st, 'fmt', z3.StringSort())), st)]
        if isinstance(op, ast.Add) and isinstance(a, STuple) and isinstance(b, STuple):
            return [(STuple(a.items + b.items), st)]
        raise Unsupported('binary %s on %r, %r' % (type(op).__name__, a, b))

    def ev_Compare(self, node, st):
        out = []
        for vals, s in self.ev_seq([node.left] + list(node.comparators), st):
            if is_exc(vals):
                out.append((vals, s))
                continue
            conj = []
            for i, op in enumerate(node.ops):
                conj.append(self.compare(op, vals[i], vals[i + 1], s))
            out.append((SBool(z3.And(*conj) if len(conj) > 1 else conj[0]), s))
        return out

    def compare(self, op, a, b, st):
        kind, at, bt = self.num_pair(a, b)
        if kind:
            if isinstance(op, ast.Lt):
                return at < bt
            if isinstance(op, ast.LtE):
                return at <= bt
            if isinstance(op, ast.Gt):
                return at > bt
            if isinstance(op, ast.GtE):
                return at >= bt
            if isinstance(op, (ast.Eq, ast.Is)):
                return at == bt
            if isinstance(op, (ast.NotEq, ast.IsNot)):
                return at != bt
        if isinstance(op, (ast.Is, ast.IsNot, ast.Eq, ast.NotEq)):
            neg = isinstance(op, (ast.IsNot, ast.NotEq))
            e = self.equal(a, b, st, identity=isinstance(op, (ast.Is, ast.IsNot)))
            return z3.Not(e) if neg else e
        if isinstance(op, (ast.In, ast.NotIn)):
            e = self.contains(b, a, st)
            return z3.Not(e) if isinstance(op, ast.NotIn) else e
        raise Unsupported('comparison %s on %r, %r' % (type(op).__name__, a, b))

    def equal(self, a, b, st, identity=False):
        if isinstance(a, SNone) and isinstance(b, SNone):
            return z3.BoolVal(True)
        for x, y in ((a, b), (b, a)):
            if isinstance(x, SNone):
                if isinstance(y, SVal):
                    return y.t == NONE
                if isinstance(y, SRef):
                    return y.t == NULL
                if isinstance(y, SFunc) and y.how == 'opaque':
                    return y.a[0] == NONE
                if isinstance(y, (SInt, SReal, SBool, SStr, STuple, SFunc, SLit, SSeq)):
                    return z3.BoolVal(False)
        if isinstance(a, SVal) and isinstance(b, SVal):
            return a.t == b.t
        if isinstance(a, SRef) and isinstance(b, SRef):
            if identity or True:
                if a.cls.name != b.cls.name:
                    return z3.BoolVal(False)
                if identity:
                    return a.t == b.t
                raise Unsupported('== between heap objects')
        if isinstance(a, SStr) and isinstance(b, SStr):
            return a.t == b.t
        if isinstance(a, SBool) and isinstance(b, SBool):
            return a.t == b.t
        if isinstance(a, (SInt, SReal)) and isinstance(b, (SInt, SReal)):
            kind, at, bt = self.num_pair(a, b)
            if kind:
                return at == bt
        if isinstance(a, SStr) and isinstance(b, (SInt, SReal)) or isinstance(b, SStr) and isinstance(a, (SInt, SReal)):
            return z3.BoolVal(False)
        if identity:
            # a number or string is never one of the module's private sentinel objects
            sentinels = [v.t for v in self.consts.values() if isinstance(v, SVal)]
            for x, y in ((a, b), (b, a)):
                if isinstance(x, SVal) and isinstance(y, (SInt, SReal, SStr, SBool)) and any(z3.eq(x.t, t) for t in sentinels):
                    return z3.BoolVal(False)
        if isinstance(a, SVal) and isinstance(b, SInt):
            return a.t == self.int2val(b.t)
        if isinstance(b, SVal) and isinstance(a, SInt):
            return b.t == self.int2val(a.t)
        if isinstance(a, SClass) and isinstance(b, SClass):
            return z3.BoolVal(a.name == b.name)
        if isinstance(a, (SLit, STuple)) and isinstance(b, (SLit, STuple)) and not identity:
            if isinstance(a, SLit) != isinstance(b, SLit) or (isinstance(a, SLit) and a.kind != b.kind):
                return z3.BoolVal(False)
            if len(a.items) != len(b.items):
                return z3.BoolVal(False)
            return z3.And(*[self.equal(x, y, st) for x, y in zip(a.items, b.items)]) if a.items else z3.BoolVal(True)
        for x, y in ((a, b), (b, a)):
            if isinstance(x, SVal) and isinstance(y, SRef):
                if identity:
                    self.assumptions.add('an opaque argument is not the object under verification itself')
                    return z3.BoolVal(False)
                return self.fresh(st, 'opaque_eq', z3.BoolSort())
        raise Unsupported('equality between %r and %r' % (a, b))

    def user_contains(self, cont, item, st):
        """`x in obj` for a class whose __contains__ is inlined: it must be a pure single-outcome function"""
        res = self.call_method(cont, '__contains__', [item], {}, st)
        if len(res) != 1 or not isinstance(res[0][0], SBool):
            raise Unsupported('user __contains__ with several outcomes')
        r, s2 = res[0]
        if any(s2.heap.get(k) is not v for k, v in st.heap.items()) or len(s2.heap) != len(st.heap):
            raise Unsupported('user __contains__ with side effects')
        return r.t

    def contains(self, cont, item, st):
        if isinstance(cont, SRef) and (cont.cls.has_dict() or cont.cls.kind == 'set'):
            if cont.cls.pyclass and self.has_method(cont.cls, '__contains__'):
                return self.user_contains(cont, item, st)
            self.on_field_access(st, cont, 'dom', 'read', None)
            return z3.Select(self.hload(st, cont, 'dom'), self.coerce(st, item, cont.cls.k))
        if isinstance(cont, SRef) and cont.cls.pyclass and self.has_method(cont.cls, '__contains__'):
            return self.user_contains(cont, item, st)
        if isinstance(cont, STuple):
            return z3.Or(*[self.equal(item, x, st) for x in cont.items]) if cont.items else z3.BoolVal(False)
        raise Unsupported('membership in %r' % (cont,))

    def ev_Lambda(self, node, st):
        return [(SFunc('lambda', node, dict(st.locals)), st)]

    def ev_Call(self, node, st):
        out = []
        # super().m(...)
        f = node.func
        if (isinstance(f, ast.Attribute) and isinstance(f.value, ast.Call) and isinstance(f.value.func, ast.Name)
                and f.value.func.id == 'super' and not f.value.args):
            fvs = [(SFunc('supermethod', st.locals['self'], f.attr), st)]
        else:
            fvs = self.ev(f, st)
        for fv, s in fvs:
            if is_exc(fv):
                out.append((fv, s))
                continue
            if any(isinstance(a, ast.Starred) for a in node.args) or any(k.arg is None for k in node.keywords):
                raise Unsupported('star arguments at line %d' % node.lineno)
            for vals, s2 in self.ev_seq(list(node.args) + [k.value for k in node.keywords], s):
                if is_exc(vals):
                    out.append((vals, s2))
                    continue
                args = vals[:len(node.args)]
                kwargs = {k.arg: v for k, v in zip(node.keywords, vals[len(node.args):])}
                out.extend(self.call(fv, args, kwargs, s2, node))
        return out

    def ev_ListComp(self, node, st):
        """[s for s in lst if s] over a concatenation-tracked list of strings: a fresh list without the empty strings.  Only
        its concatenation (equal to that of lst) and 0 <= len <= len(lst) are known; its items are arbitrary non-empty strings."""
        if len(node.generators) == 1:
            gen = node.generators[0]
            src = self.ev1(gen.iter, st)
            tgt = gen.target
            if (isinstance(src, SRef) and src.cls.kind == 'list' and 'cat' in src.cls.fields and isinstance(tgt, ast.Name)
                    and isinstance(node.elt, ast.Name) and node.elt.id == tgt.id and not gen.is_async
                    and all(isinstance(c, ast.Name) and c.id == tgt.id for c in gen.ifs) and len(gen.ifs) <= 1):
                s = st.copy()
                r = self.new_ref(s, src.cls)
                n = self.fresh(s, 'complen', z3.IntSort())
                self.hstore(s, r, 'elems', self.fresh(s, 'compelems', z3.ArraySort(z3.IntSort(), z3.StringSort())))
                self.hstore(s, r, 'len', n)
                self.hstore(s, r, 'cat', self.hload(s, src, 'cat'))
                s = s.assume(z3.And(n >= 0, n <= self.hload(s, src, 'len')))
                return [(r, s)]
            if isinstance(src, SIterView) and src.what in ('values', 'items') and not gen.ifs and not gen.is_async:
                # [e for <target> in d.values()/d.items()] with an integer e: known only as the term of a sum over the keys
                d = src.ref
                cls = d.cls
                kb = z3.Const(st.fresh.name('kc'), cls.k.sort())
                item_v = self.wrap(cls.v, z3.Select(self.hload(st, d, 'val'), kb))
                item = item_v if src.what == 'values' else STuple([self.wrap(cls.k, kb), item_v])
                s2 = st.copy()
                res = self.assign(tgt, item, s2)
                if len(res) == 1 and res[0][0] == 'next':
                    e = self.ev1(node.elt, res[0][2])
                    if isinstance(e, SInt):
                        dom = self.hload(st, d, 'dom')
                        return [(SFunc('intcomp', z3.Lambda([kb], z3.If(z3.Select(dom, kb), e.t, 0))), st)]
        raise Unsupported('list comprehension at line %d' % node.lineno)

    def ev_GeneratorExp(self, node, st):
        # a generator expression over an opaque iterable is an opaque iterable (its items are arbitrary); anything else
        # is outside the subset
        if len(node.generators) == 1:
            src = self.ev1(node.generators[0].iter, st)
            if isinstance(src, SVal):
                return [(SVal(self.fresh(st, 'opaque_genexp', Val)), st)]
        raise Unsupported('generator expression at line %d' % node.lineno)

    def ev_DictComp(self, node, st):
        """{K: V for (k, v) in d.items() if C}: pointwise definition of the new dict"""
        if len(node.generators) != 1:
            raise Unsupported('nested comprehension')
        gen = node.generators[0]
        src = self.ev1(gen.iter, st)
        if not (isinstance(src, SIterView) and src.what == 'items'):
            raise Unsupported('dict comprehension over %r' % (src,))
        d = src.ref
        cls = d.cls
        tgt = gen.target
        if not (isinstance(tgt, ast.Tuple) and len(tgt.elts) == 2 and all(isinstance(e, ast.Name) for e in tgt.elts)):
            raise Unsupported('comprehension target')
        kn, vn = tgt.elts[0].id, tgt.elts[1].id
        kb = z3.Const(st.fresh.name('kb'), cls.k.sort())
        s2 = st.copy()
        s2.locals[kn] = self.wrap(cls.k, kb)
        s2.locals[vn] = self.wrap(cls.v, z3.Select(self.hload(st, d, 'val'), kb))
        cond = z3.BoolVal(True)
        for c in gen.ifs:
            cond = z3.And(cond, self.truth(s2, self.ev1(c, s2)))
        keyv = self.ev1(node.key, s2)
        valv = self.ev1(node.value, s2)
        if not (isinstance(keyv, (SVal, SInt)) and z3.eq(getattr(keyv, 't'), kb)):
            raise Unsupported('comprehension that re-keys')
        newdom = z3.Lambda([kb], z3.And(z3.Select(self.hload(st, d, 'dom'), kb), cond))
        newval = z3.Lambda([kb], self.coerce(s2, valv, cls.v))
        tcls = self.comp_target_class or cls
        r = self.new_ref(st, tcls)
        self.hstore(st, r, 'dom', newdom)
        self.hstore(st, r, 'val', newval)
        nsz = self.fresh(st, 'compsize', z3.IntSort())
        osz = self.hload(st, d, 'size')
        st2 = st.assume(z3.And(nsz >= 0, nsz <= osz))
        st2.heap = st.heap
        st2.alloc = st.alloc
        self.hstore(st2, r, 'size', nsz)
        return [(r, st2)]


MODULE_CONSTANTS = {'os.SEEK_SET': 0, 'os.SEEK_CUR': 1, 'os.SEEK_END': 2}      # documented POSIX values
import errno as _errno  # noqa: E402
MODULE_CONSTANTS.update({'errno.' + _n: _v for _n, _v in vars(_errno).items() if isinstance(_v, int)})  # this platform's values
BUILTIN_NAMES = {'issubclass', 'super', 'hash', 'len', 'range', 'sum', 'min', 'max', 'int', 'float', 'isinstance', 'callable', 'getattr',
                 'iter', 'next', 'list', 'sorted', 'abs', 'bool', 'tuple', 'dict', 'set', 'hasattr', 'enumerate',
                 'zip', 'reversed', 'str', 'repr', 'type', 'id', 'print', 'object', 'frozenset', 'bytes'}
EXC_NAMES = {'KeyError', 'IndexError', 'ValueError', 'TypeError', 'AttributeError', 'StopIteration', 'OSError',
             'IOError', 'Exception', 'BaseException', 'RuntimeError', 'NotImplementedError', 'LookupError',
             'FileExistsError', 'FileNotFoundError', 'AssertionError', 'ZeroDivisionError'}
