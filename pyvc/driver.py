"""Turn the pending obligations of Engine.verify into solver queries and core.Obligation records."""
import time

import z3

from lib.core import Obligation
from . import smt


def _conjuncts(e):
    if z3.is_and(e):
        out = []
        for c in e.children():
            out.extend(_conjuncts(c))
        return out
    return [e]


def _has_quant(e, _seen=None):
    seen = set() if _seen is None else _seen
    todo = [e]
    while todo:
        x = todo.pop()
        if x.get_id() in seen:
            continue
        seen.add(x.get_id())
        if z3.is_quantifier(x):
            return True
        todo.extend(x.children())
    return False


def discharge(ded, eng, qualname, clause_of=None, tier='quick', variant=None, label=None, timeout=None, only=None):
    """verify one function; append named obligations to `ded`.
    Obligation names are `<function>[<variant>]: <contract clause>` (one per clause, all paths together), so they
    are stable under edits that add or remove branches.
    returns dict(status, refuted=[(Obligation, model, trace)])"""
    t0 = time.time()
    fname = label or (qualname if variant is None else '%s[%s]' % (qualname, variant))
    res = eng.verify(qualname, variant)
    relfile = eng.relpath
    info = dict(file=relfile, source_sha256=res.get('sha', '')[:16], dropped=res.get('dropped', []),
                status=res['status'])
    ded.functions[fname] = info
    for a in sorted(eng.assumptions):
        ded.assume(a)
    for t in sorted(eng.trusted):
        ded.trust(t)
    if res['status'] != 'ok':
        info['reason'] = res.get('reason', '')
        st = 'inapplicable' if res['status'] == 'inapplicable' else 'unknown'
        ded.add(Obligation('%s: whole contract' % fname, fname, (clause_of or {}).get('*', 'contract'), 'post', st,
                           backend='pyvc', sha=res.get('sha', ''), detail='%s: %s' % (res['status'], res.get('reason', ''))))
        ded.demote(fname, '%s: %s' % (res['status'], res.get('reason', '')))
        return dict(status=res['status'], refuted=[])
    info['paths'] = res.get('paths')
    info['calls_by_contract'] = res.get('called')
    info['inlined'] = res.get('inlined')
    pend = res['obligations']
    if only is not None:
        pend = [p for p in pend if only(p)]
    timeout = timeout or (20 if tier == 'quick' else 120)
    # each pending obligation is split into its top-level goal conjuncts; a quantifier-free conjunct is first
    # tried against the quantifier-free hypotheses only (dropping hypotheses is sound for proving and keeps
    # nonlinear goals away from the quantified heap invariants); refutations only count on the full query.
    queries, idx = [], []
    vac_q, vac_i = [], []
    for i, p in enumerate(pend):
        if z3.is_true(p.goal):
            continue
        hyps = []
        for h in p.hyps:
            hyps.extend(_conjuncts(h))
        if p.kind in ('cover', 'must-fail'):
            vac_q.append(smt.to_smt2(hyps, p.goal))
            vac_i.append(i)
            continue
        qf_hyps = [h for h in hyps if not _has_quant(h)]
        for g in _conjuncts(p.goal):
            sliced = smt.to_smt2(qf_hyps, g) if (not _has_quant(g) and len(qf_hyps) < len(hyps)) else None
            queries.append((sliced, smt.to_smt2(hyps, g)))
            idx.append(i)
    first = smt.solve_many([q[0] for q in queries if q[0] is not None], timeout_s=min(5, timeout), use_cvc5=False)
    fi = iter(first)
    todo, slot = [], []
    partial = [None] * len(queries)
    for j, q in enumerate(queries):
        if q[0] is not None:
            r = next(fi)
            if r[0] == 'unsat':
                partial[j] = (r[0], r[1], r[2], r[3] + '(qf-slice)')
                continue
        todo.append(q[1])
        slot.append(j)
    for j, r in zip(slot, smt.solve_many(todo, timeout_s=timeout)):
        partial[j] = r
    status = {}
    # vacuity probes are satisfiability questions (expected `sat`); quantified pcs often answer `unknown`, which is
    # reported as "not shown", never as a failure: short budget, single attempt
    for i, r in zip(vac_i, smt.solve_many(vac_q, timeout_s=3, use_cvc5='single')):
        status[i] = r
    for i, r in zip(idx, partial):
        cur = status.get(i)
        if cur is None:
            status[i] = r
        else:
            # combine conjunct results: sat dominates, then unknown, else unsat
            rank = {'sat': 2, 'unknown': 1, 'unsat': 0}
            best = r if rank.get(r[0], 1) > rank.get(cur[0], 1) else cur
            status[i] = (best[0], best[1], cur[2] + r[2], best[3] if best[3] == cur[3] else cur[3] + '+' + r[3])
    groups = {}
    order = []
    for i, p in enumerate(pend):
        key = (p.kind, p.label)
        if key not in groups:
            groups[key] = []
            order.append(key)
        groups[key].append(i)
    refuted = []
    for key in order:
        kind, lab = key
        members = groups[key]
        if kind == 'cover':
            ded.vacuity['covers_total'] += 1
            r = status.get(members[0])
            if r and r[0] == 'sat':
                ded.vacuity['covers_sat'] += 1
            elif r and r[0] == 'unsat':
                ded.checker_errors.append('%s: precondition unsatisfiable (vacuous contract)' % fname)
            else:
                ded.vacuity['covers_unknown'] = ded.vacuity.get('covers_unknown', 0) + 1
            continue
        if kind == 'must-fail':
            for i in members:
                ded.vacuity['must_fail_total'] += 1
                r = status.get(i)
                if r and r[0] == 'sat':
                    ded.vacuity['must_fail_refuted'] += 1
            continue
        secs = 0.0
        st = 'proved'
        backend = set()
        detail = ''
        model = None
        trace = None
        inductive = False
        for i in members:
            p = pend[i]
            inductive = inductive or p.inductive
            r = status.get(i)
            if r is None:      # trivially true after simplification
                backend.add('simplifier')
                continue
            secs += r[2]
            backend.add(r[3])
            if r[0] == 'unsat':
                continue
            if r[0] == 'sat':
                st = 'refuted'
                model = r[1]
                trace = p.trace
                detail = 'path: %s' % ' / '.join(p.trace[-8:])
                break
            if st != 'refuted':
                st = 'unknown'
                detail = 'solver: %s' % (r[1],)
        clause = (clause_of or {}).get(lab) or (clause_of or {}).get('*') or lab
        ob = Obligation('%s: %s' % (fname, lab), fname, clause, kind, st, backend='+'.join(sorted(backend)),
                        seconds=secs, sha=res.get('sha', ''), detail=detail, model=model, inductive=inductive,
                        path='%d path(s)' % len(members))
        ded.add(ob)
        if st == 'refuted':
            refuted.append((ob, model, trace))
    info['wall_s'] = round(time.time() - t0, 2)
    return dict(status='ok', refuted=refuted)


# ---------------------------------------------------------------------------------------------------------------------
# function-level parallelism: one worker process per function under contract (solver queries run serially inside)
ONLY = {
    None: None,
    'guard': lambda p: p.label.startswith('guarded-by') or p.kind == 'cover',
}


def _worker(spec):
    import importlib
    import os
    import traceback
    os.environ['VERIF_SERIAL'] = '1'
    from lib.core import Deductive
    try:
        m = importlib.import_module(spec['module'])
        eng = m.make_engine(spec['repo'])
        d = Deductive()
        only = spec.get('only')
        if isinstance(only, str) and only.startswith('fn:'):
            modname, fn = only[3:].split(':')
            only_f = getattr(importlib.import_module(modname), fn)
        else:
            only_f = ONLY[only]
        discharge(d, eng, spec['q'], clause_of=spec.get('clause_of'), tier=spec.get('tier', 'quick'),
                  variant=spec.get('variant'), timeout=spec.get('timeout'), only=only_f)
        return dict(obligations=d.obligations, functions=d.functions, assumptions=d.assumptions, trusted=d.trusted,
                    demotions=d.demotions, vacuity=d.vacuity, checker_errors=d.checker_errors)
    except Exception:
        return dict(error='%s %s: %s' % (spec['q'], spec.get('variant'), traceback.format_exc()[-1200:]))


def run_parallel(ded, specs, jobs=None):
    import multiprocessing as mp
    import os
    if not specs:
        return
    jobs = jobs or min(len(specs), int(os.environ.get('VERIF_JOBS', '0') or 0) or min(16, os.cpu_count() or 4))
    if jobs <= 1 or os.environ.get('VERIF_SERIAL'):
        results = [_worker(s) for s in specs]
    else:
        with mp.get_context('fork').Pool(jobs) as pool:
            results = pool.map(_worker, specs, chunksize=1)
    for r in results:
        if 'error' in r:
            ded.checker_errors.append(r['error'])
            continue
        ded.obligations.extend(r['obligations'])
        ded.functions.update(r['functions'])
        for a in r['assumptions']:
            ded.assume(a)
        for t in r['trusted']:
            ded.trust(t)
        ded.demotions.extend(r['demotions'])
        for k, v in r['vacuity'].items():
            ded.vacuity[k] = ded.vacuity.get(k, 0) + v
        ded.checker_errors.extend(r['checker_errors'])
