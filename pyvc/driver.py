"""Turn the pending obligations of Engine.verify into solver queries and core.Obligation records.

Two phases so that everything parallelises: `prepare` (symbolic execution of one function + SMT-LIB text of each query; one
worker process per function) and `solve` (all queries of all functions in one solver pool, under a wall budget), then
`finish` groups the answers per contract clause.

Each pending obligation is split into its top-level goal conjuncts.  A conjunct is first tried against a *slice* of the
hypotheses (dropping hypotheses is sound for proving): the quantifier-free ones for a quantifier-free goal, or the
contract's reveal list (named invariant conjuncts) otherwise; what is not proved that way goes to the full query, and only
the full query can refute.
"""
import os
import time

import z3

from lib.core import Obligation
from . import smt


def _conjuncts(e):
    if z3.is_and(e):
        out = []
        for c in e.children():
            out.extend(_conjuncts(c))
        return out
    return [e]


def _has_quant(e):
    seen = set()
    todo = [e]
    while todo:
        x = todo.pop()
        if x.get_id() in seen:
            continue
        seen.add(x.get_id())
        if z3.is_quantifier(x):
            return True
        todo.extend(x.children())
    return False


def _reveal_for(reveal, label):
    for key, allowed in reveal.items():
        if label.endswith(key):
            return set(allowed)
    return None


def prepare(eng, qualname, variant=None, label=None, only=None):
    """-> picklable dict: function info + list of items (kind, label, trace, inductive, queries=[(sliced|None, full)])"""
    t0 = time.time()
    fname = label or (qualname if variant is None else '%s[%s]' % (qualname, variant))
    res = eng.verify(qualname, variant)
    info = dict(file=eng.relpath, source_sha256=res.get('sha', '')[:16], dropped=res.get('dropped', []), status=res['status'])
    out = dict(fname=fname, info=info, sha=res.get('sha', ''), items=[], assumptions=sorted(eng.assumptions),
               trusted=sorted(eng.trusted), status=res['status'], reason=res.get('reason', ''))
    if res['status'] != 'ok':
        info['reason'] = res.get('reason', '')
        return out
    info['paths'] = res.get('paths')
    info['visited_lines'] = sorted(eng.visited_lines)
    info['calls_by_contract'] = res.get('called')
    info['inlined'] = res.get('inlined')
    pend = res['obligations']
    if only is not None:
        pend = [p for p in pend if only(p)]
    labels = getattr(eng, 'hyp_labels', {})
    reveal = getattr(eng.contracts.get(qualname), 'reveal', None) or {}
    for p in pend:
        item = dict(kind=p.kind, label=p.label, trace=tuple(p.trace)[-8:], inductive=p.inductive, queries=[])
        if not z3.is_true(p.goal):
            hyps = []
            for h in p.hyps:
                hyps.extend(_conjuncts(h))
            if p.kind in ('cover', 'must-fail'):
                item['queries'].append((None, smt.to_smt2(hyps, p.goal)))
            else:
                qf_hyps = [h for h in hyps if not _has_quant(h)]
                allowed = _reveal_for(reveal, p.label)
                for g in _conjuncts(p.goal):
                    sliced = smt.to_smt2(qf_hyps, g) if (not _has_quant(g) and len(qf_hyps) < len(hyps)) else None
                    if sliced is None and allowed is not None:
                        kept = [h for h in hyps if labels.get(h.get_id()) is None or labels[h.get_id()] in allowed]
                        if len(kept) < len(hyps):
                            sliced = smt.to_smt2(kept, g)
                    item['queries'].append((sliced, smt.to_smt2(hyps, g)))
        out['items'].append(item)
    info['prepare_s'] = round(time.time() - t0, 2)
    return out


def solve(preps, timeout, budget_s, cvc5_mode=True):
    """answer every query of every prepared function; -> {(prep index, item index, query index): result}"""
    deadline = time.time() + budget_s
    vac, slots = [], []
    for pi, pr in enumerate(preps):
        for ii, it in enumerate(pr['items']):
            for qi, (sliced, full) in enumerate(it['queries']):
                if it['kind'] in ('cover', 'must-fail'):
                    vac.append(((pi, ii, qi), full))
                else:
                    slots.append((pi, ii, qi, sliced, full))
    answers = {}
    # stage 1: slices (short budget, proofs only)
    s1 = [((pi, ii, qi), sl) for pi, ii, qi, sl, fu in slots if sl is not None]
    for (k, _), r in zip(s1, smt.solve_many([s for _, s in s1], timeout_s=min(10, timeout), use_cvc5=False, deadline=deadline)):
        if r[0] == 'unsat':
            answers[k] = (r[0], r[1], r[2], r[3] + '(slice)')
    # stage 2: full queries for the rest
    s2 = [((pi, ii, qi), fu) for pi, ii, qi, sl, fu in slots if (pi, ii, qi) not in answers]
    for (k, _), r in zip(s2, smt.solve_many([q for _, q in s2], timeout_s=timeout, use_cvc5=cvc5_mode, deadline=deadline)):
        answers[k] = r
    # vacuity probes: satisfiability questions, short budget, single attempt, `unknown` is "not shown"
    for (k, _), r in zip(vac, smt.solve_many([q for _, q in vac], timeout_s=3, use_cvc5='single', deadline=time.time() + 8)):
        answers[k] = r
    return answers


def finish(ded, pr, pi, answers, clause_of=None):
    fname, info = pr['fname'], pr['info']
    ded.functions[fname] = info
    for a in pr['assumptions']:
        ded.assume(a)
    for t in pr['trusted']:
        ded.trust(t)
    if pr['status'] != 'ok':
        st = 'inapplicable' if pr['status'] == 'inapplicable' else 'unknown'
        ded.add(Obligation('%s: whole contract' % fname, fname, (clause_of or {}).get('*', 'contract'), 'post', st,
                           backend='pyvc', sha=pr['sha'], detail='%s: %s' % (pr['status'], pr['reason'])))
        ded.demote(fname, '%s: %s' % (pr['status'], pr['reason']))
        return []
    rank = {'sat': 2, 'unknown': 1, 'unsat': 0}
    groups, order = {}, []
    for ii, it in enumerate(pr['items']):
        key = (it['kind'], it['label'])
        if key not in groups:
            groups[key] = []
            order.append(key)
        groups[key].append(ii)
    refuted = []
    for key in order:
        kind, lab = key
        members = groups[key]
        if kind == 'cover':
            ded.vacuity['covers_total'] += 1
            r = answers.get((pi, members[0], 0))
            if r and r[0] == 'sat':
                ded.vacuity['covers_sat'] += 1
            elif r and r[0] == 'unsat':
                ded.checker_errors.append('%s: precondition unsatisfiable (vacuous contract)' % fname)
            else:
                ded.vacuity['covers_unknown'] = ded.vacuity.get('covers_unknown', 0) + 1
            continue
        if kind == 'must-fail':
            for ii in members:
                ded.vacuity['must_fail_total'] += 1
                r = answers.get((pi, ii, 0))
                if r and r[0] == 'sat':
                    ded.vacuity['must_fail_refuted'] += 1
            continue
        secs, st, backend, detail, model, inductive = 0.0, 'proved', set(), '', None, False
        for ii in members:
            it = pr['items'][ii]
            inductive = inductive or it['inductive']
            if not it['queries']:
                backend.add('simplifier')
                continue
            worst = None
            for qi in range(len(it['queries'])):
                r = answers.get((pi, ii, qi)) or ('unknown', 'not answered', 0.0, 'none')
                secs += r[2]
                backend.add(r[3])
                if worst is None or rank.get(r[0], 1) > rank.get(worst[0], 1):
                    worst = r
            if worst[0] == 'sat':
                st, model = 'refuted', worst[1]
                detail = 'path: %s' % ' / '.join(it['trace'])
                break
            if worst[0] != 'unsat' and st != 'refuted':
                st = 'unknown'
                detail = 'solver: %s' % (worst[1],)
        clause = (clause_of or {}).get(lab) or (clause_of or {}).get('*') or lab
        ob = Obligation('%s: %s' % (fname, lab), fname, clause, kind, st, backend='+'.join(sorted(backend)), seconds=secs,
                        sha=pr['sha'], detail=detail, model=model, inductive=inductive, path='%d path(s)' % len(members))
        ded.add(ob)
        if st == 'refuted':
            refuted.append(ob)
    return refuted


def discharge(ded, eng, qualname, clause_of=None, tier='quick', variant=None, label=None, timeout=None, only=None,
              budget_s=None):
    """verify one function in this process (developer loop / single functions)"""
    t0 = time.time()
    pr = prepare(eng, qualname, variant, label, only)
    timeout = timeout or (20 if tier == 'quick' else 120)
    answers = solve([pr], timeout, budget_s or (300 if tier == 'quick' else 3000), getattr(eng, 'cvc5_mode', True))
    refuted = finish(ded, pr, 0, answers, clause_of)
    pr['info']['wall_s'] = round(time.time() - t0, 2)
    return dict(status=pr['status'], refuted=refuted)


# ---------------------------------------------------------------------------------------------------------------------
ONLY = {None: None, 'guard': lambda p: p.label.startswith('guarded-by') or p.kind == 'cover'}


def _prep_worker(spec):
    import importlib
    import traceback
    try:
        m = importlib.import_module(spec['module'])
        eng = m.make_engine(spec['repo'])
        only = spec.get('only')
        if isinstance(only, str) and only.startswith('fn:'):
            modname, fn = only[3:].split(':')
            only_f = getattr(importlib.import_module(modname), fn)
        else:
            only_f = ONLY[only]
        return prepare(eng, spec['q'], spec.get('variant'), None, only_f)
    except Exception:
        return dict(error='%s %s: %s' % (spec['q'], spec.get('variant'), traceback.format_exc()[-1200:]))


def run_parallel(ded, specs, jobs=None, budget_s=None):
    """prepare every function in a process pool, then answer all queries together under one wall budget"""
    import multiprocessing as mp
    if not specs:
        return
    tier = specs[0].get('tier', 'quick')
    jobs = jobs or min(len(specs), int(os.environ.get('VERIF_JOBS', '0') or 0) or min(16, os.cpu_count() or 4))
    if jobs <= 1 or os.environ.get('VERIF_SERIAL'):
        preps = [_prep_worker(s) for s in specs]
    else:
        with mp.get_context('fork').Pool(jobs) as pool:
            preps = pool.map(_prep_worker, specs, chunksize=1)
    good = []
    for s, pr in zip(specs, preps):
        if 'error' in pr:
            ded.checker_errors.append(pr['error'])
        else:
            good.append((s, pr))
    timeout = max([s.get('timeout') or (20 if tier == 'quick' else 120) for s in specs])
    budget = budget_s or (240 if tier == 'quick' else 2400)
    answers = solve([pr for _, pr in good], timeout, budget, 'first' if any(s.get('cvc5_first') for s in specs) else True)
    for pi, (s, pr) in enumerate(good):
        finish(ded, pr, pi, answers, s.get('clause_of'))
