"""Front end: reads the *real* source under $VERIF_REPO on every run and extracts function ASTs."""
import ast
import hashlib
import os

_cache = {}


class Source:
    def __init__(self, repo, relpath):
        self.repo = repo
        self.relpath = relpath
        self.path = os.path.join(repo, relpath)
        with open(self.path, encoding='utf-8') as f:
            self.text = f.read()
        self.tree = ast.parse(self.text, filename=self.path)
        self.funcs = {}
        self.classes = {}
        self.consts = {}
        body = []
        self.conditional_defs = []

        def flatten(stmts, depth=0):
            # definitions under module-level if/try are collected too (later definitions win, so for
            # `if os.name == 'nt': ... else: ...` the POSIX branch is the one under contract)
            for n in stmts:
                if isinstance(n, ast.If) and depth < 3:
                    flatten(n.body, depth + 1)
                    flatten(n.orelse, depth + 1)
                elif isinstance(n, ast.Try) and depth < 3:
                    flatten(n.body, depth + 1)
                    for h in n.handlers:
                        flatten(h.body, depth + 1)
                    flatten(n.orelse, depth + 1)
                else:
                    if depth and isinstance(n, (ast.FunctionDef, ast.ClassDef)):
                        self.conditional_defs.append(n.name)
                    body.append(n)
        flatten(self.tree.body)
        for node in body:
            if isinstance(node, (ast.FunctionDef, ast.AsyncFunctionDef)):
                self.funcs[node.name] = node
            elif isinstance(node, ast.ClassDef):
                self.classes[node.name] = node
                for sub in node.body:
                    if isinstance(sub, (ast.FunctionDef, ast.AsyncFunctionDef)):
                        self.funcs['%s.%s' % (node.name, sub.name)] = sub
            elif isinstance(node, ast.Assign):
                for t in node.targets:
                    if isinstance(t, ast.Name):
                        self.consts[t.id] = node.value
                    elif isinstance(t, ast.Tuple) and all(isinstance(e, ast.Name) for e in t.elts):
                        # PREV, NEXT, KEY, VALUE = range(4)
                        v = node.value
                        if (isinstance(v, ast.Call) and isinstance(v.func, ast.Name) and v.func.id == 'range'
                                and len(v.args) == 1 and isinstance(v.args[0], ast.Constant)
                                and v.args[0].value == len(t.elts)):
                            for i, e in enumerate(t.elts):
                                self.consts[e.id] = ast.Constant(value=i)

    def func(self, qualname):
        return self.funcs.get(qualname)

    def segment(self, node):
        return ast.get_source_segment(self.text, node) or ''

    def sha(self, node):
        return hashlib.sha256(self.segment(node).encode()).hexdigest()

    def bases(self, clsname):
        c = self.classes.get(clsname)
        if not c:
            return []
        out = []
        for b in c.bases:
            if isinstance(b, ast.Name):
                out.append(b.id)
            elif isinstance(b, ast.Attribute):
                out.append(b.attr)
        return out

    def resolve_method(self, clsname, meth):
        """MRO lookup inside this file: returns (defining class, node) or (None, None)"""
        seen = set()
        todo = [clsname]
        while todo:
            c = todo.pop(0)
            if c in seen:
                continue
            seen.add(c)
            n = self.funcs.get('%s.%s' % (c, meth))
            if n is not None:
                return c, n
            todo.extend(self.bases(c))
        return None, None


def load(repo, relpath):
    key = (repo, relpath)
    st = os.stat(os.path.join(repo, relpath))
    tag = (st.st_mtime_ns, st.st_size)
    c = _cache.get(key)
    if c and c[0] == tag:
        return c[1]
    s = Source(repo, relpath)
    _cache[key] = (tag, s)
    return s


def strip_docstring(body):
    if body and isinstance(body[0], ast.Expr) and isinstance(body[0].value, ast.Constant) \
            and isinstance(body[0].value.value, str):
        return body[1:], ['docstring']
    return body, []
