"""Calls: by contract (modular), builtins by assumed contract, small helpers by inlining."""
import ast

import z3

from .values import (SV, SInt, SBool, SReal, SVal, SStr, SNone, SRef, STuple, SLit, SFunc, SClass, SExc,
                     SSeq, SGen, SIterView, Val, NONE, NULL, INT, BOOL, REAL, VAL, STR, Ty, HeapClass,
                     Unsupported, Inapplicable, State, exc_isa)
from .contract import Ctx
from .exprs import is_exc


class CallMixin:

    def has_method(self, cls, name):
        if not cls.pyclass:
            return False
        c, n = self.src.resolve_method(cls.pyclass, name)
        return n is not None

    def call(self, fv, args, kwargs, st, node=None):
        if isinstance(fv, SClass):
            return self.call_class(fv, args, kwargs, st, node)
        if not isinstance(fv, SFunc):
            if isinstance(fv, SVal):
                fv = SFunc('opaque', fv.t)
            else:
                raise Unsupported('call of %r' % (fv,))
        how = fv.how
        if how == 'builtin':
            return self.call_builtin(fv.a[0], args, kwargs, st, node)
        if how == 'method':
            return self.call_method(fv.a[0], fv.a[1], args, kwargs, st, node)
        if how == 'supermethod':
            recv, name = fv.a
            return self.call_container_method(recv, name, args, kwargs, st, node, dictpart=True)
        if how == 'global':
            return self.call_user(fv.a[0], None, args, kwargs, st, node)
        if how == 'lambda':
            return self.call_lambda(fv, args, kwargs, st)
        if how == 'opaque':
            return self.call_opaque(fv, args, kwargs, st, node)
        if how == 'classattr':
            cname, attr = fv.a
            if cname == 'dict' or cname in ('list', 'set'):
                # dict.__setitem__(obj, k, v)
                return self.call_container_method(args[0], attr, args[1:], kwargs, st, node, dictpart=True)
            return self.call_user('%s.%s' % (cname, attr), args[0] if args else None, args[1:], kwargs, st, node)
        if how == 'extfunc':
            return self.call_external(fv.a[0], args, kwargs, st, node)
        if how == 'modfunc':
            return self.call_external('%s.%s' % (fv.a[0], fv.a[1]), args, kwargs, st, node)
        raise Unsupported('call of %r' % (fv,))

    # ---- user functions ----------------------------------------------------------------------
    def call_method(self, recv, name, args, kwargs, st, node=None):
        if isinstance(recv, SRef) and recv.cls.pyclass:
            dc, fnode = self.src.resolve_method(recv.cls.pyclass, name)
            if fnode is not None:
                return self.call_user('%s.%s' % (dc, name), recv, args, kwargs, st, node)
        if isinstance(recv, SRef):
            h = self.externals.get('method:%s.%s' % (recv.cls.name, name))
            if h is not None:
                return h(self, [recv] + list(args), kwargs, st, node)
            return self.call_container_method(recv, name, args, kwargs, st, node)
        if isinstance(recv, SStr):
            h = self.externals.get('strmethod:' + name)
            if h is not None:
                return h(self, [recv] + list(args), kwargs, st, node)
        if isinstance(recv, SVal):
            # method of an opaque object (e.g. E.keys): handled by the external table if declared
            return self.call_external('opaque.' + name, [recv] + list(args), kwargs, st, node)
        raise Unsupported('method %s of %r' % (name, recv))

    def bind_args(self, fnode, recv, args, kwargs, st):
        a = fnode.args
        names = [x.arg for x in a.posonlyargs + a.args]
        bound = {}
        if a.vararg:
            if len(args) + (1 if recv is not None else 0) > len(names):
                raise Unsupported('extra positional arguments into *%s' % a.vararg.arg)
            bound[a.vararg.arg] = STuple([])
        if a.kwarg:
            extra = [k for k in kwargs if k not in names and k not in [x.arg for x in a.kwonlyargs]]
            if extra:
                raise Unsupported('extra keyword arguments into **%s' % a.kwarg.arg)
            bound[a.kwarg.arg] = SVal(st.fresh.const('empty_kwargs', Val))
        pos = list(args)
        if recv is not None:
            pos = [recv] + pos
        if len(pos) > len(names):
            raise Unsupported('too many positional arguments for %s' % fnode.name)
        for n, v in zip(names, pos):
            bound[n] = v
        for k, v in kwargs.items():
            if k in bound:
                raise Unsupported('duplicate argument %s' % k)
            bound[k] = v
        defaults = a.defaults
        dnames = names[len(names) - len(defaults):] if defaults else []
        for n, d in zip(dnames, defaults):
            if n not in bound:
                bound[n] = self.ev1(d, st)
        for ka, kd in zip(a.kwonlyargs, a.kw_defaults):
            if ka.arg not in bound:
                if kd is None:
                    raise Unsupported('missing keyword-only argument')
                bound[ka.arg] = self.ev1(kd, st)
        for n in names:
            if n not in bound:
                raise Unsupported('missing argument %s for %s' % (n, fnode.name))
        return bound

    def call_user(self, qualname, recv, args, kwargs, st, node=None):
        con = self.contracts.get(qualname)
        fnode = self.src.func(qualname)
        if fnode is not None and any(getattr(d, 'id', None) == 'staticmethod' for d in fnode.decorator_list):
            recv = None
        if con is not None and not con.inline:
            if fnode is None:
                raise Inapplicable('function %s not found' % qualname)
            bound = self.bind_args(fnode, recv, args, kwargs, st)
            return self.apply_contract(con, bound, st, node)
        if fnode is None:
            raise Unsupported('call to %s: no source, no contract' % qualname)
        if self.depth > 6:
            raise Unsupported('inlining depth')
        bound = self.bind_args(fnode, recv, args, kwargs, st)
        self.depth += 1
        self.inlined.add(qualname)
        try:
            s0 = st.copy()
            caller_locals = s0.locals
            s0.locals = dict(bound)
            outs = []
            saved = self.cur_contract
            self.cur_contract = con if con is not None else self.cur_contract_for_inline(qualname)
            try:
                res = self.exec_block(fnode.body, s0)
            finally:
                self.cur_contract = saved
            for ctrl, val, s in res:
                s.locals = dict(caller_locals)
                if ctrl == 'raise':
                    outs.append((val, s))
                elif ctrl == 'return':
                    outs.append((val if val is not None else SNone(), s))
                elif ctrl == 'next':
                    outs.append((SNone(), s))
                else:
                    raise Unsupported('control %s leaving a function' % ctrl)
            return outs
        finally:
            self.depth -= 1

    def cur_contract_for_inline(self, qualname):
        return self.cur_contract

    def call_lambda(self, fv, args, kwargs, st):
        node, closure = fv.a
        names = [x.arg for x in node.args.args]
        s0 = st.copy()
        saved = s0.locals
        s0.locals = dict(closure)
        for n, v in zip(names, args):
            s0.locals[n] = v
        outs = []
        for v, s in self.ev(node.body, s0):
            s.locals = dict(saved)
            outs.append((v, s))
        return outs

    def apply_contract(self, con, bound, st, node=None):
        """modular call: assert requires, havoc modifies, assume ensures (normal and exceptional)"""
        self.called.add(con.qualname)
        if self.hooks is not None and hasattr(self.hooks, 'on_contract_call'):
            st = st.copy()
            self.hooks.on_contract_call(self, con, bound, st, node)
        c0 = Ctx(self, st, st, bound)
        for label, b in con.requires(c0):
            self.oblige('pre-call', '%s: requires %s' % (con.qualname, label), st, b, node)
        outs = []
        mods = con.modifies(c0) if con.modifies else None
        if con.generator:
            return self.apply_generator_contract(con, bound, st, mods, node)

        def havoc(tag):
            s = st.copy()
            keys = list(s.heap.keys()) if mods is None else [k for k in mods]
            for key in keys:
                cname, field = key
                cls = self.classes_by_name[cname]
                s.heap[key] = z3.Const(s.fresh.name('H_%s_%s_%s' % (cname, field, tag)),
                                       z3.ArraySort(z3.IntSort(), cls.field_sort(field)))
            na = self.fresh(s, 'alloc', z3.IntSort())
            s = s.assume(na >= st.alloc)
            s.alloc = na
            for g in getattr(con, 'ghost_mod', []) or []:
                if g in s.ghost:
                    s.ghost[g] = self.fresh(s, 'g_' + g, s.ghost[g].sort())
            return s
        for exc, postfn in con.raises.items():
            s = havoc(exc)
            c = Ctx(self, s, st, bound, exc=exc)
            posts = postfn(c)
            s = s.assume(z3.And(*[b for _, b in posts]) if posts else z3.BoolVal(True))
            if self.feasible(s.pc):
                s.note('%s raises %s' % (con.qualname, exc))
                outs.append((SExc(exc), s))
        s = havoc('ret')
        res = con.returns(Ctx(self, s, st, bound)) if con.returns else SNone()
        c = Ctx(self, s, st, bound, result=res)
        posts = con.ensures(c)
        s = s.assume(z3.And(*[b for _, b in posts]) if posts else z3.BoolVal(True))
        if con.facts is not None:
            fs = con.facts(Ctx(self, s, s, bound))
            s = s.assume(z3.And(*[b for _, b in fs]) if fs else z3.BoolVal(True))
        if self.feasible(s.pc):
            outs.append((res, s))
        if not outs:
            # the caller's path is satisfiable and the callee's precondition is an obligation: a call with NO feasible
            # outcome means the contract contradicts itself at this call site (e.g. a postcondition written for a result the
            # contract does not declare) - silently dropping the path would make everything after the call "proved"
            raise Unsupported('call of %s by contract has no feasible outcome (contradictory contract at this call site)' % con.qualname)
        return outs

    def apply_generator_contract(self, con, bound, st, mods, node):
        """a call of a generator function under contract, consumed in full by the caller (for-loop / list()): the items are
        those its postcondition describes.  Sound for generators that do not modify the objects the caller works on (checked:
        the callee's modifies list may only name classes private to the callee) and whose consumer does not modify what the
        generator reads (the consumer's own frame obligations say so)."""
        if con.raises:
            raise Unsupported('generator %s with exceptional postconditions called by contract' % con.qualname)
        scratch = State()
        scratch.fresh = st.fresh
        scratch.alloc = st.alloc
        saved_fc, saved_stable = dict(self.field_consts), set(self.stable_lists)
        try:            # the callee's setup is run on a scratch state only to learn the names and sorts of its ghost variables
            for vv in (con.variants or [None]):        # the union over the variants: which one applies depends on the arguments
                sc = State()
                sc.fresh, sc.alloc = st.fresh, st.alloc
                try:
                    con.setup(self, sc, vv)
                except TypeError:
                    con.setup(self, sc)
                for g, t in sc.ghost.items():
                    scratch.ghost.setdefault(g, t)
        except Exception as e:  # noqa
            raise Unsupported('generator setup of %s: %s' % (con.qualname, e))
        finally:
            self.field_consts, self.stable_lists = saved_fc, saved_stable
        for g, t in (getattr(con, 'extra_ghosts', None) or {}).items():      # ghosts of generator calls the callee makes itself
            scratch.ghost.setdefault(g, t)
        private = [g for g in scratch.ghost if g.startswith('out') or g.startswith('$gen:') or g not in st.ghost]
        s = st.copy()
        for key in (mods or []):
            cname, field = key
            cls = self.classes_by_name[cname]
            s.heap[key] = z3.Const(s.fresh.name('H_%s_%s_gen' % (cname, field)), z3.ArraySort(z3.IntSort(), cls.field_sort(field)))
        saved = {g: s.ghost.get(g) for g in private}
        for g in private:
            s.ghost[g] = self.fresh(s, 'gen_' + g.strip('$'), scratch.ghost[g].sort())
        c = Ctx(self, s, st, bound)
        posts = con.ensures(c)
        s = s.assume(z3.And(*[b for _, b in posts]) if posts else z3.BoolVal(True))
        arrays, tys, k = [], [], 0
        arity = getattr(con, 'yields', None)          # number of components of a yielded item (default: every out_k ghost)
        while 'out_%d' % k in s.ghost and 'out_%d' % k in private and (arity is None or k < arity):
            a = s.ghost['out_%d' % k]
            arrays.append(a)
            rs = a.sort().range()
            tys.append(VAL if rs == Val else INT if rs == z3.IntSort() else REAL if rs == z3.RealSort() else None)
            k += 1
        if not arrays or any(t is None for t in tys):
            raise Unsupported('generator %s: yielded components of an unsupported sort' % con.qualname)
        gen = SGen(s.ghost['out_n'], arrays, tys, con.qualname)
        # the callee's ghosts stay readable by the caller's contract under a qualified name; the caller's own are restored
        for g in private:
            s.ghost['$gen:%s:%s' % (con.qualname.split('.')[-1], g)] = s.ghost[g]
            if saved[g] is None:
                del s.ghost[g]
            else:
                s.ghost[g] = saved[g]
        s = s.assume(gen.n >= 0)
        return [(gen, s)]

    def call_opaque(self, fv, args, kwargs, st, node=None):
        """an unknown callable (on_miss, key function): returns an arbitrary value as a function of its
        arguments; assumed not to touch the objects under verification; may raise (if enabled)."""
        self.assumptions.add('opaque callables (on_miss etc.) are deterministic in their arguments and do not touch the object under verification')
        if len(args) == 1 and isinstance(args[0], SVal):
            res = SVal(self.f_opaque_call(fv.a[0], args[0].t))
        else:
            res = SVal(self.fresh(st, 'opq', Val))
        outs = [(res, st)]
        if self.opaque_may_raise:
            s2 = st.copy()
            s2.note('opaque callee raises')
            outs.append((SExc('AnyException'), s2))
        return outs

    def call_class(self, cv, args, kwargs, st, node):
        n = cv.name
        if exc_isa(n, 'BaseException') or n in self.exc_classes:
            return [(SExc(n, args[0] if args else None), st)]
        dc, _ini = self.src.resolve_method(n, '__init__')
        iname = '%s.__init__' % (dc or n)
        con = self.contracts.get(iname) or self.contracts.get(n)
        if con is not None and con.inline:
            cls = self.classes.get(n)
            if cls is None:
                raise Inapplicable('class %s' % n)
            s0 = st.copy()
            obj = self.new_ref(s0, cls)
            s0.held['fresh'] = tuple(s0.held.get('fresh', ())) + (str(z3.simplify(obj.t)),)
            outs = []
            for v, s in self.call_user(iname, obj, args, kwargs, s0, node):
                outs.append((v if is_exc(v) else obj, s))
            return outs
        if con is not None:
            fnode = self.src.func(n + '.__init__')
            cls = self.classes.get(n)
            if cls is None or fnode is None:
                raise Inapplicable('class %s' % n)
            obj = self.new_ref(st, cls)
            bound = self.bind_args(fnode, obj, args, kwargs, st)
            outs = []
            for v, s in self.apply_contract(con, bound, st, node):
                outs.append((v if is_exc(v) else obj, s))
            return outs
        raise Unsupported('constructor %s' % n)

    def call_external(self, name, args, kwargs, st, node):
        h = self.externals.get(name)
        if h is None:
            raise Unsupported('external call %s' % name)
        return h(self, args, kwargs, st, node)

    # ---- builtins ---------------------------------------------------------------------------------
    def call_builtin(self, name, args, kwargs, st, node=None):
        m = getattr(self, 'bi_' + name, None)
        if m is None:
            raise Unsupported('builtin %s' % name)
        return m(args, kwargs, st, node)

    def bi_len(self, args, kwargs, st, node):
        v = args[0]
        if isinstance(v, SRef):
            cls = v.cls
            if cls.pyclass and self.has_method(cls, '__len__'):
                return self.call_method(v, '__len__', [], {}, st, node)
            if cls.has_dict() or cls.kind == 'set':
                self.on_field_access(st, v, 'size', 'read', node)
                return [(SInt(self.hload(st, v, 'size')), st)]
            if cls.kind == 'list':
                return [(SInt(self.hload(st, v, 'len')), st)]
            if cls.ncells is not None:
                return [(SInt(cls.ncells), st)]
        if isinstance(v, STuple):
            return [(SInt(len(v.items)), st)]
        if isinstance(v, SLit):
            return [(SInt(len(v.items)), st)]
        if isinstance(v, SStr):
            return [(SInt(z3.Length(v.t)), st)]
        if isinstance(v, SSeq):
            return [(SInt(v.n), st)]
        if isinstance(v, SVal):
            h = self.externals.get('opaque.__len__')
            if h:
                return h(self, [v], {}, st, node)
        raise Unsupported('len of %r' % (v,))

    def bi_sum(self, args, kwargs, st, node):
        v = args[0]
        if isinstance(v, SRef) and v.cls.ncells is not None:
            t = None
            for i in range(v.cls.ncells):
                x = self.wrap(v.cls.fields[str(i)], self.hload(st, v, str(i)))
                if not isinstance(x, SInt):
                    raise Unsupported('sum of non-int cell')
                t = x.t if t is None else t + x.t
            return [(SInt(t), st)]
        if isinstance(v, (STuple, SLit)):
            t = z3.IntVal(0)
            for x in v.items:
                if not isinstance(x, SInt):
                    raise Unsupported('sum of non-int')
                t = t + x.t
            return [(SInt(t), st)]
        if isinstance(v, SFunc) and v.how == 'intcomp':
            # the sum of an integer term over the keys of a dict: an uninterpreted function of the (pointwise) term
            self.trusted.add('sum over a dict view: a function of the per-key terms only (every key visited exactly once); '
                             'no arithmetic facts about the sum are used')
            return [(SInt(self.f_keysum(v.a[0])), st)]
        raise Unsupported('sum of %r' % (v,))

    def bi_min(self, args, kwargs, st, node):
        return self._minmax(args, st, True)

    def bi_max(self, args, kwargs, st, node):
        return self._minmax(args, st, False)

    def _minmax(self, args, st, is_min):
        if len(args) == 1 and isinstance(args[0], (STuple, SLit)):
            args = args[0].items
        if len(args) < 2:
            raise Unsupported('min/max of one argument')
        cur = args[0]
        for nxt in args[1:]:
            kind, at, bt = self.num_pair(cur, nxt)
            if not kind:
                raise Unsupported('min/max of %r' % (args,))
            # Python returns the first operand on ties
            cond = (bt < at) if is_min else (bt > at)
            cur = (SInt if kind == 'int' else SReal)(z3.If(cond, bt, at))
        return [(cur, st)]

    def bi_abs(self, args, kwargs, st, node):
        v = args[0]
        if isinstance(v, SInt):
            return [(SInt(z3.If(v.t < 0, -v.t, v.t)), st)]
        if isinstance(v, SReal):
            return [(SReal(z3.If(v.t < 0, -v.t, v.t)), st)]
        raise Unsupported('abs')

    def bi_float(self, args, kwargs, st, node):
        v = args[0]
        self.assumptions.add('float arithmetic is treated as exact real arithmetic')
        if isinstance(v, SReal):
            return [(v, st)]
        if isinstance(v, SInt):
            return [(SReal(z3.ToReal(v.t)), st)]
        if isinstance(v, SBool):
            return [(SReal(z3.If(v.t, z3.RealVal(1), z3.RealVal(0))), st)]
        raise Unsupported('float of %r' % (v,))

    def bi_int(self, args, kwargs, st, node):
        v = args[0]
        if isinstance(v, SInt):
            return [(v, st)]
        if isinstance(v, SReal):
            # truncation toward zero
            t = z3.If(v.t >= 0, z3.ToInt(v.t), -z3.ToInt(-v.t))
            return [(SInt(t), st)]
        raise Unsupported('int of %r' % (v,))

    def bi_bool(self, args, kwargs, st, node):
        return [(SBool(self.truth(st, args[0])), st)]

    def bi_callable(self, args, kwargs, st, node):
        v = args[0]
        if isinstance(v, SFunc):
            if v.how == 'opaque':
                return [(SBool(z3.And(v.a[0] != NONE, self.f_callable(v.a[0]))), st)]
            return [(SBool(True), st)]
        if isinstance(v, SNone):
            return [(SBool(False), st)]
        if isinstance(v, SVal):
            return [(SBool(z3.And(v.t != NONE, self.f_callable(v.t))), st)]
        return [(SBool(False), st)]

    def bi_isinstance(self, args, kwargs, st, node):
        v, c = args
        def cname(x):
            if isinstance(x, SClass):
                return x.name
            if isinstance(x, SFunc) and x.how in ('builtin', 'extfunc'):
                return x.a[0]
            return None
        names = [cname(x) for x in c.items] if isinstance(c, STuple) else [cname(c)]
        if any(n is None for n in names):
            names = None
        if names is None:
            raise Unsupported('isinstance against %r' % (c,))
        h = self.externals.get('isinstance')
        if h:
            r = h(self, [v, names], {}, st, node)
            if r is not None:
                return r
        if isinstance(v, SRef) and v.cls.pyclass:
            anc = set()
            todo = [v.cls.pyclass]
            while todo:
                x = todo.pop()
                if x not in anc:
                    anc.add(x)
                    todo.extend(self.src.bases(x))
            return [(SBool(any(n in anc for n in names)), st)]
        if isinstance(v, SInt):
            return [(SBool('int' in names), st)]
        if isinstance(v, SStr):
            return [(SBool('str' in names or 'bytes' in names), st)]
        raise Unsupported('isinstance(%r, %r)' % (v, names))

    def bi_getattr(self, args, kwargs, st, node):
        obj, name = args[0], args[1]
        if not isinstance(name, SStr) or not z3.is_string_value(name.t):
            raise Unsupported('getattr with a computed name')
        attr = name.t.as_string()
        h = self.externals.get('getattr')
        if h:
            r = h(self, [obj, attr] + list(args[2:]), {}, st, node)
            if r is not None:
                return r
        if isinstance(obj, SRef):
            if attr in obj.cls.fields or self.has_method(obj.cls, attr):
                return self.load_attr(obj, attr, st, node)
            if len(args) > 2:
                return [(args[2], st)]
            return [(SExc('AttributeError'), st)]
        raise Unsupported('getattr(%r, %s)' % (obj, attr))

    def bi_range(self, args, kwargs, st, node):
        a = [x for x in args]
        if not all(isinstance(x, SInt) for x in a):
            raise Unsupported('range of non-ints')
        if len(a) == 1:
            lo, hi, step = z3.IntVal(0), a[0].t, z3.IntVal(1)
        elif len(a) == 2:
            lo, hi, step = a[0].t, a[1].t, z3.IntVal(1)
        else:
            lo, hi, step = a[0].t, a[1].t, a[2].t
        return [(SFunc('range', lo, hi, step), st)]

    def bi_list(self, args, kwargs, st, node):
        if not args:
            return [(SLit('list', []), st)]
        v = args[0]
        if isinstance(v, (STuple, SLit)):
            return [(SLit('list', list(v.items)), st)]
        if isinstance(v, SGen) and getattr(self, 'list_class', None) is not None and len(v.arrays) == 1 \
                and self.list_class.e.sort() == v.arrays[0].sort().range():
            s = st.copy()                 # list(generator): a fresh list holding the yielded items in order
            r = self.new_ref(s, self.list_class)
            self.hstore(s, r, 'elems', v.arrays[0])
            self.hstore(s, r, 'len', v.n)
            return [(r, s)]
        if isinstance(v, SIterView) and v.what == 'keys' and getattr(self, 'list_class', None) is not None \
                and self.list_class.e.sort() == v.ref.cls.k.sort():
            # list(iter(d)) / list(d.keys()): a fresh list holding every key exactly once (the dict-iteration bijection facts)
            seq = self.as_sequence(v, st)
            s = st.copy()
            for f in seq['facts']:
                s = s.assume(f)
            r = self.new_ref(s, self.list_class)
            self.hstore(s, r, 'elems', seq['keys'])
            self.hstore(s, r, 'len', seq['n'])
            return [(r, s)]
        plc = getattr(self, 'pair_list_class', None)
        if isinstance(v, SGen) and plc is not None and len(v.arrays) == 2:
            # list(generator of pairs): a fresh list of n fresh 2-cell records (a block of n new addresses), record j = item j
            pc = plc.e.arg
            s = st.copy()
            r = self.new_ref(s, plc)
            base = s.alloc
            s.alloc = s.alloc + v.n
            j = z3.Int(s.fresh.name('jp'))
            q = z3.Int(s.fresh.name('qp'))
            self.hstore(s, r, 'elems', z3.Lambda([j], base + j))
            self.hstore(s, r, 'len', v.n)
            for k in (0, 1):
                key = (pc.name, str(k))
                old = self.heap_arr(s, pc, str(k))
                s.heap[key] = z3.Lambda([q], z3.If(z3.And(q >= base, q < base + v.n), z3.Select(v.arrays[k], q - base), z3.Select(old, q)))
            return [(r, s)]
        if isinstance(v, SVal):      # list(opaque iterable): a real list - every traversal sees the same items
            c = self.fresh(st, 'opaque_list', Val)
            self.stable_lists.add(c.get_id())
            return [(SVal(c), st)]
        raise Unsupported('list(%r)' % (v,))

    def bi_super(self, args, kwargs, st, node):
        if args or 'self' not in st.locals:
            raise Unsupported('super(...) with arguments')
        return [(SFunc('superobj', st.locals['self']), st)]

    def bi_type(self, args, kwargs, st, node):
        v = args[0]
        if isinstance(v, SRef) and v.cls.pyclass:
            return [(SClass(v.cls.pyclass), st)]
        return [(SClass('object'), st)]

    def bi_issubclass(self, args, kwargs, st, node):
        a, b = args
        if isinstance(a, SClass) and isinstance(b, SClass):
            return [(SBool(exc_isa(a.name, b.name)), st)]
        # an opaque class (e.g. the exc_type handed to __exit__) may or may not be a subclass
        return [(SBool(self.fresh(st, 'issubclass', z3.BoolSort())), st)]

    def bi_hasattr(self, args, kwargs, st, node):
        obj = args[0]
        if isinstance(obj, SVal):
            return [(SBool(self.fresh(st, 'hasattr', z3.BoolSort())), st)]
        raise Unsupported('hasattr(%r)' % (obj,))

    def bi_iter(self, args, kwargs, st, node):
        if isinstance(args[0], SRef) and args[0].cls.kind == 'dict':
            return [(SIterView('keys', args[0]), st)]       # iter(d): the keys of d (only consumed by loops and list())
        if isinstance(args[0], SVal):
            return [(SVal(self.fresh(st, 'opaque_iter', Val)), st)]
        raise Unsupported('iter(%r)' % (args[0],))

    def bi_hash(self, args, kwargs, st, node):
        self.assumptions.add('opaque values are hashable (hash() neither raises nor has side effects)')
        return [(SInt(self.fresh(st, 'hash', z3.IntSort())), st)]

    def bi_next(self, args, kwargs, st, node):
        h = self.externals.get('next')
        if h:
            r = h(self, args, kwargs, st, node)
            if r is not None:
                return r
        raise Unsupported('next(%r)' % (args[0],))

    def bi_print(self, args, kwargs, st, node):
        return [(SNone(), st)]

    # ---- container methods by assumed contract -------------------------------------------------------------
    def call_container_method(self, recv, name, args, kwargs, st, node=None, dictpart=False):
        if not isinstance(recv, SRef):
            raise Unsupported('container method %s on %r' % (name, recv))
        cls = recv.cls
        if cls.has_dict():
            m = getattr(self, 'dm_' + name.strip('_'), None)
            if m is not None:
                self.trusted.add('builtin dict.%s' % name)
                return m(recv, args, kwargs, st, node)
        if cls.kind == 'set':
            m = getattr(self, 'sm_' + name.strip('_'), None)
            if m is not None:
                self.trusted.add('builtin set.%s' % name)
                return m(recv, args, kwargs, st, node)
        if cls.kind == 'list':
            m = getattr(self, 'lm_' + name.strip('_'), None)
            if m is not None:
                self.trusted.add('builtin list.%s' % name)
                return m(recv, args, kwargs, st, node)
        raise Unsupported('method %s of %s' % (name, cls.name))

    def dm_setitem(self, d, args, kwargs, st, node):
        cls = d.cls
        s = st.copy()
        k = self.coerce(s, args[0], cls.k)
        v = self.coerce(s, args[1], cls.v)
        self.on_field_access(s, d, 'val', 'write', node)
        dom = self.hload(s, d, 'dom')
        size = self.hload(s, d, 'size')
        self.hstore(s, d, 'size', z3.If(z3.Select(dom, k), size, size + 1))
        self.hstore(s, d, 'dom', z3.Store(dom, k, z3.BoolVal(True)))
        self.hstore(s, d, 'val', z3.Store(self.hload(s, d, 'val'), k, v))
        self.on_dict_write(s, d, k)
        return [(SNone(), s)]

    def dm_delitem(self, d, args, kwargs, st, node):
        cls = d.cls
        k = self.coerce(st, args[0], cls.k)
        self.on_field_access(st, d, 'val', 'write', node)
        out = []
        for side, s in self.fork(st, z3.Select(self.hload(st, d, 'dom'), k), 'in'):
            if side:
                s = s.copy()
                self.hstore(s, d, 'dom', z3.Store(self.hload(s, d, 'dom'), k, z3.BoolVal(False)))
                self.hstore(s, d, 'size', self.hload(s, d, 'size') - 1)
                out.append((SNone(), s))
            else:
                out.append((SExc('KeyError', args[0]), s))
        return out

    def dm_getitem(self, d, args, kwargs, st, node):
        return self.dict_getitem(d, args[0], st, node)

    def dm_contains(self, d, args, kwargs, st, node):
        self.on_field_access(st, d, 'dom', 'read', node)
        return [(SBool(z3.Select(self.hload(st, d, 'dom'), self.coerce(st, args[0], d.cls.k))), st)]

    def dm_len(self, d, args, kwargs, st, node):
        self.on_field_access(st, d, 'size', 'read', node)
        return [(SInt(self.hload(st, d, 'size')), st)]

    def dm_pop(self, d, args, kwargs, st, node):
        cls = d.cls
        k = self.coerce(st, args[0], cls.k)
        self.on_field_access(st, d, 'val', 'write', node)
        out = []
        for side, s in self.fork(st, z3.Select(self.hload(st, d, 'dom'), k), 'in'):
            if side:
                s = s.copy()
                v = self.wrap(cls.v, z3.Select(self.hload(s, d, 'val'), k))
                self.hstore(s, d, 'dom', z3.Store(self.hload(s, d, 'dom'), k, z3.BoolVal(False)))
                self.hstore(s, d, 'size', self.hload(s, d, 'size') - 1)
                out.append((v, s))
            elif len(args) > 1:
                out.append((args[1], s))
            else:
                out.append((SExc('KeyError', args[0]), s))
        return out

    def dm_get(self, d, args, kwargs, st, node):
        cls = d.cls
        k = self.coerce(st, args[0], cls.k)
        self.on_field_access(st, d, 'val', 'read', node)
        out = []
        for side, s in self.fork(st, z3.Select(self.hload(st, d, 'dom'), k), 'in'):
            if side:
                out.append((self.wrap(cls.v, z3.Select(self.hload(s, d, 'val'), k)), s))
            else:
                out.append((args[1] if len(args) > 1 else SNone(), s))
        return out

    def dm_setdefault(self, d, args, kwargs, st, node):
        cls = d.cls
        s0 = st.copy()
        k = self.coerce(s0, args[0], cls.k)
        dflt = self.coerce(s0, args[1] if len(args) > 1 else SNone(), cls.v)      # the default is evaluated (allocated) first
        self.on_field_access(s0, d, 'val', 'write', node)
        out = []
        for side, s in self.fork(s0, z3.Select(self.hload(s0, d, 'dom'), k), 'in'):
            if side:
                out.append((self.wrap(cls.v, z3.Select(self.hload(s, d, 'val'), k)), s))
            else:
                s = s.copy()
                self.hstore(s, d, 'size', self.hload(s, d, 'size') + 1)
                self.hstore(s, d, 'dom', z3.Store(self.hload(s, d, 'dom'), k, z3.BoolVal(True)))
                self.hstore(s, d, 'val', z3.Store(self.hload(s, d, 'val'), k, dflt))
                out.append((self.wrap(cls.v, dflt), s))
        return out

    def dm_clear(self, d, args, kwargs, st, node):
        s = st.copy()
        self.on_field_access(s, d, 'val', 'write', node)
        self.hstore(s, d, 'dom', z3.K(d.cls.k.sort(), z3.BoolVal(False)))
        self.hstore(s, d, 'size', z3.IntVal(0))
        return [(SNone(), s)]

    def dm_popitem(self, d, args, kwargs, st, node):
        cls = d.cls
        self.on_field_access(st, d, 'val', 'write', node)
        out = []
        for side, s in self.fork(st, self.hload(st, d, 'size') > 0, 'nonempty'):
            if side:
                s = s.copy()
                k = self.fresh(s, 'popped', cls.k.sort())
                s = s.assume(z3.Select(self.hload(s, d, 'dom'), k))
                v = self.wrap(cls.v, z3.Select(self.hload(s, d, 'val'), k))
                self.hstore(s, d, 'dom', z3.Store(self.hload(s, d, 'dom'), k, z3.BoolVal(False)))
                self.hstore(s, d, 'size', self.hload(s, d, 'size') - 1)
                out.append((STuple([self.wrap(cls.k, k), v]), s))
            else:
                out.append((SExc('KeyError'), s))
        return out

    def dm_items(self, d, args, kwargs, st, node):
        self.on_field_access(st, d, 'dom', 'read', node)
        return [(SIterView('items', d), st)]

    def dm_keys(self, d, args, kwargs, st, node):
        self.on_field_access(st, d, 'dom', 'read', node)
        return [(SIterView('keys', d), st)]

    def dm_values(self, d, args, kwargs, st, node):
        return [(SIterView('values', d), st)]

    def dm_eq(self, d, args, kwargs, st, node):
        o = args[0]
        self.on_field_access(st, d, 'val', 'read', node)
        if isinstance(o, SVal):
            return [(SBool(self.fresh(st, 'opaque_eq', z3.BoolSort())), st)]
        if not (isinstance(o, SRef) and o.cls.has_dict()):
            raise Unsupported('dict == %r' % (o,))
        k = z3.Const(st.fresh.name('k'), d.cls.k.sort())
        dd, od = self.hload(st, d, 'dom'), self.hload(st, o, 'dom')
        dv, ov = self.hload(st, d, 'val'), self.hload(st, o, 'val')
        e = z3.ForAll([k], z3.And(z3.Select(dd, k) == z3.Select(od, k),
                                  z3.Implies(z3.Select(dd, k), z3.Select(dv, k) == z3.Select(ov, k))))
        return [(SBool(e), st)]

    def dm_ne(self, d, args, kwargs, st, node):
        return [(SBool(z3.Not(v.t)), s) for v, s in self.dm_eq(d, args, kwargs, st, node)]

    # sets
    def sm_add(self, d, args, kwargs, st, node):
        s = st.copy()
        k = self.coerce(s, args[0], d.cls.k)
        dom, size = self.hload(s, d, 'dom'), self.hload(s, d, 'size')
        self.hstore(s, d, 'size', z3.If(z3.Select(dom, k), size, size + 1))
        self.hstore(s, d, 'dom', z3.Store(dom, k, z3.BoolVal(True)))
        return [(SNone(), s)]

    def sm_remove(self, d, args, kwargs, st, node):
        k = self.coerce(st, args[0], d.cls.k)
        out = []
        for side, s in self.fork(st, z3.Select(self.hload(st, d, 'dom'), k), 'member'):
            if side:
                s = s.copy()
                self.hstore(s, d, 'dom', z3.Store(self.hload(s, d, 'dom'), k, z3.BoolVal(False)))
                self.hstore(s, d, 'size', self.hload(s, d, 'size') - 1)
                # fact true of every real set, restated for the new state: len >= 0, and len == 0 iff no member
                xq = z3.Const(s.fresh.name('xs'), d.cls.k.sort())
                nd, ns = self.hload(s, d, 'dom'), self.hload(s, d, 'size')
                s = s.assume(z3.And(ns >= 0, (ns == 0) == z3.ForAll([xq], z3.Not(z3.Select(nd, xq)))))
                self.trusted.add('builtin set: len(s) >= 0 and len(s) == 0 iff s has no member')
                out.append((SNone(), s))
            else:
                out.append((SExc('KeyError', args[0]), s))
        return out

    def sm_update(self, d, args, kwargs, st, node):
        """s.update(t) for another set object t of the same element type: pointwise union; the new length is only known
        through the facts true of every real set"""
        if len(args) != 1 or not (isinstance(args[0], SRef) and args[0].cls.kind == 'set' and args[0].cls.k == d.cls.k):
            raise Unsupported('set.update with %r' % (args,))
        o = args[0]
        s = st.copy()
        dom, size = self.hload(s, d, 'dom'), self.hload(s, d, 'size')
        odom, osize = self.hload(s, o, 'dom'), self.hload(s, o, 'size')
        x = z3.Const(s.fresh.name('xu'), d.cls.k.sort())
        nd = z3.Lambda([x], z3.Or(z3.Select(dom, x), z3.Select(odom, x)))
        ns = self.fresh(s, 'union_size', z3.IntSort())
        self.hstore(s, d, 'dom', nd)
        self.hstore(s, d, 'size', ns)
        xq = z3.Const(s.fresh.name('xs'), d.cls.k.sort())
        s = s.assume(z3.And(ns >= size, ns >= osize, ns <= size + osize, ns >= 0,
                            (ns == 0) == z3.ForAll([xq], z3.Not(z3.Select(nd, xq)))))
        self.trusted.add('builtin set: len(s) >= 0 and len(s) == 0 iff s has no member; max(len) <= len(s | t) <= len(s) + len(t)')
        return [(SNone(), s)]

    def sm_contains(self, d, args, kwargs, st, node):
        return [(SBool(z3.Select(self.hload(st, d, 'dom'), self.coerce(st, args[0], d.cls.k))), st)]

    def bi_set(self, args, kwargs, st, node):
        if not args:
            return [(SLit('set', []), st)]
        cls = getattr(self, 'set_class', None)
        if len(args) == 1 and isinstance(args[0], SVal) and cls is not None:
            # set(opaque iterable): a fresh set with arbitrary members (the iterable is assumed to be iterable and hashable)
            self.assumptions.add('set(x) of an opaque argument: x is an iterable of hashable items (no TypeError)')
            s = st.copy()
            r = self.new_ref(s, cls)
            self.fresh_set(s, r, self.f_setof(args[0].t) if cls.k.sort() == Val else None)
            return [(r, s)]
        if len(args) == 1 and isinstance(args[0], SRef) and args[0].cls.kind == 'set':
            # set(s) / frozenset(s) of a heap set: a fresh set object with the same members and the same length
            src = args[0]
            s = st.copy()
            dom, n = self.hload(s, src, 'dom'), self.hload(s, src, 'size')
            r = self.new_ref(s, src.cls)
            self.hstore(s, r, 'dom', dom)
            self.hstore(s, r, 'size', n)
            return [(r, s)]
        raise Unsupported('set(iterable)')

    def bi_frozenset(self, args, kwargs, st, node):
        if len(args) == 1 and isinstance(args[0], SRef) and args[0].cls.kind == 'set':
            return self.bi_set(args, kwargs, st, node)       # immutability is not modelled: the copy is only read by contracts
        raise Unsupported('frozenset(%r)' % (args[:1],))

    def fresh_set(self, s, r, dom, upper=None):
        """give set object r the member predicate dom (arbitrary when None) and an unknown length constrained only by the
        facts true of every real set"""
        cls = r.cls
        if dom is None:
            dom = self.fresh(s, 'members', z3.ArraySort(cls.k.sort(), z3.BoolSort()))
        n = self.fresh(s, 'setlen', z3.IntSort())
        self.hstore(s, r, 'dom', dom)
        self.hstore(s, r, 'size', n)
        xq = z3.Const(s.fresh.name('xs'), cls.k.sort())
        fact = z3.And(n >= 0, (n == 0) == z3.ForAll([xq], z3.Not(z3.Select(dom, xq))))
        if upper is not None:
            fact = z3.And(fact, n <= upper)
        s.pc = s.pc + (fact,)
        self.trusted.add('builtin set: len(s) >= 0 and len(s) == 0 iff s has no member')

    def set_difference(self, a, b, st, inplace=False):
        s = st.copy()
        x = z3.Const(s.fresh.name('xd'), a.cls.k.sort())
        adom, bdom = self.hload(s, a, 'dom'), self.hload(s, b, 'dom')
        nd = z3.Lambda([x], z3.And(z3.Select(adom, x), z3.Not(z3.Select(bdom, x))))
        r = a if inplace else self.new_ref(s, a.cls)
        self.fresh_set(s, r, nd, upper=self.hload(st, a, 'size'))
        self.trusted.add('builtin set difference: members of the left operand that are not in the right one')
        return r, s

    # lists
    def lm_append(self, l, args, kwargs, st, node):
        s = st.copy()
        if 'cat' in l.cls.fields:      # ghost: the concatenation of a list of byte strings
            s = s.copy()
            self.hstore(s, l, 'cat', z3.Concat(self.hload(s, l, 'cat'), self.coerce(s, args[0], l.cls.e)))
        n = self.hload(s, l, 'len')
        self.hstore(s, l, 'elems', z3.Store(self.hload(s, l, 'elems'), n, self.coerce(s, args[0], l.cls.e)))
        self.hstore(s, l, 'len', n + 1)
        s = self.apply_hints(s, 'list.append', (l, args[0]))
        return [(SNone(), s)]

    def lm_insert(self, l, args, kwargs, st, node):
        """l.insert(i, x): Python clamps i into [0, len] (negative i counts from the end first)"""
        if 'cat' in l.cls.fields or not isinstance(args[0], SInt):
            raise Unsupported('list.insert')
        s = st.copy()
        n = self.hload(s, l, 'len')
        i = args[0].t
        i = z3.If(i < 0, z3.If(i + n < 0, 0, i + n), z3.If(i > n, n, i))
        old = self.hload(s, l, 'elems')
        x = self.coerce(s, args[1], l.cls.e)
        j = z3.Int(s.fresh.name('ji'))
        self.hstore(s, l, 'elems', z3.Lambda([j], z3.If(j < i, z3.Select(old, j), z3.If(j == i, x, z3.Select(old, j - 1)))))
        self.hstore(s, l, 'len', n + 1)
        return [(SNone(), s)]

    def lm_extend(self, l, args, kwargs, st, node):
        src = args[0]
        if not (isinstance(src, SVal) and src.t.get_id() in self.stable_lists):
            raise Unsupported('list.extend with %r' % (src,))
        s = st.copy()
        n = self.hload(s, l, 'len')
        m = self.f_oseq_len(src.t)
        j = z3.Int(s.fresh.name('je'))
        old = self.hload(s, l, 'elems')
        self.hstore(s, l, 'elems', z3.Lambda([j], z3.If(z3.And(j >= n, j < n + m), self.f_oseq_item(src.t, j - n), z3.Select(old, j))))
        self.hstore(s, l, 'len', n + m)
        return [(SNone(), s.assume(m >= 0))]

    def lm_pop(self, l, args, kwargs, st, node):
        n = self.hload(st, l, 'len')
        out = []
        if not args:
            for side, s in self.fork(st, n > 0, 'nonempty'):
                if side:
                    s = s.copy()
                    v = self.wrap(l.cls.e, z3.Select(self.hload(s, l, 'elems'), n - 1))
                    self.hstore(s, l, 'len', n - 1)
                    s = self.apply_hints(s, 'list.pop', (l, v))
                    out.append((v, s))
                else:
                    out.append((SExc('IndexError'), s))
            return out
        raise Unsupported('list.pop(i)')

    def lm_len(self, l, args, kwargs, st, node):
        return [(SInt(self.hload(st, l, 'len')), st)]

    def lm_getitem(self, l, args, kwargs, st, node):
        return self.list_getitem(l, args[0], st, node)
