"""Symbolic values, types, heap classes and execution state of pyvc."""
import z3

Val = z3.DeclareSort('Val')          # opaque Python values (hashable keys, arbitrary values)
NONE = z3.Const('py_None', Val)      # None seen as an opaque value
NULL = 0                             # address of "no object" (None in a reference-typed slot)


class Unsupported(Exception):
    """construct outside the verified subset: the function is demoted to the bounded stand-in"""


class Inapplicable(Exception):
    """the contract names something (field, local, loop) that the code no longer has"""


# ---------------------------------------------------------------------------------------------
# types

class Ty:
    def __init__(self, kind, arg=None):
        self.kind = kind
        self.arg = arg

    def __repr__(self):
        return self.kind if self.arg is None else '%s(%s)' % (self.kind, getattr(self.arg, 'name', self.arg))

    def sort(self):
        k = self.kind
        if k == 'int' or k == 'ref':
            return z3.IntSort()
        if k == 'bool':
            return z3.BoolSort()
        if k == 'real':
            return z3.RealSort()
        if k == 'val':
            return Val
        if k == 'str':
            return z3.StringSort()
        raise Unsupported('no sort for type %r' % self)


INT = Ty('int')
BOOL = Ty('bool')
REAL = Ty('real')
VAL = Ty('val')
STR = Ty('str')


def REF(cls):
    return Ty('ref', cls)


class HeapClass:
    """a family of heap objects with the same layout, addressed by integer references.

    kind 'record': named fields (also fixed-length cell lists: fields '0','1',...)
    kind 'dict'  : dom: K->Bool, val: K->V, size            (iteration order not modelled)
    kind 'list'  : elems: Int->E, len
    kind 'set'   : dom: K->Bool, size
    A record may carry a dict part (class X(dict)): dict_k/dict_v set, fields dom/val/size added.
    """

    def __init__(self, name, kind='record', fields=None, k=None, v=None, e=None, pyclass=None,
                 dict_k=None, dict_v=None, ncells=None):
        self.name = name
        self.kind = kind
        self.pyclass = pyclass
        self.k, self.v, self.e = k, v, e
        self.ncells = ncells
        self.fields = dict(fields or {})
        self.dict_k, self.dict_v = dict_k, dict_v
        if kind == 'dict':
            self.fields.update(dom=('map', k, BOOL), val=('map', k, v), size=INT)
        elif kind == 'set':
            self.fields.update(dom=('map', k, BOOL), size=INT)
        elif kind == 'list':
            self.fields.update(elems=('map', INT, e), len=INT)
        if dict_k is not None:
            self.k, self.v = dict_k, dict_v
            self.fields.update(dom=('map', dict_k, BOOL), val=('map', dict_k, dict_v), size=INT)

    def has_dict(self):
        return self.kind == 'dict' or self.dict_k is not None

    def field_sort(self, f):
        t = self.fields[f]
        if isinstance(t, tuple):
            return z3.ArraySort(t[1].sort(), t[2].sort())
        return t.sort()

    def __repr__(self):
        return 'HeapClass(%s)' % self.name


# ---------------------------------------------------------------------------------------------
# symbolic values

class SV:
    pass


class SInt(SV):
    def __init__(self, t):
        self.t = z3.IntVal(t) if isinstance(t, int) else t

    def __repr__(self):
        return 'SInt(%s)' % self.t


class SBool(SV):
    def __init__(self, t):
        self.t = z3.BoolVal(t) if isinstance(t, bool) else t

    def __repr__(self):
        return 'SBool(%s)' % self.t


class SReal(SV):
    def __init__(self, t):
        self.t = z3.RealVal(t) if isinstance(t, (int, float)) else t

    def __repr__(self):
        return 'SReal(%s)' % self.t


class SVal(SV):
    def __init__(self, t):
        self.t = t

    def __repr__(self):
        return 'SVal(%s)' % self.t


class SStr(SV):
    def __init__(self, t):
        self.t = z3.StringVal(t) if isinstance(t, str) else t

    def __repr__(self):
        return 'SStr(%s)' % self.t


class SNone(SV):
    def __repr__(self):
        return 'SNone'


class SRef(SV):
    def __init__(self, cls, t):
        self.cls = cls
        self.t = z3.IntVal(t) if isinstance(t, int) else t

    def __repr__(self):
        return 'SRef(%s,%s)' % (self.cls.name, self.t)


class STuple(SV):
    def __init__(self, items):
        self.items = list(items)

    def __repr__(self):
        return 'STuple(%r)' % (self.items,)


class SLit(SV):
    """an unallocated list/dict/set display; allocated when it meets a reference type"""

    def __init__(self, kind, items):
        self.kind = kind
        self.items = items


class SFunc(SV):
    """a callable known to the executor: ('method', recv, name) | ('global', name) | ('builtin', name)
    | ('supermethod', recv, name) | ('lambda', node, closure) | ('opaque', z3 Val term)"""

    def __init__(self, how, *a):
        self.how = how
        self.a = a

    def __repr__(self):
        return 'SFunc(%s,%r)' % (self.how, self.a[-1] if self.a else None)


class SClass(SV):
    """a class object (exception classes, self.__class__, dict, ...)"""

    def __init__(self, name):
        self.name = name

    def __repr__(self):
        return 'SClass(%s)' % self.name


class SExc(SV):
    def __init__(self, cls, payload=None):
        self.cls = cls
        self.payload = payload

    def __repr__(self):
        return 'SExc(%s)' % self.cls


class SSeq(SV):
    """an immutable symbolic sequence (tuple/range/arg list) given as (array, length)"""

    def __init__(self, ety, arr, n):
        self.ety, self.arr, self.n = ety, arr, n


class SGen(SV):
    """the items a generator function under contract yields, as stated by its postcondition: n items, component k of item
    j is arrays[k][j] (only consumed by for-loops and list())"""

    def __init__(self, n, arrays, tys, qualname):
        self.n, self.arrays, self.tys, self.qualname = n, arrays, tys, qualname


class SIterView(SV):
    """d.items()/d.keys()/d.values() of a heap dict (only consumed by comprehensions/loops)"""

    def __init__(self, what, ref):
        self.what = what
        self.ref = ref


EXC_PARENTS = {
    'KeyError': 'LookupError', 'IndexError': 'LookupError', 'LookupError': 'Exception',
    'ValueError': 'Exception', 'TypeError': 'Exception', 'AttributeError': 'Exception',
    'StopIteration': 'Exception', 'RuntimeError': 'Exception', 'NotImplementedError': 'RuntimeError',
    'OSError': 'Exception', 'IOError': 'Exception', 'FileExistsError': 'OSError',
    'FileNotFoundError': 'OSError', 'timeout': 'OSError', 'socket.timeout': 'OSError',
    'socket.error': 'Exception', 'error': 'Exception',
    'AnyException': 'Exception',       # exception of unknown class raised by an opaque callee
    'Exception': 'BaseException', 'KeyboardInterrupt': 'BaseException',
    'ZeroDivisionError': 'ArithmeticError', 'ArithmeticError': 'Exception',
    'Timeout': 'Error', 'ConnectionClosed': 'Error', 'MessageTooLong': 'Error', 'Error': 'OSError',
    'FrozenHashError': 'TypeError', 'AssertionError': 'Exception',
}


def exc_isa(name, handler):
    while name is not None:
        if name == handler:
            return True
        name = EXC_PARENTS.get(name)
    return False


# ---------------------------------------------------------------------------------------------
# state

class State:
    __slots__ = ('pc', 'heap', 'locals', 'alloc', 'ghost', 'out', 'held', 'events', 'trace', 'fresh')

    def __init__(self):
        self.pc = ()
        self.heap = {}
        self.locals = {}
        self.alloc = None
        self.ghost = {}
        self.out = []
        self.held = {}
        self.events = ()
        self.trace = ()
        self.fresh = None

    def copy(self):
        s = State()
        s.pc = self.pc
        s.heap = dict(self.heap)
        s.locals = dict(self.locals)
        s.alloc = self.alloc
        s.ghost = dict(self.ghost)
        s.out = list(self.out)
        s.held = dict(self.held)
        s.events = self.events
        s.trace = self.trace
        s.fresh = self.fresh
        return s

    def assume(self, b):
        s = self.copy()
        s.pc = self.pc + (b,)
        return s

    def note(self, txt):
        self.trace = self.trace + (txt,)


class Fresh:
    def __init__(self):
        self.n = 0

    def name(self, base):
        self.n += 1
        return '%s!%d' % (base, self.n)

    def const(self, base, sort):
        return z3.Const(self.name(base), sort)
