"""pyvc engine: statements, loops by invariant, verification of one function against its contract."""
import ast
import time

import z3

from . import front, smt
from .values import (SV, SInt, SBool, SReal, SVal, SStr, SNone, SRef, STuple, SLit, SFunc, SClass, SExc,
                     SSeq, SGen, SIterView, Val, NONE, NULL, INT, BOOL, REAL, VAL, STR, Ty, HeapClass,
                     Unsupported, Inapplicable, State, Fresh, exc_isa)
from .contract import Ctx, Contract, Loop
from .exprs import ExprMixin, is_exc
from .calls import CallMixin


def _flatten_and(e):
    if z3.is_and(e):
        out = []
        for ch in e.children():
            out.extend(_flatten_and(ch))
        return out
    return [e]


class PendingObl:
    def __init__(self, kind, label, hyps, goal, trace, inductive=False, line=0):
        self.kind = kind
        self.label = label
        self.hyps = hyps
        self.goal = goal
        self.trace = trace
        self.inductive = inductive
        self.line = line


class Engine(ExprMixin, CallMixin):
    def __init__(self, repo, relpath, classes=None, contracts=None, consts=None, externals=None,
                 exc_classes=(), opaque_may_raise=False, hooks=None):
        self.repo = repo
        self.relpath = relpath
        self.src = front.load(repo, relpath)
        self.classes = classes or {}            # python class name -> HeapClass
        self.classes_by_name = {}
        for c in self.classes.values():
            self.classes_by_name[c.name] = c
        self.contracts = contracts or {}
        self.consts = consts or {}              # global name -> SV
        self.externals = externals or {}
        self.exc_classes = set(exc_classes)
        self.opaque_may_raise = opaque_may_raise
        self.feas_ms = 300
        self.field_consts = {}
        self.hooks = hooks
        self.assumptions = set()
        self.trusted = set()
        self.called = set()
        self.inlined = set()
        self.hyp_labels = {}
        self.f_int2val = z3.Function('int2val', z3.IntSort(), Val)
        self.f_truthy = z3.Function('truthy', Val, z3.BoolSort())
        self.f_callable = z3.Function('is_callable', Val, z3.BoolSort())
        self.f_opaque_call = z3.Function('opaque_call', Val, Val, Val)
        self.f_oseq_len = z3.Function('oseq_len', Val, z3.IntSort())
        self.f_keysum = z3.Function('sum_over_keys', z3.ArraySort(Val, z3.IntSort()), z3.IntSort())
        self.f_setof = z3.Function('set_of', Val, z3.ArraySort(Val, z3.BoolSort()))   # members of set(x) for an opaque iterable x
        self.f_oseq_item = z3.Function('oseq_item', Val, z3.IntSort(), Val)
        self.stable_lists = set()
        self.reset()

    def register_class(self, cls):
        self.classes_by_name[cls.name] = cls

    def reset(self):
        self.pending = []
        self.base_heap = {}
        self.depth = 0
        self.cur_contract = None
        self.comp_target_class = None
        self.visited_lines = set()        # line numbers of every statement reached by the symbolic execution
        self.list_class = None            # HeapClass of the result of list(<generator call>)
        self.pair_list_class = None       # ... for a generator of pairs: a list of references to 2-cell records
        self.set_class = None             # HeapClass of the result of set(opaque iterable)
        self.paths = 0
        self.dropped = []
        self.feas_cache = {}
        self.called = set()
        self.inlined = set()

    # ---- hooks (lock discipline, ghost file system, ...) ---------------------------------------------------------
    def on_field_access(self, st, ref, field, mode, node):
        if self.hooks is not None:
            self.hooks.field_access(self, st, ref, field, mode, node)

    def on_dict_write(self, st, d, k):
        pass

    def called_by_others(self, con):
        """generator contracts are never applied at call sites; everything else may be"""
        return not con.generator

    def apply_hints(self, st, event, data):
        """lemma instances supplied by the contract at an event; each instance is a closed valid formula that is
        proved on its own (obligation kind 'lemma', no hypotheses) and only then assumed on the path"""
        con = self.cur_contract
        hints = getattr(con, 'hints', None) if con is not None else None
        if not hints:
            return st
        c = Ctx(self, st, getattr(self, 'entry_state', st), getattr(self, 'entry_args', {}))
        for item in hints(c, event, data) or []:
            if item[0] == 'ghost':          # ghost assignment
                if self.called_by_others(con) and item[1] not in (getattr(con, 'ghost_mod', []) or []):
                    raise Unsupported('contract error: ghost statement on %s not listed in ghost_mod of %s' % (item[1], con.qualname))
                st = st.copy()
                st.ghost[item[1]] = item[2]
                continue
            if item[0] == 'axiom':          # defining equation of an uninterpreted spec function (trusted, listed)
                self.trusted.add('axiom: ' + item[1])
                st = st.assume(item[2])
                continue
            name, f = item
            self.pending.append(PendingObl('lemma', 'lemma %s' % name, (), f, ()))
            st = st.assume(f)
        return st

    # ---- solver interface ------------------------------------------------------------------------------------------
    def feasible(self, pc):
        # unsat is what matters here (found by instantiation, fast); a quantified `sat` is usually `unknown`
        # after the time limit, and an infeasible path that is kept costs time but never soundness
        return smt.quick_sat(pc, self.feas_ms)

    def oblige(self, kind, label, st, goal, node=None, inductive=False):
        g = z3.simplify(goal) if not isinstance(goal, bool) else z3.BoolVal(goal)
        if z3.is_true(g):
            self.pending.append(PendingObl(kind, label, (), z3.BoolVal(True), st.trace, inductive,
                                           getattr(node, 'lineno', 0)))
            return
        self.pending.append(PendingObl(kind, label, st.pc, goal, st.trace, inductive, getattr(node, 'lineno', 0)))

    # ---- statements ---------------------------------------------------------------------------------------------------
    def exec_block(self, stmts, st):
        """-> list of (ctrl, value, state); ctrl in next/return/raise/break/continue"""
        cur = [st]
        done = []
        for stmt in stmts:
            nxt = []
            for s in cur:
                for ctrl, val, s2 in self.exec_stmt(stmt, s):
                    if ctrl == 'next':
                        nxt.append(s2)
                    else:
                        done.append((ctrl, val, s2))
            cur = nxt
            if len(cur) > 400:
                raise Unsupported('path explosion')
            if not cur:
                break
        return done + [('next', None, s) for s in cur]

    def exec_stmt(self, node, st):
        self.visited_lines.add(node.lineno)
        m = getattr(self, 'st_' + type(node).__name__, None)
        if m is None:
            raise Unsupported('statement %s at line %d' % (type(node).__name__, node.lineno))
        res = m(node, st)
        if not res and not isinstance(node, (ast.For, ast.While)):
            # a statement executed on a (believed) feasible path must have at least one outcome; none at all means a
            # contradiction was assumed somewhere (or the path was infeasible all along): never continue silently
            if self.feasible(st.pc):
                raise Unsupported('statement at line %d has no outcome on a feasible path' % node.lineno)
        return res

    def st_Expr(self, node, st):
        if isinstance(node.value, ast.Constant):
            return [('next', None, st)]
        if isinstance(node.value, (ast.Yield, ast.YieldFrom)):
            return self.do_yield(node.value, st)
        out = []
        for v, s in self.ev(node.value, st):
            out.append(('raise', v, s) if is_exc(v) else ('next', None, s))
        return out

    def st_Pass(self, node, st):
        return [('next', None, st)]

    def st_Return(self, node, st):
        if node.value is None:
            return [('return', None, st)]
        return [(('raise', v, s) if is_exc(v) else ('return', v, s)) for v, s in self.ev(node.value, st)]

    def st_Break(self, node, st):
        return [('break', None, st)]

    def st_Continue(self, node, st):
        return [('continue', None, st)]

    def st_FunctionDef(self, node, st):
        """a nested `def f(x): return <expr>` (positional parameters only, no decorators): a closure, as a lambda"""
        body = [b for b in node.body if not (isinstance(b, ast.Expr) and isinstance(b.value, ast.Constant))]
        a = node.args
        if (len(body) != 1 or not isinstance(body[0], ast.Return) or body[0].value is None or node.decorator_list
                or a.vararg or a.kwarg or a.kwonlyargs or a.defaults or a.posonlyargs):
            raise Unsupported('nested function %s at line %d' % (node.name, node.lineno))
        lam = ast.Lambda(args=a, body=body[0].value)
        ast.copy_location(lam, node)
        s = st.copy()
        s.locals[node.name] = SFunc('lambda', lam, dict(st.locals))
        return [('next', None, s)]

    def st_Raise(self, node, st):
        if node.exc is None:
            e = st.locals.get('$exc')
            if e is None:
                raise Unsupported('bare raise outside handler')
            return [('raise', e, st)]
        out = []
        self._in_raise = isinstance(node.exc, ast.Name)
        try:
            evs = self.ev(node.exc, st)
        finally:
            self._in_raise = False
        for v, s in evs:
            if isinstance(v, SClass):
                v = SExc(v.name)
            if not is_exc(v):
                raise Unsupported('raise of %r' % (v,))
            out.append(('raise', v, s))
        return out

    def st_Assert(self, node, st):
        out = []
        for v, s in self.ev(node.test, st):
            if is_exc(v):
                out.append(('raise', v, s))
                continue
            for side, s2 in self.fork(s, self.truth(s, v)):
                out.append(('next', None, s2) if side else ('raise', SExc('AssertionError'), s2))
        return out

    def st_If(self, node, st):
        out = []
        for v, s in self.ev(node.test, st):
            if is_exc(v):
                out.append(('raise', v, s))
                continue
            for side, s2 in self.fork(s, self.truth(s, v), 'if@%d' % node.lineno):
                out.extend(self.exec_block(node.body if side else node.orelse, s2))
        return out

    def st_Assign(self, node, st):
        out = []
        for v, s in self.ev(node.value, st):
            if is_exc(v):
                out.append(('raise', v, s))
                continue
            states = [s]
            for tgt in node.targets:        # a = b = value: left to right
                nxt = []
                for s1 in states:
                    for ctrl, val, s2 in self.assign(tgt, v, s1):
                        if ctrl == 'next':
                            nxt.append(s2)
                        else:
                            out.append((ctrl, val, s2))
                states = nxt
                # after the first target the (possibly allocated) value must be shared
                if isinstance(v, SLit) and isinstance(tgt, ast.Name) and tgt.id in (states[0].locals if states else {}):
                    v = states[0].locals[tgt.id]
            out.extend(('next', None, s2) for s2 in states)
        return out

    def st_AnnAssign(self, node, st):
        if node.value is None:
            return [('next', None, st)]
        fake = ast.Assign(targets=[node.target], value=node.value, lineno=node.lineno)
        return self.st_Assign(fake, st)

    def assign(self, tgt, v, st):
        """-> list of (ctrl, val, state)"""
        if isinstance(tgt, ast.Name):
            s = st.copy()
            ty = self.cur_contract.local_types.get(tgt.id) if self.cur_contract else None
            if isinstance(v, SLit):
                if ty is None:
                    raise Unsupported('list/dict display bound to untyped local %s (line %d)' % (tgt.id, tgt.lineno))
                if ty.kind == 'val':      # declared opaque: a container whose content the contract does not speak about
                    v = SVal(s.fresh.const('opaque_' + tgt.id, Val))
                else:
                    v = self.alloc_literal(s, v, ty.arg)
            s.locals[tgt.id] = v
            return [('next', None, s)]
        if isinstance(tgt, (ast.Tuple, ast.List)):
            if isinstance(v, STuple) and len(v.items) == len(tgt.elts):
                states = [st]
                for t, x in zip(tgt.elts, v.items):
                    nxt = []
                    for s in states:
                        for ctrl, val, s2 in self.assign(t, x, s):
                            if ctrl != 'next':
                                raise Unsupported('raising unpack')
                            nxt.append(s2)
                    states = nxt
                return [('next', None, s) for s in states]
            if isinstance(v, SRef) and v.cls.ncells == len(tgt.elts):     # unpacking a fixed-length cell list
                items = [self.wrap(v.cls.fields[str(j)], self.hload(st, v, str(j))) for j in range(v.cls.ncells)]
                return self.assign(tgt, STuple(items), st)
            if isinstance(v, SVal):      # unpacking an opaque item
                v = STuple([SVal(st.fresh.const('unpacked', Val)) for _ in tgt.elts])
                return self.assign(tgt, v, st)
            raise Unsupported('unpacking %r' % (v,))
        if isinstance(tgt, ast.Attribute):
            out = []
            for o, s in self.ev(tgt.value, st):
                if is_exc(o):
                    out.append(('raise', o, s))
                    continue
                out.extend(self.store_attr(o, tgt.attr, v, s, tgt))
            return out
        if isinstance(tgt, ast.Subscript):
            if isinstance(tgt.slice, ast.Slice):
                return self.assign_slice(tgt, v, st)
            out = []
            for vals, s in self.ev_seq([tgt.value, tgt.slice], st):
                if is_exc(vals):
                    out.append(('raise', vals, s))
                    continue
                out.extend(self.setitem(vals[0], vals[1], v, s, tgt))
            return out
        raise Unsupported('assignment target %s' % type(tgt).__name__)

    def assign_slice(self, tgt, v, st):
        sl = tgt.slice
        if sl.lower is None and sl.upper is None and sl.step is None and isinstance(v, SLit) and v.kind == 'list':
            o = self.ev1(tgt.value, st)
            if isinstance(o, SRef) and o.cls.ncells is not None and len(v.items) <= o.cls.ncells:
                # (a shorter display leaves the trailing slots of the cell model untouched: the real list is shorter)
                s = st.copy()
                for i, it in enumerate(v.items):
                    self.on_field_access(s, o, str(i), 'write', tgt)
                    self.hstore(s, o, str(i), self.coerce(s, it, o.cls.fields[str(i)]))
                return [('next', None, s)]
            if isinstance(o, SRef) and o.cls.kind == 'list' and o.cls.ncells is None:
                # lst[:] = [a, b, ...] : the same list object now holds exactly the displayed items
                s = st.copy()
                elems = self.hload(s, o, 'elems')
                cat = None
                for i, it in enumerate(v.items):
                    t = self.coerce(s, it, o.cls.e)
                    elems = z3.Store(elems, i, t)
                    if 'cat' in o.cls.fields:
                        cat = t if cat is None else z3.Concat(cat, t)
                self.hstore(s, o, 'elems', elems)
                self.hstore(s, o, 'len', z3.IntVal(len(v.items)))
                if 'cat' in o.cls.fields:
                    self.hstore(s, o, 'cat', cat if cat is not None else z3.StringVal(''))
                return [('next', None, s)]
        raise Unsupported('slice assignment at line %d' % tgt.lineno)

    def store_attr(self, o, attr, v, st, node=None):
        if isinstance(o, SRef):
            cls = o.cls
            if attr not in cls.fields:
                raise Unsupported('store to undeclared field %s.%s' % (cls.name, attr))
            s = st.copy()
            self.on_field_access(s, o, attr, 'write', node)
            self.hstore(s, o, attr, self.coerce(s, v, cls.fields[attr]))
            return [('next', None, s)]
        raise Unsupported('attribute store on %r' % (o,))

    def setitem(self, obj, idx, v, st, node=None):
        if isinstance(obj, SRef):
            cls = obj.cls
            if cls.pyclass and self.has_method(cls, '__setitem__'):
                return [(('raise', r, s) if is_exc(r) else ('next', None, s))
                        for r, s in self.call_method(obj, '__setitem__', [idx, v], {}, st, node)]
            if cls.kind == 'record' and cls.ncells is not None:
                i = self.concrete_int(idx)
                if i is None:
                    raise Unsupported('cell store at symbolic index')
                if i < 0:
                    i += cls.ncells
                s = st.copy()
                self.on_field_access(s, obj, str(i), 'write', node)
                self.hstore(s, obj, str(i), self.coerce(s, v, cls.fields[str(i)]))
                return [('next', None, s)]
            if cls.has_dict():
                return [('next', None, s) for _, s in self.dm_setitem(obj, [idx, v], {}, st, node)]
            if cls.kind == 'list':
                if not isinstance(idx, SInt):
                    raise Unsupported('list store index')
                n = self.hload(st, obj, 'len')
                out = []
                if 'cat' in cls.fields:
                    # the ghost concatenation of the list can only be updated in place when the list has one element
                    self.oblige('side', 'item store into a concatenation-tracked list: the list has exactly one element',
                                st, n == 1, node)
                    st = st.assume(n == 1)
                for side, s in self.fork(st, z3.And(idx.t >= -n, idx.t < n)):
                    if side:
                        s = s.copy()
                        if 'cat' in cls.fields:
                            self.hstore(s, obj, 'cat', self.coerce(s, v, cls.e))
                        j = z3.If(idx.t < 0, idx.t + n, idx.t)
                        self.hstore(s, obj, 'elems', z3.Store(self.hload(s, obj, 'elems'), j, self.coerce(s, v, cls.e)))
                        out.append(('next', None, s))
                    else:
                        out.append(('raise', SExc('IndexError'), s))
                return out
        raise Unsupported('item store on %r' % (obj,))

    def st_AugAssign(self, node, st):
        tgt = node.target
        out = []
        if isinstance(tgt, ast.Name):
            for vals, s in self.ev_seq([tgt, node.value], st):
                if is_exc(vals):
                    out.append(('raise', vals, s))
                    continue
                if (isinstance(node.op, ast.Sub) and all(isinstance(v, SRef) and v.cls.kind == 'set' for v in vals)
                        and vals[0].cls is vals[1].cls):
                    r, s2 = self.set_difference(vals[0], vals[1], s, inplace=True)     # s -= t mutates s itself
                    out.append(('next', None, s2))
                    continue
                for r, s2 in self.binop(node.op, vals[0], vals[1], s, node):
                    if is_exc(r):
                        out.append(('raise', r, s2))
                    else:
                        out.extend(self.assign(tgt, r, s2))
            return out
        if isinstance(tgt, ast.Attribute):
            for o, s in self.ev(tgt.value, st):
                if is_exc(o):
                    out.append(('raise', o, s))
                    continue
                for cur, s1 in self.load_attr(o, tgt.attr, s, tgt):
                    for rhs, s2 in self.ev(node.value, s1):
                        if is_exc(rhs):
                            out.append(('raise', rhs, s2))
                            continue
                        for r, s3 in self.binop(node.op, cur, rhs, s2, node):
                            if is_exc(r):
                                out.append(('raise', r, s3))
                            else:
                                out.extend(self.store_attr(o, tgt.attr, r, s3, tgt))
            return out
        if isinstance(tgt, ast.Subscript) and not isinstance(tgt.slice, ast.Slice):
            for vals, s in self.ev_seq([tgt.value, tgt.slice], st):
                if is_exc(vals):
                    out.append(('raise', vals, s))
                    continue
                for cur, s1 in self.getitem(vals[0], vals[1], s, tgt):
                    if is_exc(cur):
                        out.append(('raise', cur, s1))
                        continue
                    for rhs, s2 in self.ev(node.value, s1):
                        if is_exc(rhs):
                            out.append(('raise', rhs, s2))
                            continue
                        for r, s3 in self.binop(node.op, cur, rhs, s2, node):
                            if is_exc(r):
                                out.append(('raise', r, s3))
                            else:
                                out.extend(self.setitem(vals[0], vals[1], r, s3, tgt))
            return out
        raise Unsupported('augmented assignment target')

    def st_Delete(self, node, st):
        states = [st]
        out = []
        for tgt in node.targets:
            nxt = []
            for s in states:
                if (isinstance(tgt, ast.Subscript) and isinstance(tgt.slice, ast.Slice) and tgt.slice.lower is None
                        and tgt.slice.upper is None and tgt.slice.step is None):
                    # del lst[:] : the same list object, now empty
                    for o, s1 in self.ev(tgt.value, s):
                        if is_exc(o):
                            out.append(('raise', o, s1))
                            continue
                        if not (isinstance(o, SRef) and o.cls.kind == 'list'):
                            raise Unsupported('del x[:] on %r' % (o,))
                        s2 = s1.copy()
                        self.hstore(s2, o, 'len', z3.IntVal(0))
                        if 'cat' in o.cls.fields:
                            raise Unsupported('del x[:] on a cat-tracked list')
                        nxt.append(s2)
                elif isinstance(tgt, ast.Subscript):
                    for vals, s1 in self.ev_seq([tgt.value, tgt.slice], s):
                        if is_exc(vals):
                            out.append(('raise', vals, s1))
                            continue
                        o = vals[0]
                        if isinstance(o, SRef) and o.cls.pyclass and self.has_method(o.cls, '__delitem__'):
                            rs = self.call_method(o, '__delitem__', [vals[1]], {}, s1, tgt)
                        elif isinstance(o, SRef) and o.cls.has_dict():
                            rs = self.dm_delitem(o, [vals[1]], {}, s1, tgt)
                        else:
                            raise Unsupported('del on %r' % (o,))
                        for r, s2 in rs:
                            if is_exc(r):
                                out.append(('raise', r, s2))
                            else:
                                nxt.append(s2)
                elif isinstance(tgt, ast.Name):
                    s1 = s.copy()
                    s1.locals.pop(tgt.id, None)
                    nxt.append(s1)
                else:
                    raise Unsupported('del target')
            states = nxt
        return out + [('next', None, s) for s in states]

    def st_Try(self, node, st):
        out = []
        body_res = self.exec_block(node.body, st)
        after = []
        for ctrl, val, s in body_res:
            if ctrl == 'raise':
                handled = False
                for h in node.handlers:
                    names = self.handler_names(h)
                    if any(exc_isa(val.cls, n) for n in names):
                        s1 = s.copy()
                        prior = s1.locals.get('$exc')
                        s1.locals['$exc'] = val
                        if h.name:
                            s1.locals[h.name] = val
                        for c2, v2, s2 in self.exec_block(h.body, s1):
                            if prior is None:
                                s2.locals.pop('$exc', None)
                            else:
                                s2.locals['$exc'] = prior
                            after.append((c2, v2, s2))
                        handled = True
                        break
                    if val.cls == 'AnyException' and any(exc_isa(n, 'Exception') and n != 'Exception' for n in names):
                        # an exception of unknown class may or may not match a specific handler: fork
                        s1 = s.copy()
                        s1.locals['$exc'] = val
                        for c2, v2, s2 in self.exec_block(h.body, s1):
                            s2.locals.pop('$exc', None)
                            after.append((c2, v2, s2))
                if not handled:
                    after.append((ctrl, val, s))
            elif ctrl == 'next':
                after.extend(self.exec_block(node.orelse, s) if node.orelse else [(ctrl, val, s)])
            else:
                after.append((ctrl, val, s))
        if not node.finalbody:
            return after
        for ctrl, val, s in after:
            for c2, v2, s2 in self.exec_block(node.finalbody, s):
                if c2 == 'next':
                    out.append((ctrl, val, s2))
                else:
                    out.append((c2, v2, s2))
        return out

    def handler_names(self, h):
        if h.type is None:
            return ['BaseException']
        t = h.type
        elts = t.elts if isinstance(t, ast.Tuple) else [t]
        names = []
        for e in elts:
            if isinstance(e, ast.Name):
                names.append(e.id)
            elif isinstance(e, ast.Attribute):
                names.append(e.attr)
            else:
                raise Unsupported('handler type')
        return names

    def st_With(self, node, st):
        if len(node.items) != 1:
            raise Unsupported('multi-item with')
        item = node.items[0]
        cm = self.ev1(item.context_expr, st)
        if self.hooks is not None and self.hooks.is_lock(self, cm):
            s = st.copy()
            self.hooks.acquire(self, s, cm)
            out = []
            for ctrl, val, s2 in self.exec_block(node.body, s):
                self.hooks.release(self, s2, cm)
                out.append((ctrl, val, s2))
            return out
        raise Unsupported('with on %r' % (cm,))

    # ---- loops ------------------------------------------------------------------------------------------------------
    def loop_spec(self, node):
        con = self.cur_contract
        self.loop_ord[id(con)] = self.loop_ord.get(id(con), -1)
        if con is None:
            return None
        # loop contracts are keyed by the loop header text (robust against reordering) or by ordinal
        try:
            if isinstance(node, ast.For):
                tgt = ast.unparse(node.target)
                if isinstance(node.target, ast.Tuple):
                    tgt = tgt.strip('()')
                header = 'for %s in %s' % (tgt, ast.unparse(node.iter))
            else:
                header = 'while %s' % ast.unparse(node.test)
        except Exception:
            header = ''
        for k, v in con.loops.items():
            if isinstance(k, str) and header.startswith(k):
                return v
        key = getattr(node, '_pyvc_ord', None)
        return con.loops.get(key)

    def assigned_names(self, stmts):
        names = set()
        for stmt in stmts:
            for n in ast.walk(stmt):
                if isinstance(n, ast.Name) and isinstance(n.ctx, (ast.Store, ast.Del)):
                    names.add(n.id)
        return names

    def has_yield(self, stmts):
        return any(isinstance(n, (ast.Yield, ast.YieldFrom)) for s in stmts for n in ast.walk(s))

    def st_While(self, node, st):
        spec = self.loop_spec(node)
        if spec is None:
            raise Unsupported('while loop without invariant at line %d' % node.lineno)
        return self.run_loop(node, st, spec, None)

    def st_For(self, node, st):
        spec = self.loop_spec(node)
        out = []
        for it, s in self.ev(node.iter, st):
            if is_exc(it):
                out.append(('raise', it, s))
                continue
            seq = self.as_sequence(it, s)
            if spec is None:
                n = z3.simplify(seq['n'])
                if z3.is_int_value(n) and n.as_long() <= 8:
                    out.extend(self.unroll_for(node, s, seq, n.as_long()))
                    continue
                raise Unsupported('for loop without invariant at line %d' % node.lineno)
            out.extend(self.run_loop(node, s, spec, seq))
        return out

    def as_sequence(self, it, st):
        """-> dict(n=z3 Int, get=lambda j: SV, facts=[z3 Bool])"""
        if isinstance(it, SFunc) and it.how == 'range':
            lo, hi, step = it.a
            # number of items for step > 0 (symbolic): n = max(0, ceil((hi-lo)/step))
            n = st.fresh.const('range_n', z3.IntSort())
            facts = [step > 0, n >= 0,
                     z3.Implies(hi <= lo, n == 0),
                     z3.Implies(hi > lo, z3.And(lo + (n - 1) * step < hi, lo + n * step >= hi))]
            return dict(n=n, get=lambda j: SInt(lo + j * step), facts=facts, needs=[('range-step-positive', step > 0)])
        if isinstance(it, STuple):
            items = it.items
            return dict(n=z3.IntVal(len(items)), get=lambda j: items[self.concrete_int(SInt(j))], facts=[])
        if isinstance(it, SLit) and it.kind == 'list':
            items = it.items
            return dict(n=z3.IntVal(len(items)), get=lambda j: items[self.concrete_int(SInt(j))], facts=[])
        if isinstance(it, SSeq):
            return dict(n=it.n, get=lambda j: self.wrap(it.ety, z3.Select(it.arr, j)), facts=[it.n >= 0])
        if isinstance(it, SGen):
            def gget(j):
                comps = [self.wrap(t, z3.Select(a, j)) for a, t in zip(it.arrays, it.tys)]
                return comps[0] if len(comps) == 1 else STuple(comps)
            return dict(n=it.n, get=gget, facts=[it.n >= 0])
        if isinstance(it, SRef) and it.cls.kind == 'list':
            arr, n = self.hload(st, it, 'elems'), self.hload(st, it, 'len')
            return dict(n=n, get=lambda j: self.wrap(it.cls.e, z3.Select(arr, j)), facts=[n >= 0])
        if isinstance(it, SIterView) or (isinstance(it, SRef) and it.cls.has_dict()):
            what = it.what if isinstance(it, SIterView) else 'keys'
            d = it.ref if isinstance(it, SIterView) else it
            cls = d.cls
            dom, val, size = self.hload(st, d, 'dom'), self.hload(st, d, 'val'), self.hload(st, d, 'size')
            ks = st.fresh.const('iter_keys', z3.ArraySort(z3.IntSort(), cls.k.sort()))
            idx = z3.Function(st.fresh.name('iter_idx'), cls.k.sort(), z3.IntSort())
            j = z3.Int(st.fresh.name('j'))
            k = z3.Const(st.fresh.name('k'), cls.k.sort())
            facts = [size >= 0,
                     z3.ForAll([j], z3.Implies(z3.And(0 <= j, j < size),
                                               z3.And(z3.Select(dom, z3.Select(ks, j)), idx(z3.Select(ks, j)) == j))),
                     z3.ForAll([k], z3.Implies(z3.Select(dom, k),
                                               z3.And(0 <= idx(k), idx(k) < size, z3.Select(ks, idx(k)) == k)))]
            self.trusted.add('dict iteration visits every key exactly once (order unspecified)')

            def get(jt):
                kk = z3.Select(ks, jt)
                if what == 'keys':
                    return self.wrap(cls.k, kk)
                if what == 'values':
                    return self.wrap(cls.v, z3.Select(val, kk))
                return STuple([self.wrap(cls.k, kk), self.wrap(cls.v, z3.Select(val, kk))])
            return dict(n=size, get=get, facts=facts, keys=ks, idx=idx)
        if isinstance(it, SRef) and it.cls.kind == 'set':
            cls = it.cls
            dom, size = self.hload(st, it, 'dom'), self.hload(st, it, 'size')
            ks = st.fresh.const('iter_members', z3.ArraySort(z3.IntSort(), cls.k.sort()))
            idx = z3.Function(st.fresh.name('iter_idx'), cls.k.sort(), z3.IntSort())
            j = z3.Int(st.fresh.name('j'))
            k = z3.Const(st.fresh.name('k'), cls.k.sort())
            facts = [size >= 0,
                     z3.ForAll([j], z3.Implies(z3.And(0 <= j, j < size),
                                               z3.And(z3.Select(dom, z3.Select(ks, j)), idx(z3.Select(ks, j)) == j))),
                     z3.ForAll([k], z3.Implies(z3.Select(dom, k),
                                               z3.And(0 <= idx(k), idx(k) < size, z3.Select(ks, idx(k)) == k)))]
            self.trusted.add('set iteration visits every member exactly once (order unspecified); the set is not resized meanwhile')
            return dict(n=size, get=lambda jt: self.wrap(cls.k, z3.Select(ks, jt)), facts=facts, keys=ks, idx=idx)
        if isinstance(it, SVal) and it.t.get_id() in self.stable_lists:
            n = self.f_oseq_len(it.t)
            return dict(n=n, get=lambda j: SVal(self.f_oseq_item(it.t, j)), facts=[n >= 0])
        h = self.externals.get('iterate')
        if h:
            r = h(self, it, st)
            if r is not None:
                return r
        raise Unsupported('iteration over %r' % (it,))

    def unroll_for(self, node, st, seq, n):
        out = []
        states = [st]
        for j in range(n):
            nxt = []
            for s in states:
                item = seq['get'](z3.IntVal(j))
                for c1, v1, s1 in self.assign(node.target, item, s):
                    for ctrl, val, s2 in self.exec_block(node.body, s1):
                        if ctrl in ('next', 'continue'):
                            nxt.append(s2)
                        elif ctrl == 'break':
                            out.append(('next', None, s2))
                        else:
                            out.append((ctrl, val, s2))
            states = nxt
        for s in states:
            out.extend(self.exec_block(node.orelse, s) if node.orelse else [('next', None, s)])
        return out

    def run_loop(self, node, st, spec, seq):
        """loop by invariant: init obligation, havoc, one symbolic iteration (preservation), exit"""
        line = node.lineno
        is_for = seq is not None
        s0 = st.copy()
        if is_for:
            for f in seq.get('facts', []):
                s0 = s0.assume(f)
            for lab, b in seq.get('needs', []):
                self.oblige('side', 'loop@%d: %s' % (line, lab), st, b, node)
        ivar = z3.IntVal(0)
        if is_for and isinstance(node.target, ast.Name) and node.target.id not in s0.locals:
            try:   # the loop variable is unbound before the loop: give it an arbitrary value of the item type
                s0.locals[node.target.id] = self.havoc_value(s0, seq['get'](z3.IntVal(0)), node.target.id)
            except Exception:
                pass

        def inv_at(s, i, entry):
            c = Ctx(self, s, self.entry_state, self.entry_args,
                    extra=dict(i=i, n=seq['n'] if is_for else None, seq=seq, loop_entry=entry))
            return spec.inv(c)
        for lab, b in inv_at(s0, ivar, s0):
            self.oblige('loop-init', 'loop@%d init: %s' % (line, lab), s0, b, node)
        # havoc
        h = s0.copy()
        mod_locals = self.assigned_names(node.body) | (self.assigned_names([ast.Expr(node.target)]) if is_for else set())
        for n in mod_locals:
            if n in h.locals:
                h.locals[n] = self.havoc_value(h, h.locals[n], n)
        heap_keys = spec.heap if spec.heap is not None else list(h.heap.keys())
        for key in heap_keys:
            cls = self.classes_by_name[key[0]]
            h.heap[key] = z3.Const(h.fresh.name('HL_%s_%s' % key), z3.ArraySort(z3.IntSort(), cls.field_sort(key[1])))
        for g in list(spec.ghost) + (['out_n'] + [g for g in h.ghost if g.startswith('out_')] if self.has_yield(node.body) else []):
            if g in h.ghost:
                h.ghost[g] = h.fresh.const('g_' + g, h.ghost[g].sort())
        na = h.fresh.const('alloc', z3.IntSort())
        h = h.assume(na >= s0.alloc)
        h.alloc = na
        i = h.fresh.const('i', z3.IntSort())
        if is_for:
            h = h.assume(z3.And(i >= 0, i <= seq['n']))
        invs = inv_at(h, i, s0)
        for lab, b in invs:
            for cj in _flatten_and(b):
                self.hyp_labels[cj.get_id()] = lab
        h = h.assume(z3.And(*[b for _, b in invs]) if invs else z3.BoolVal(True))
        out = []
        # iteration
        if is_for:
            body_states = []
            hs = h.assume(i < seq['n'])
            if self.feasible(hs.pc):
                item = seq['get'](i)
                for c1, v1, s1 in self.assign(node.target, item, hs):
                    body_states.append(s1)
            exit_states = []
            es0 = h.assume(i == seq['n'])
            # after exhaustion the loop variable keeps the last item (if there was one)
            for side, es in self.fork(es0, seq['n'] > 0):
                if side:
                    for c1, v1, s1 in self.assign(node.target, seq['get'](seq['n'] - 1), es):
                        exit_states.append(s1)
                else:
                    exit_states.append(es)
        else:
            body_states, exit_states = [], []
            for v, s in self.ev(node.test, h):
                if is_exc(v):
                    out.append(('raise', v, s))
                    continue
                for side, s2 in self.fork(s, self.truth(s, v), 'while@%d' % line):
                    (body_states if side else exit_states).append(s2)
        for bs in body_states:
            bs.note('loop@%d body' % line)
            if is_for:
                bs.ghost['$iter_index'] = i          # position of the current item in the iterated sequence (for ghost code)
            body_outs = self.exec_block(node.body, bs)
            if not body_outs:
                raise Unsupported('the body of the loop at line %d has no outcome at all (every path was dropped)' % line)
            for ctrl, val, s2 in body_outs:
                if ctrl in ('next', 'continue'):
                    self.pending.append(PendingObl('must-fail', 'loop@%d: the end of the body is reachable' % line, s2.pc,
                                                   z3.BoolVal(False), s2.trace))
                # loop frame: whatever the loop contract does not list as modified must really be left alone by the body
                # (otherwise the state after the loop, which keeps those arrays, would ignore the body's effect)
                if ctrl in ('next', 'continue', 'break'):
                    hk = set(heap_keys)
                    for key, arr in s2.heap.items():
                        if key in hk:
                            continue
                        before = h.heap.get(key)
                        if before is None:
                            before = self.base_heap.get(key)
                        if before is None or arr is before or z3.eq(arr, before):
                            continue
                        self.oblige('frame', 'loop@%d frame: %s.%s is not modified by the body' % (line, key[0], key[1]), s2,
                                    arr == before, node)
                    listed = set(spec.ghost) | {g for g in s2.ghost if g.startswith('out_') or g.startswith('$')}
                    for g, term in s2.ghost.items():
                        if g in listed or g not in h.ghost:
                            continue
                        if term is h.ghost[g] or z3.eq(term, h.ghost[g]):
                            continue
                        self.oblige('frame', 'loop@%d frame: ghost %s is not modified by the body' % (line, g), s2,
                                    term == h.ghost[g], node)
                if ctrl in ('next', 'continue'):
                    for lab, b in inv_at(s2, i + 1, s0):
                        self.oblige('loop-pres', 'loop@%d preserves: %s' % (line, lab), s2, b, node, inductive=True)
                elif ctrl == 'break':
                    s2 = s2.copy()
                    s2.ghost['$loop_index_%s' % getattr(node, '_pyvc_ord', 0)] = i
                    out.append(('next', None, s2))
                else:
                    out.append((ctrl, val, s2))
        for es in exit_states:
            if is_for:
                es.ghost['$loop_index_%s' % getattr(node, '_pyvc_ord', 0)] = seq['n']
            if not self.feasible(es.pc):
                continue
            es.note('loop@%d exit' % line)
            out.extend(self.exec_block(node.orelse, es) if node.orelse else [('next', None, es)])
        return out

    def havoc_value(self, st, v, name):
        if isinstance(v, SInt):
            return SInt(st.fresh.const('L_' + name, z3.IntSort()))
        if isinstance(v, SBool):
            return SBool(st.fresh.const('L_' + name, z3.BoolSort()))
        if isinstance(v, SReal):
            return SReal(st.fresh.const('L_' + name, z3.RealSort()))
        if isinstance(v, SVal):
            return SVal(st.fresh.const('L_' + name, Val))
        if isinstance(v, SStr):
            return SStr(st.fresh.const('L_' + name, z3.StringSort()))
        if isinstance(v, SRef):
            return SRef(v.cls, st.fresh.const('L_' + name, z3.IntSort()))
        if isinstance(v, STuple):
            return STuple([self.havoc_value(st, x, name) for x in v.items])
        if isinstance(v, SNone):
            return v
        raise Unsupported('havoc of local %s = %r' % (name, v))

    # ---- generators ---------------------------------------------------------------------------------------------------
    def do_yield(self, node, st):
        if isinstance(node, ast.YieldFrom) or node.value is None:
            raise Unsupported('yield from / bare yield')
        out = []
        for v, s in self.ev(node.value, st):
            if is_exc(v):
                out.append(('raise', v, s))
                continue
            s = s.copy()
            comps = v.items if isinstance(v, STuple) else [v]
            s = self.apply_hints(s, 'yield', [getattr(x, 't', None) for x in comps]).copy()
            n = s.ghost.get('out_n')
            if n is None:
                raise Unsupported('yield in a function without generator contract')
            for j, cv in enumerate(comps):
                key = 'out_%d' % j
                if key not in s.ghost:
                    raise Unsupported('yield arity')
                s.ghost[key] = z3.Store(s.ghost[key], n, cv.t)
            s.ghost['out_n'] = n + 1
            out.append(('next', None, s))
        return out

    # ---- verification of one function ------------------------------------------------------------------------------------
    def number_loops(self, fnode):
        k = 0
        for n in ast.walk(fnode):
            if isinstance(n, (ast.For, ast.While)):
                n._pyvc_ord = k
                k += 1
        return k

    def verify(self, qualname, variant=None):
        """symbolically execute the real body of `qualname` against its contract.
        -> dict(status, obligations=[PendingObl], sha, dropped, reason)"""
        self.reset()
        self.loop_ord = {}
        con = self.contracts.get(qualname)
        fnode = self.src.func(qualname)
        if fnode is None or con is None:
            return dict(status='inapplicable', reason='function %s not found' % qualname, obligations=[], sha='')
        sha = self.src.sha(fnode)
        body, dropped = front.strip_docstring(fnode.body)
        self.dropped = dropped
        self.number_loops(fnode)
        st = State()
        st.fresh = Fresh()
        st.alloc = z3.Int('alloc0')
        st = st.assume(st.alloc >= 1)
        self.cur_contract = con
        self.variant = variant
        try:
            args = con.setup(self, st, variant) if variant is not None else con.setup(self, st)
            names = [a.arg for a in fnode.args.posonlyargs + fnode.args.args + fnode.args.kwonlyargs]
            names += [x.arg for x in (fnode.args.vararg, fnode.args.kwarg) if x is not None]
            for n in names:
                if n not in args:
                    raise Inapplicable('parameter %s of %s has no symbolic argument in the contract' % (n, qualname))
            for n in args:
                if n not in names and not n.startswith('$'):
                    raise Inapplicable('contract argument %s is not a parameter of %s' % (n, qualname))
            st.locals = {k: v for k, v in args.items() if not k.startswith('$')}
            c0 = Ctx(self, st, st, args)
            pre = con.requires(c0)
            for label, b in pre:
                st = st.assume(b)
                for cj in _flatten_and(b):
                    self.hyp_labels[cj.get_id()] = label
            if con.facts is not None:
                for label, b in con.facts(Ctx(self, st, st, args)):
                    st = st.assume(b)
                    for cj in _flatten_and(b):
                        self.hyp_labels[cj.get_id()] = 'fact:' + label
            self.entry_state = st
            self.entry_args = args
            # vacuity: the precondition must be satisfiable
            self.pending.append(PendingObl('cover', 'requires is satisfiable', st.pc, z3.BoolVal(False), ()))
            outcomes = self.exec_block(body, st)
            self.paths = len(outcomes)
            for ctrl, val, s in outcomes:
                if ctrl in ('next', 'return'):
                    res = val if (ctrl == 'return' and val is not None) else SNone()
                    s = self.ghost_exit(con, s, args, 'return', res)
                    c = Ctx(self, s, self.entry_state, args, result=res)
                    aux = tuple(getattr(con, 'aux', ()) or ())
                    chain = getattr(con, 'chain', False)
                    sa = s
                    for label, b in con.ensures(c):
                        # `aux` clauses are representation lemmas (not part of the property): a refuted one only loses the
                        # proof.  With `chain`, a clause may use the clauses stated before it (each is an obligation itself).
                        self.oblige('post', 'ensures %s' % label, sa, b, fnode, inductive=any(a in label for a in aux))
                        if chain:
                            sa = sa.assume(b)
                    self.pending.append(PendingObl('must-fail', 'ensures False on a normal path', s.pc,
                                                   z3.BoolVal(False), s.trace))
                    self.frame_obligations(con, c, s, fnode, 'return')
                elif ctrl == 'raise':
                    exc = val.cls
                    post = None
                    for en, pf in con.raises.items():
                        if exc_isa(exc, en):
                            post = pf
                            break
                    if post is None and exc == 'AnyException' and con.exc_any is not None:
                        post = con.exc_any
                    s = self.ghost_exit(con, s, args, exc, None)
                    c = Ctx(self, s, self.entry_state, args, exc=exc)
                    if post is None:
                        self.oblige('post', 'no undeclared exception (%s)' % exc, s, z3.BoolVal(False), fnode)
                    else:
                        for label, b in post(c):
                            self.oblige('post', 'on %s: %s' % (exc, label), s, b, fnode)
                        self.frame_obligations(con, c, s, fnode, exc)
                else:
                    raise Unsupported('control %s at function end' % ctrl)
        except Unsupported as e:
            return dict(status='unsupported', reason=str(e), obligations=[], sha=sha, dropped=dropped)
        except Inapplicable as e:
            return dict(status='inapplicable', reason=str(e), obligations=[], sha=sha, dropped=dropped)
        except z3.Z3Exception as e:
            import traceback
            where = [l.strip() for l in traceback.format_exc().strip().splitlines() if l.strip().startswith('File')][-7:]
            return dict(status='unsupported', reason='z3 sort error: %s @ %s' % (e, ' <- '.join(w[-70:] for w in where[::-1])),
                        obligations=[], sha=sha, dropped=dropped)
        except (KeyError, AttributeError, IndexError, TypeError, RecursionError) as e:
            import traceback
            return dict(status='unsupported', reason='executor/contract error %s: %s @ %s' % (
                type(e).__name__, e, traceback.format_exc().strip().splitlines()[-3].strip()[:160]),
                obligations=[], sha=sha, dropped=dropped)
        return dict(status='ok', obligations=self.pending, sha=sha, dropped=dropped, paths=self.paths,
                    called=sorted(self.called), inlined=sorted(self.inlined))

    def ghost_exit(self, con, s, args, outcome, res):
        """ghost statements executed at function exit (the code itself never touches ghost state)"""
        ge = getattr(con, 'ghost_exit', None)
        if ge is None:
            return s
        c = Ctx(self, s, self.entry_state, args, result=res)
        upd = ge(c, outcome)
        if upd:
            missing = set(upd) - set(getattr(con, 'ghost_mod', []) or [])
            if missing:
                # a caller havocs only ghost_mod at a call by contract: an undeclared ghost update would be unsound there
                raise Unsupported('contract error: ghost_exit of %s updates %s not listed in ghost_mod' % (con.qualname, sorted(missing)))
            s = s.copy()
            s.ghost.update(upd)
        return s

    def frame_obligations(self, con, c, s, fnode, tag):
        if con.modifies is None:
            return
        mods = set(con.modifies(c))
        for key, arr in s.heap.items():
            if key in mods:
                continue
            old = self.entry_state.heap.get(key)
            if old is None:
                old = self.base_heap.get(key)
            if old is None or arr is old or z3.eq(arr, old):
                continue
            # new allocations may extend a map above alloc0: frame is about pre-existing objects
            r = z3.Int('fr')
            self.oblige('frame', 'frame %s.%s unchanged (%s)' % (key[0], key[1], tag), s,
                        z3.ForAll([r], z3.Implies(r < z3.Int('alloc0'), z3.Select(arr, r) == z3.Select(old, r))), fnode)
