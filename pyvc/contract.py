"""Contract vocabulary of pyvc (symbolic reading).  Contracts live in /verif/contracts/*.py, keyed by
source file + qualified function name (+ loop ordinal); nothing is written into /repo."""
import z3

from .values import (Inapplicable, SRef, SInt, SBool, SVal, SReal, STuple, SNone, SStr, Val, NONE,
                     HeapClass, Ty)


class Loop:
    """loop contract: inv(c) -> [(label, z3 Bool)], optional extra havoc of heap keys / ghost names.
    shape: optional (target names, iter source text prefix) signature; if it does not match the loop found at
    that ordinal the contract is inapplicable (a restructured loop demotes, it does not alarm)."""

    def __init__(self, inv, heap=None, ghost=None, shape=None, decreases=None, unroll=None):
        self.inv = inv
        self.heap = heap
        self.ghost = ghost or []
        self.shape = shape
        self.decreases = decreases
        self.unroll = unroll


class Contract:
    def __init__(self, qualname, setup=None, requires=None, ensures=None, raises=None, modifies=None,
                 loops=None, local_types=None, returns=None, inline=False, ghost_pre=None,
                 variants=None, generator=False, exc_any=None, note='', hints=None, facts=None):
        self.hints = hints
        self.facts = facts                  # c -> [(label, Bool)]: facts true of every real execution (e.g. len(d) == 0 iff d has no
        #                                     key); assumed at entry and after a call by contract, never asserted at call sites
        self.qualname = qualname
        self.setup = setup                  # (eng, st) -> {param: SV}        (symbolic arguments for verifying the body)
        self.requires = requires or (lambda c: [])
        self.ensures = ensures or (lambda c: [])
        self.raises = raises or {}          # exc class name -> (c -> [(label, Bool)])
        self.modifies = modifies            # (c) -> list of heap keys | None (= may change everything)
        self.loops = loops or {}
        self.local_types = local_types or {}
        self.returns = returns              # (c) -> SV   result of a call by contract
        self.inline = inline
        self.ghost_pre = ghost_pre
        self.variants = variants            # list of (tag, dict) : verification is repeated per variant (e.g. self class)
        self.generator = generator
        self.exc_any = exc_any              # c -> [(label,Bool)] post for exceptions of unknown class passing through
        self.note = note


class Ctx:
    """what a contract clause sees: argument values, the state at entry (`old`) and now (`st`)."""

    def __init__(self, eng, st, old, args, result=None, exc=None, extra=None):
        self.eng = eng
        self.st = st
        self.old = old if old is not None else st
        self.args = args
        self.result = result
        self.exc = exc
        self.x = extra or {}

    # ---- arguments / locals
    def a(self, name):
        v = self.args[name]
        if isinstance(v, SNone):
            return NONE
        return getattr(v, 't', v)

    def sv(self, name):
        return self.args[name]

    def L(self, name, st=None):
        st = st or self.st
        if name not in st.locals:
            raise Inapplicable('local %r not found' % name)
        v = st.locals[name]
        return getattr(v, 't', v)

    def Lsv(self, name, st=None):
        st = st or self.st
        if name not in st.locals:
            raise Inapplicable('local %r not found' % name)
        return st.locals[name]

    def r(self):
        return getattr(self.result, 't', self.result)

    # ---- heap
    def arr(self, cls, field, st=None):
        st = st or self.st
        key = (cls.name, field)
        if field not in cls.fields:
            raise Inapplicable('field %s.%s not declared' % key)
        return self.eng.heap_arr(st, cls, field)

    def oarr(self, cls, field):
        return self.arr(cls, field, self.old)

    def f(self, ref, field, st=None):
        """field `field` of object `ref` (an SRef) in state st (default: now)"""
        return z3.Select(self.arr(ref.cls, field, st), ref.t)

    def of(self, ref, field):
        return self.f(ref, field, self.old)

    def g(self, name, st=None):
        st = st or self.st
        if name not in st.ghost:
            raise Inapplicable('ghost %r not found' % name)
        return st.ghost[name]

    def og(self, name):
        return self.g(name, self.old)

    def ref(self, cls, term):
        return SRef(cls, term)


def unchanged(c, cls, field):
    """array-level frame: the whole field map is the same as at entry"""
    return c.arr(cls, field) == c.oarr(cls, field)
