"""Solver back ends: z3 (Python API, in worker processes) and cvc5 (CLI) on z3's unknowns.

A query is the SMT-LIB2 text of `hyps /\\ not goal`; `unsat` = obligation proved, `sat` = refuted
(model returned as {name: text}), anything else = unknown.  Queries run in a process pool so that a
solver crash or a run-away query cannot take the checker down.
"""
import multiprocessing as mp
import os
import re
import subprocess
import tempfile
import time

import z3

CVC5 = '/usr/bin/cvc5'


def to_smt2(hyps, goal):
    s = z3.Solver()
    for h in hyps:
        s.add(h)
    s.add(z3.Not(goal))
    return s.to_smt2()


def _model_to_dict(m, limit=400):
    out = {}
    for d in m.decls():
        try:
            v = m[d]
            txt = v.sexpr() if hasattr(v, 'sexpr') else str(v)
            if len(txt) > limit:
                txt = txt[:limit] + '...'
            out[d.name()] = txt
        except Exception:
            pass
    return out


def _solve_z3(args):
    smt2, timeout_ms, seed = args
    t0 = time.time()
    try:
        ctx = z3.Context()
        s = z3.Solver(ctx=ctx)
        s.set('timeout', int(timeout_ms))
        if seed:
            s.set('random_seed', seed)
        s.from_string(smt2)
        r = s.check()
        if r == z3.unsat:
            return ('unsat', None, time.time() - t0, 'z3')
        if r == z3.sat:
            return ('sat', _model_to_dict(s.model()), time.time() - t0, 'z3')
        return ('unknown', s.reason_unknown(), time.time() - t0, 'z3')
    except Exception as e:  # noqa
        return ('unknown', 'z3 error: %r' % (e,), time.time() - t0, 'z3')


def _solve_cvc5(smt2, timeout_s):
    t0 = time.time()
    if not os.path.exists(CVC5):
        return ('unknown', 'no cvc5', 0.0, 'cvc5')
    if 'lambda' in smt2 or 'RecFun' in smt2 or 'define-fun-rec' in smt2:
        pass
    with tempfile.NamedTemporaryFile('w', suffix='.smt2', delete=False) as f:
        txt = smt2
        if '(set-logic' not in txt:
            txt = '(set-logic ALL)\n' + txt
        f.write(txt)
        path = f.name
    try:
        p = subprocess.run([CVC5, '--tlimit=%d' % int(timeout_s * 1000), '--strings-exp', path],
                           capture_output=True, text=True, timeout=timeout_s + 5)
        out = p.stdout.strip().splitlines()
        first = out[0] if out else ''
        if first == 'unsat':
            return ('unsat', None, time.time() - t0, 'cvc5')
        if first == 'sat':
            return ('sat', {}, time.time() - t0, 'cvc5')
        return ('unknown', (p.stdout + p.stderr)[-200:], time.time() - t0, 'cvc5')
    except Exception as e:  # noqa
        return ('unknown', 'cvc5 error %r' % (e,), time.time() - t0, 'cvc5')
    finally:
        try:
            os.unlink(path)
        except OSError:
            pass


def _solve(args):
    smt2, timeout_ms, use_cvc5 = args
    if use_cvc5 == 'single':
        return _solve_z3((smt2, timeout_ms, 0))
    if use_cvc5 == 'first':
        # string-heavy obligations: z3's sequence solver is unstable on them, cvc5 (--strings-exp) usually decides at once;
        # cvc5 is only used for proofs (unsat), refutations still need a z3 model
        r0 = _solve_z3((smt2, min(timeout_ms, 4000), 0))
        if r0[0] != 'unknown':
            return r0
        r3 = _solve_cvc5(smt2, timeout_ms / 1000.0)
        if r3[0] == 'unsat':
            return (r3[0], r3[1], r0[2] + r3[2], 'cvc5')
    r = _solve_z3((smt2, timeout_ms, 0))
    if r[0] == 'unknown':
        r2 = _solve_z3((smt2, timeout_ms, 7))
        if r2[0] != 'unknown':
            return (r2[0], r2[1], r[2] + r2[2], 'z3(seed 7)')
        if use_cvc5:
            r3 = _solve_cvc5(smt2, timeout_ms / 1000.0)
            if r3[0] == 'unsat':          # a cvc5 `sat` without model is not used as a refutation
                return (r3[0], r3[1], r[2] + r2[2] + r3[2], 'cvc5')
        return ('unknown', r[1], r[2] + r2[2], 'z3')
    return r


_POOL = None


def pool():
    global _POOL
    if _POOL is None:
        n = int(os.environ.get('VERIF_JOBS', '0') or 0) or min(16, os.cpu_count() or 4)
        _POOL = mp.get_context('fork').Pool(n)
    return _POOL


def solve_many(queries, timeout_s=20, use_cvc5=True, deadline=None):
    """queries: list of smt2 strings -> list of (status, model|reason, seconds, backend).
    deadline (absolute time.time()): queries not answered by then are `unknown` (wall budget of the check)."""
    global _POOL
    if not queries:
        return []
    args = [(q, int(timeout_s * 1000), use_cvc5) for q in queries]
    if os.environ.get('VERIF_SERIAL'):
        out = []
        for a in args:
            if deadline is not None and time.time() > deadline:
                out.append(('unknown', 'wall budget of the check exhausted', 0.0, 'none'))
            else:
                out.append(_solve(a))
        return out
    p = pool()
    handles = [p.apply_async(_solve, (a,)) for a in args]
    out = []
    killed = False
    for h in handles:
        if deadline is None:
            out.append(h.get())
            continue
        try:
            out.append(h.get(timeout=max(0.05, deadline - time.time())))
        except mp.TimeoutError:
            out.append(('unknown', 'wall budget of the check exhausted', 0.0, 'none'))
            killed = True
    if killed:
        p.terminate()
        _POOL = None
    return out


def quick_sat(hyps, timeout_ms=1500):
    """in-process feasibility test used for path pruning: True (sat/unknown) or False (unsat)"""
    s = z3.Solver()
    s.set('timeout', timeout_ms)
    for h in hyps:
        s.add(h)
    return s.check() != z3.unsat


def parse_int(txt):
    if txt is None:
        return None
    t = txt.strip()
    m = re.fullmatch(r'\(- (\d+)\)', t)
    if m:
        return -int(m.group(1))
    if re.fullmatch(r'-?\d+', t):
        return int(t)
    return None
