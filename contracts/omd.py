"""Contracts for boltons.dictutils.OrderedMultiDict core (property C01).

Heap model: cells are 4-slot lists [PREV, NEXT, KEY, VALUE] in a ring through `root`; `_map[k]` is the list of k's cells;
the dict part maps k to the list of k's values.  Ghost: live, t (insertion stamp), clock, pos (index of a cell in its
key's cell list).  The abstract view ("insertion-ordered list of pairs") is: the live cells ordered by stamp.

  O0-O6  stamp-ordered ring through root (as for the LRI ring)
  M1  live r        => key[r] in _map, 0 <= pos[r] < len(_map[key r]) and _map[key r][pos r] is r
  M2  k in _map, 0 <= i < len(_map[k])  =>  c = _map[k][i] is live, key[c] = k, pos[c] = i
  M3  k in _map => _map[k] is an allocated, non-empty list;  M5 different keys own different cell lists
  M4  stamps increase along _map[k]
  S1  dom(dict part) = dom(_map);  S2  len(dict[k]) = len(_map[k]), dict[k] allocated;  S4 different keys own different lists
  S3  dict[k][i] = VALUE of _map[k][i]
"""
import z3

from pyvc.values import (HeapClass, INT, VAL, REF, SRef, SVal, SInt, SBool, SNone, STuple, Val, NONE)
from pyvc.contract import Contract, Loop

FILE = 'boltons/dictutils.py'
MISSING = z3.Const('_MISSING_dictutils', Val)
Cell = HeapClass('OCell', 'record', ncells=4)
Cell.fields.update({'0': REF(Cell), '1': REF(Cell), '2': VAL, '3': VAL})
CellList = HeapClass('OCellList', 'list', e=REF(Cell))
ValList = HeapClass('OValList', 'list', e=VAL)
MapD = HeapClass('OMap', 'dict', k=VAL, v=REF(CellList))
OMD = HeapClass('OrderedMultiDict', 'record', pyclass='OrderedMultiDict', fields=dict(_map=REF(MapD), root=REF(Cell)),
                dict_k=VAL, dict_v=REF(ValList))
CLASSES = {'OrderedMultiDict': OMD}
ALL = [Cell, CellList, ValList, MapD, OMD]
CONSTS = {'_MISSING': SVal(MISSING)}
BoolArr = z3.ArraySort(z3.IntSort(), z3.BoolSort())
IntArr = z3.ArraySort(z3.IntSort(), z3.IntSort())
LL_KEYS = [('OCell', '0'), ('OCell', '1'), ('OCell', '2'), ('OCell', '3'), ('OCellList', 'elems'), ('OCellList', 'len'),
           ('OMap', 'dom'), ('OMap', 'val'), ('OMap', 'size')]
D_KEYS = [('OrderedMultiDict', 'dom'), ('OrderedMultiDict', 'val'), ('OrderedMultiDict', 'size'),
          ('OValList', 'elems'), ('OValList', 'len')]
GHOST = ['live', 't', 'clock', 'pos']


class V:
    def __init__(self, c, st=None):
        st = st or c.st
        s = c.args.get('self') or c.eng.entry_args['self']
        self.s = s
        self.root = c.f(s, 'root', st)
        self.m = SRef(MapD, c.f(s, '_map', st))
        self.mdom, self.mval, self.msize = c.f(self.m, 'dom', st), c.f(self.m, 'val', st), c.f(self.m, 'size', st)
        self.ddom, self.dval, self.dsize = c.f(s, 'dom', st), c.f(s, 'val', st), c.f(s, 'size', st)
        self.nxt, self.prv = c.arr(Cell, '1', st), c.arr(Cell, '0', st)
        self.key, self.val = c.arr(Cell, '2', st), c.arr(Cell, '3', st)
        self.cle, self.cll = c.arr(CellList, 'elems', st), c.arr(CellList, 'len', st)
        self.vle, self.vll = c.arr(ValList, 'elems', st), c.arr(ValList, 'len', st)
        self.live, self.t, self.clock, self.pos = st.ghost['live'], st.ghost['t'], st.ghost['clock'], st.ghost['pos']
        self.alloc = st.alloc

    def L(self, k):            # the cell list of key k
        return z3.Select(self.mval, k)

    def cell(self, k, i):
        return z3.Select(z3.Select(self.cle, self.L(k)), i)

    def clen(self, k):
        return z3.Select(self.cll, self.L(k))

    def VL(self, k):
        return z3.Select(self.dval, k)

    def vlen(self, k):
        return z3.Select(self.vll, self.VL(k))

    def value(self, k, i):
        return z3.Select(z3.Select(self.vle, self.VL(k)), i)

    def node(self, r):
        return z3.Or(z3.Select(self.live, r), r == self.root)


def ll_wf(v, but_m3_for=None):
    r, q, i = z3.Ints('r q i')
    k, k2 = z3.Consts('k k2', Val)
    live, t, nxt, prv, key = v.live, v.t, v.nxt, v.prv, v.key
    Lv = lambda x: z3.Select(live, x)  # noqa: E731
    T = lambda x: z3.Select(t, x)  # noqa: E731
    N = lambda x: z3.Select(nxt, x)  # noqa: E731
    P = lambda x: z3.Select(prv, x)  # noqa: E731
    a = v.root
    c_ki = v.cell(k, i)
    m3 = z3.ForAll([k], z3.Implies(z3.Select(v.mdom, k), z3.And(
        v.L(k) >= 1, v.L(k) < v.alloc, v.clen(k) >= (0 if but_m3_for is None else z3.If(k == but_m3_for, 0, 1)))))
    if but_m3_for is None:
        m3 = z3.ForAll([k], z3.Implies(z3.Select(v.mdom, k), z3.And(v.L(k) >= 1, v.L(k) < v.alloc, v.clen(k) >= 1)))
    return [
        ('O0', z3.And(a >= 1, a < v.alloc, z3.Not(Lv(a)), v.s.t >= 1, v.s.t < v.alloc, v.m.t >= 1, v.m.t < v.alloc)),
        ('O1', z3.ForAll([r], z3.Implies(v.node(r), z3.And(v.node(N(r)), v.node(P(r)), N(P(r)) == r, P(N(r)) == r)))),
        ('O2', z3.ForAll([r], z3.Implies(z3.And(Lv(r), Lv(N(r))), T(N(r)) > T(r)))),
        ('O3', z3.ForAll([r, q], z3.Implies(z3.And(Lv(r), Lv(q), T(r) < T(q)), z3.And(Lv(N(r)), T(N(r)) <= T(q))))),
        ('O4', z3.ForAll([r, q], z3.Implies(z3.And(Lv(r), Lv(q), r != q), T(r) != T(q)))),
        ('O5', z3.ForAll([r], z3.Implies(Lv(r), z3.And(Lv(N(a)), T(N(a)) <= T(r), Lv(P(a)), T(P(a)) >= T(r))))),
        ('O6', z3.ForAll([r], z3.Implies(Lv(r), z3.And(T(r) < v.clock, r >= 1, r < v.alloc)))),
        ('M1', z3.ForAll([r], z3.Implies(Lv(r), z3.And(
            z3.Select(v.mdom, z3.Select(key, r)), 0 <= z3.Select(v.pos, r),
            z3.Select(v.pos, r) < v.clen(z3.Select(key, r)),
            v.cell(z3.Select(key, r), z3.Select(v.pos, r)) == r)))),
        ('M2', z3.ForAll([k, i], z3.Implies(z3.And(z3.Select(v.mdom, k), 0 <= i, i < v.clen(k)), z3.And(
            Lv(c_ki), z3.Select(key, c_ki) == k, z3.Select(v.pos, c_ki) == i)))),
        ('M3', m3),
        ('M4', z3.ForAll([k, i], z3.Implies(z3.And(z3.Select(v.mdom, k), 0 <= i, i + 1 < v.clen(k)),
                                            T(v.cell(k, i)) < T(v.cell(k, i + 1))))),
        ('M5', z3.ForAll([k, k2], z3.Implies(z3.And(z3.Select(v.mdom, k), z3.Select(v.mdom, k2), k != k2),
                                             v.L(k) != v.L(k2)))),
    ]


def d_wf(v):
    i = z3.Int('i')
    k, k2 = z3.Consts('k k2', Val)
    return [
        ('S1', z3.ForAll([k], z3.Select(v.ddom, k) == z3.Select(v.mdom, k))),
        ('S2', z3.ForAll([k], z3.Implies(z3.Select(v.mdom, k), z3.And(v.vlen(k) == v.clen(k), v.VL(k) >= 1, v.VL(k) < v.alloc)))),
        ('S3', z3.ForAll([k, i], z3.Implies(z3.And(z3.Select(v.mdom, k), 0 <= i, i < v.clen(k)),
                                            v.value(k, i) == z3.Select(v.val, v.cell(k, i))))),
        ('S4', z3.ForAll([k, k2], z3.Implies(z3.And(z3.Select(v.ddom, k), z3.Select(v.ddom, k2), k != k2),
                                             v.VL(k) != v.VL(k2)))),
    ]


def S(*names):
    def setup(eng, st, variant=None):
        st.ghost['live'] = z3.Const('live0', BoolArr)
        st.ghost['t'] = z3.Const('t0', IntArr)
        st.ghost['pos'] = z3.Const('pos0', IntArr)
        st.ghost['clock'] = z3.Int('clock0')
        d = dict(self=SRef(OMD, z3.Int('self')))
        for n in names:
            d[n] = SVal(z3.Const('arg_' + n, Val))      # never the name of a bound variable of the invariant
        return d
    return setup


def same(c, keys):
    return z3.And(*[c.eng.heap_arr(c.st, c.eng.classes_by_name[k[0]], k[1]) ==
                    c.eng.heap_arr(c.old, c.eng.classes_by_name[k[0]], k[1]) for k in keys])


def ghost_same(c):
    return z3.And(*[c.g(n) == c.og(n) for n in GHOST])


# ---- the abstract effect on the pair list --------------------------------------------------------------------------------------
def appended(o, n, k, v):
    """exactly one new pair (k, v) at the end: a fresh live cell with the newest stamp; every old cell unchanged"""
    r = z3.Int('r')
    new = z3.Select(n.prv, n.root)
    return z3.And(
        n.root == o.root, new >= o.alloc, z3.Select(n.live, new), z3.Select(n.t, new) == o.clock, n.clock == o.clock + 1,
        z3.Select(n.key, new) == k, z3.Select(n.val, new) == v,
        z3.ForAll([r], z3.Implies(r < o.alloc, z3.And(
            z3.Select(n.live, r) == z3.Select(o.live, r),
            z3.Implies(z3.Select(o.live, r), z3.And(z3.Select(n.t, r) == z3.Select(o.t, r),
                                                    z3.Select(n.key, r) == z3.Select(o.key, r),
                                                    z3.Select(n.val, r) == z3.Select(o.val, r)))))),
        z3.ForAll([r], z3.Implies(z3.And(r >= o.alloc, r != new), z3.Not(z3.Select(n.live, r)))))


def killed_key(o, n, k, all_of_key=True):
    """the pairs of key k are removed (all of them), every other pair is unchanged"""
    r = z3.Int('r')
    return z3.And(
        n.root == o.root, n.clock == o.clock,
        z3.ForAll([r], z3.And(
            z3.Select(n.live, r) == z3.And(z3.Select(o.live, r), z3.Select(o.key, r) != k),
            z3.Implies(z3.Select(n.live, r), z3.And(z3.Select(n.t, r) == z3.Select(o.t, r),
                                                    z3.Select(n.key, r) == z3.Select(o.key, r),
                                                    z3.Select(n.val, r) == z3.Select(o.val, r))))))


# ---- _insert ---------------------------------------------------------------------------------------------------------------------
def insert_ghost_exit(c, outcome):
    o = V(c, c.old)
    n = V(c)
    k = c.a('k')
    new = z3.Select(n.prv, n.root)
    oldlen = z3.If(z3.Select(o.mdom, k), o.clen(k), 0)
    return dict(live=z3.Store(c.og('live'), new, True), t=z3.Store(c.og('t'), new, c.og('clock')),
                clock=c.og('clock') + 1, pos=z3.Store(c.og('pos'), new, oldlen))


def insert_ensures(c):
    o, n = V(c, c.old), V(c)
    k, v = c.a('k'), c.a('v')
    kk = z3.Const('kk', Val)
    i = z3.Int('i')
    return [('ll.' + l, f) for l, f in ll_wf(n)] + [
        ('one pair (k, v) is appended, every other pair unchanged', appended(o, n, k, v)),
        ('_map gains at most k; the cell lists of other keys are untouched',
         z3.And(n.mdom == z3.Store(o.mdom, k, True), n.m.t == o.m.t,
                z3.ForAll([kk], z3.Implies(z3.And(kk != k, z3.Select(o.mdom, kk)), z3.And(
                    n.L(kk) == o.L(kk), n.clen(kk) == o.clen(kk),
                    z3.ForAll([i], z3.Implies(z3.And(0 <= i, i < o.clen(kk)), n.cell(kk, i) == o.cell(kk, i)))))))),
        ("k's cell list is the old one plus the new cell",
         z3.And(n.clen(k) == z3.If(z3.Select(o.mdom, k), o.clen(k), 0) + 1,
                n.cell(k, n.clen(k) - 1) == z3.Select(n.prv, n.root),
                z3.Implies(z3.Select(o.mdom, k), z3.And(n.L(k) == o.L(k), z3.ForAll([i], z3.Implies(
                    z3.And(0 <= i, i < o.clen(k)), n.cell(k, i) == o.cell(k, i))))),
                z3.Implies(z3.Not(z3.Select(o.mdom, k)), n.L(k) >= o.alloc))),
    ]


LL_MOD = lambda c: list(LL_KEYS)  # noqa: E731
insert = Contract('OrderedMultiDict._insert', setup=S('k', 'v'), requires=lambda c: ll_wf(V(c)), ensures=insert_ensures,
                  modifies=LL_MOD, local_types=dict(cell=REF(Cell)))
insert.reveal = {'ll.M2': ['O0', 'O6', 'M1', 'M2', 'M3', 'M5'], 'll.M1': ['O0', 'O6', 'M1', 'M2', 'M3', 'M5'],
                 'll.M4': ['O0', 'O6', 'M2', 'M3', 'M4', 'M5']}
insert.ghost_exit = insert_ghost_exit
insert.ghost_mod = GHOST


# ---- _remove_all -------------------------------------------------------------------------------------------------------------------
def pop_hint(c, event, data):
    """ghost statement: the cell just popped from a cell list is dead"""
    if event != 'list.pop':
        return []
    lst, item = data
    if lst.cls.name != 'OCellList':
        return []
    return [('ghost', 'live', z3.Store(c.g('live'), item.t, False))]


def removeall_inv(c):
    o, n = V(c, c.old), V(c)
    k = c.a('k')
    r, i = z3.Ints('r i')
    kk = z3.Const('kk', Val)
    values = c.Lsv('values')
    return [('ll.' + l, f) for l, f in ll_wf(n, but_m3_for=k)] + [
        ('values is the cell list of k', z3.And(z3.Select(n.mdom, k), values.t == n.L(k), n.L(k) == o.L(k), n.clen(k) >= 0,
                                                 n.clen(k) <= o.clen(k))),
        ('only cells of k have died so far; everything else is as at entry', z3.And(
            n.root == o.root, n.clock == o.clock, n.mdom == o.mdom, n.m.t == o.m.t, n.t == o.t, n.key == o.key, n.val == o.val,
            n.pos == o.pos,
            z3.ForAll([r], z3.And(z3.Implies(z3.Select(n.live, r), z3.Select(o.live, r)),
                                  z3.Implies(z3.And(z3.Select(o.live, r), z3.Select(o.key, r) != k), z3.Select(n.live, r)),
                                  z3.Implies(z3.And(z3.Select(o.live, r), z3.Select(o.key, r) == k),
                                             z3.Select(n.live, r) == (z3.Select(o.pos, r) < n.clen(k))))),
            z3.ForAll([kk], z3.Implies(z3.Select(o.mdom, kk), z3.And(n.L(kk) == o.L(kk),
                      z3.Implies(kk != k, n.clen(kk) == o.clen(kk)),
                      z3.ForAll([i], z3.Implies(z3.And(0 <= i, i < n.clen(kk)), n.cell(kk, i) == o.cell(kk, i)))))))),
    ]


def removeall_ensures(c):
    o, n = V(c, c.old), V(c)
    k = c.a('k')
    kk = z3.Const('kk', Val)
    i = z3.Int('i')
    return [('ll.' + l, f) for l, f in ll_wf(n)] + [
        ('k was in _map', z3.Select(o.mdom, k)),
        ('all pairs of k are removed, every other pair unchanged', killed_key(o, n, k)),
        ('_map loses exactly k; other cell lists untouched', z3.And(
            n.mdom == z3.Store(o.mdom, k, False), n.m.t == o.m.t, n.pos == o.pos,
            z3.ForAll([kk], z3.Implies(z3.And(kk != k, z3.Select(o.mdom, kk)), z3.And(
                n.L(kk) == o.L(kk), n.clen(kk) == o.clen(kk),
                z3.ForAll([i], z3.Implies(z3.And(0 <= i, i < o.clen(kk)), n.cell(kk, i) == o.cell(kk, i)))))))),
    ]


def removeall_raises(c):
    o = V(c, c.old)
    return [('KeyError only for a key not in _map', z3.Not(z3.Select(o.mdom, c.a('k')))),
            ('state unchanged', z3.And(same(c, LL_KEYS + D_KEYS), ghost_same(c)))]


remove_all = Contract('OrderedMultiDict._remove_all', setup=S('k'), requires=lambda c: ll_wf(V(c)),
                      ensures=removeall_ensures, raises={'KeyError': removeall_raises}, modifies=LL_MOD,
                      loops={0: Loop(removeall_inv, heap=list(LL_KEYS), ghost=['live'])},
                      local_types=dict(values=REF(CellList), cell=REF(Cell)), hints=pop_hint)
remove_all.ghost_mod = GHOST

CONTRACTS = {c.qualname: c for c in [insert, remove_all]}
HELPERS = ['OrderedMultiDict._insert', 'OrderedMultiDict._remove_all']


def make_engine(repo):
    from pyvc.engine import Engine
    from .opaque_ext import EXTERNALS
    eng = Engine(repo, FILE, classes=CLASSES, contracts=CONTRACTS, consts=dict(CONSTS), externals=dict(EXTERNALS))
    for c in ALL:
        eng.register_class(c)
    eng.feas_ms = 200
    return eng


# =====================================================================================================================
# _remove: the most recent pair of k
def remove_ensures(c):
    o, n = V(c, c.old), V(c)
    k = c.a('k')
    r, i = z3.Ints('r i')
    kk = z3.Const('kk', Val)
    last = o.cell(k, o.clen(k) - 1)
    return [('ll.' + l, f) for l, f in ll_wf(n)] + [
        ('k was in _map', z3.Select(o.mdom, k)),
        ('exactly the most recent pair of k is removed', z3.And(
            n.root == o.root, n.clock == o.clock, n.live == z3.Store(o.live, last, False), n.t == o.t, n.key == o.key,
            n.val == o.val, n.pos == o.pos)),
        ("_map: k's list loses its last cell (k leaves _map when that was its only one); other lists untouched", z3.And(
            n.m.t == o.m.t, n.mdom == z3.If(o.clen(k) == 1, z3.Store(o.mdom, k, False), o.mdom),
            z3.ForAll([kk], z3.Implies(z3.Select(n.mdom, kk), z3.And(
                n.L(kk) == o.L(kk), n.clen(kk) == z3.If(kk == k, o.clen(kk) - 1, o.clen(kk)),
                z3.ForAll([i], z3.Implies(z3.And(0 <= i, i < n.clen(kk)), n.cell(kk, i) == o.cell(kk, i)))))))),
    ]


remove = Contract('OrderedMultiDict._remove', setup=S('k'), requires=lambda c: ll_wf(V(c)), ensures=remove_ensures,
                  raises={'KeyError': removeall_raises}, modifies=LL_MOD,
                  local_types=dict(values=REF(CellList), cell=REF(Cell)), hints=pop_hint)
remove.ghost_mod = GHOST


# ---- public mutators ---------------------------------------------------------------------------------------------------------------
def full_wf(v):
    return ll_wf(v) + d_wf(v)


def pub_req(c):
    return full_wf(V(c))


def dict_facts(c):
    """true of every real dict (trusted): len >= 0 and len == 0 iff there is no key"""
    v = V(c)
    kf = z3.Const('kf', Val)
    return [('dict facts', z3.And(v.dsize >= 0, v.msize >= 0, (v.dsize == 0) == z3.ForAll([kf], z3.Not(z3.Select(v.ddom, kf)))))]


def post_wf(c):
    return [('wf.' + l, f) for l, f in full_wf(V(c))]


PUB_MOD = lambda c: LL_KEYS + D_KEYS  # noqa: E731


def add_ensures(c):
    o, n = V(c, c.old), V(c)
    return post_wf(c) + [('the pair (k, v) is appended; every other pair is unchanged', appended(o, n, c.a('k'), c.a('v')))]


add = Contract('OrderedMultiDict.add', setup=S('k', 'v'), requires=pub_req, ensures=add_ensures, modifies=PUB_MOD,
               local_types=dict(values=REF(ValList)))


def setitem_ensures(c):
    o, n = V(c, c.old), V(c)
    k, v = c.a('k'), c.a('v')
    r = z3.Int('r')
    new = z3.Select(n.prv, n.root)
    return post_wf(c) + [
        ('all pairs of k are replaced by the single pair (k, v) at the end; every other pair is unchanged', z3.And(
            n.root == o.root, new >= o.alloc, z3.Select(n.live, new), z3.Select(n.t, new) == o.clock, n.clock == o.clock + 1,
            z3.Select(n.key, new) == k, z3.Select(n.val, new) == v,
            z3.ForAll([r], z3.Implies(r < o.alloc, z3.And(
                z3.Select(n.live, r) == z3.And(z3.Select(o.live, r), z3.Select(o.key, r) != k),
                z3.Implies(z3.Select(n.live, r), z3.And(z3.Select(n.t, r) == z3.Select(o.t, r),
                                                        z3.Select(n.key, r) == z3.Select(o.key, r),
                                                        z3.Select(n.val, r) == z3.Select(o.val, r)))))),
            z3.ForAll([r], z3.Implies(z3.And(r >= o.alloc, r != new), z3.Not(z3.Select(n.live, r))))))]


setitem = Contract('OrderedMultiDict.__setitem__', setup=S('k', 'v'), requires=pub_req, ensures=setitem_ensures, modifies=PUB_MOD)


def delitem_ensures(c):
    o, n = V(c, c.old), V(c)
    return post_wf(c) + [('k was present; all its pairs are removed, every other pair unchanged',
                          z3.And(z3.Select(o.ddom, c.a('k')), killed_key(o, n, c.a('k'))))]


def absent_unchanged(c):
    o = V(c, c.old)
    return [('KeyError only for an absent key', z3.Not(z3.Select(o.ddom, c.a('k')))),
            ('state unchanged', z3.And(same(c, LL_KEYS + D_KEYS), ghost_same(c)))]


delitem = Contract('OrderedMultiDict.__delitem__', setup=S('k'), requires=pub_req, ensures=delitem_ensures,
                   raises={'KeyError': absent_unchanged}, modifies=PUB_MOD)


def getitem_ensures(c):
    o = V(c, c.old)
    k = c.a('k')
    return [('k present', z3.Select(o.ddom, k)),
            ('returns the value of the most recent pair of k', c.r() == z3.Select(o.val, o.cell(k, o.clen(k) - 1))),
            ('state unchanged', z3.And(same(c, LL_KEYS + D_KEYS), ghost_same(c)))]


getitem = Contract('OrderedMultiDict.__getitem__', setup=S('k'), requires=pub_req, ensures=getitem_ensures,
                   raises={'KeyError': absent_unchanged}, modifies=lambda c: [],
                   returns=lambda c: SVal(c.st.fresh.const('ret', Val)))


def get_ensures(c):
    o = V(c, c.old)
    k = c.a('k')
    present = z3.Select(o.ddom, k)
    return [('most recent value of k, or the default', c.r() == z3.If(present, z3.Select(o.val, o.cell(k, o.clen(k) - 1)), c.a('default'))),
            ('the dictionary is unchanged', z3.And(same(c, LL_KEYS + [('OrderedMultiDict', 'dom'), ('OrderedMultiDict', 'val'),
                                                                      ('OrderedMultiDict', 'size')]), ghost_same(c)))]


get = Contract('OrderedMultiDict.get', setup=S('k', 'default'), requires=pub_req, ensures=get_ensures, modifies=lambda c: [])


def getlist_ensures(c):
    o, n = V(c, c.old), V(c)
    k = c.a('k')
    present = z3.Select(o.ddom, k)
    i = z3.Int('i')
    res = c.result
    out = [('the dictionary is unchanged', z3.And(same(c, LL_KEYS + [('OrderedMultiDict', 'dom'), ('OrderedMultiDict', 'val'),
                                                                     ('OrderedMultiDict', 'size')]), ghost_same(c)))]
    if isinstance(res, SRef):
        rl, re_ = c.f(res, 'len'), c.f(res, 'elems')
        out.append(('present: a fresh list (not the internal one) holding all values of k in insertion order',
                    z3.Implies(present, z3.And(res.t >= o.alloc, rl == o.clen(k), z3.ForAll([i], z3.Implies(
                        z3.And(0 <= i, i < rl), z3.Select(re_, i) == z3.Select(o.val, o.cell(k, i))))))))
        out.append(('absent: an empty fresh list', z3.Implies(z3.Not(present), z3.And(res.t >= o.alloc, rl == 0))))
    else:
        out.append(('a default is returned only for an absent key', z3.Not(present)))
    return out


def setup_getlist(eng, st, variant=None):
    d = S('k')(eng, st)
    d['default'] = SVal(MISSING) if variant == 'nodefault' else SVal(z3.Const('arg_default', Val))
    return d


getlist = Contract('OrderedMultiDict.getlist', setup=setup_getlist, requires=lambda c: pub_req(c) + (
    [('a default was given', c.a('default') != MISSING)] if c.eng.variant == 'default' else []),
    ensures=getlist_ensures, modifies=lambda c: [('OValList', 'elems'), ('OValList', 'len')], variants=['nodefault', 'default'])


def popall_ensures(c):
    o, n = V(c, c.old), V(c)
    k = c.a('k')
    present = z3.Select(o.ddom, k)
    i = z3.Int('i')
    res = c.result
    out = post_wf(c)
    if isinstance(res, SRef):
        rl, re_ = c.f(res, 'len'), c.f(res, 'elems')
        out += [('key present: all its pairs are removed, every other pair unchanged', z3.And(present, killed_key(o, n, k))),
                ('returns all values of k in insertion order', z3.And(rl == o.clen(k), z3.ForAll([i], z3.Implies(
                    z3.And(0 <= i, i < rl), z3.Select(re_, i) == z3.Select(o.val, o.cell(k, i))))))]
    else:
        out += [('default only for an absent key; nothing changes', z3.And(z3.Not(present), c.r() == c.a('default'),
                                                                          c.a('default') != MISSING, killed_key(o, n, k)))]
    return out


popall = Contract('OrderedMultiDict.popall', setup=S('k', 'default'), requires=pub_req, ensures=popall_ensures,
                  raises={'KeyError': lambda c: absent_unchanged(c) + [('no default given', c.a('default') == MISSING)]},
                  modifies=PUB_MOD, local_types=dict())


def clear_ghost_exit(c, outcome):
    return dict(live=z3.K(z3.IntSort(), z3.BoolVal(False)))


def clear_ensures(c):
    n = V(c)
    r = z3.Int('r')
    kk = z3.Const('kk', Val)
    return post_wf(c) + [('no pair is left', z3.And(z3.ForAll([r], z3.Not(z3.Select(n.live, r))),
                                                     z3.ForAll([kk], z3.Not(z3.Select(n.ddom, kk))), n.dsize == 0))]


clear = Contract('OrderedMultiDict.clear', setup=S(), requires=pub_req, ensures=clear_ensures, modifies=PUB_MOD)
clear.ghost_exit = clear_ghost_exit
clear_ll = Contract('OrderedMultiDict._clear_ll', inline=True, local_types=dict(_map=REF(MapD)))
for _c in [add, setitem, delitem, popall, clear]:
    _c.ghost_mod = GHOST

for _c in [remove, add, setitem, delitem, getitem, get, getlist, popall, clear, clear_ll]:
    CONTRACTS[_c.qualname] = _c
HELPERS = ['OrderedMultiDict._insert', 'OrderedMultiDict._remove_all', 'OrderedMultiDict._remove']
PUBLIC = [('OrderedMultiDict.add', [None]), ('OrderedMultiDict.__setitem__', [None]), ('OrderedMultiDict.__delitem__', [None]),
          ('OrderedMultiDict.__getitem__', [None]), ('OrderedMultiDict.get', [None]),
          ('OrderedMultiDict.getlist', ['nodefault', 'default']), ('OrderedMultiDict.popall', [None]),
          ('OrderedMultiDict.clear', [None])]


# =====================================================================================================================
# pop / poplast / setdefault / popitem (built on the contracts above)
popall.returns = lambda c: SRef(ValList, c.st.fresh.const('popped_values', z3.IntSort()))   # called without default only


def last_val(o, k):
    return z3.Select(o.val, o.cell(k, o.clen(k) - 1))


def pop_ensures(c):
    o, n = V(c, c.old), V(c)
    k = c.a('k')
    present = z3.Select(o.ddom, k)
    return post_wf(c) + [
        ('present: the most recent value of k is returned and all pairs of k are removed; every other pair unchanged',
         z3.Implies(present, z3.And(c.r() == last_val(o, k), killed_key(o, n, k)))),
        ('absent: the default is returned and nothing changes',
         z3.Implies(z3.Not(present), z3.And(c.a('default') != MISSING, c.r() == c.a('default'), killed_key(o, n, k))))]


pop = Contract('OrderedMultiDict.pop', setup=S('k', 'default'), requires=pub_req, ensures=pop_ensures,
               raises={'KeyError': lambda c: absent_unchanged(c) + [('no default given', c.a('default') == MISSING)]},
               modifies=PUB_MOD, returns=lambda c: SVal(c.st.fresh.const('ret', Val)))


def setup_poplast(eng, st, variant=None):
    d = S('default')(eng, st)
    d['k'] = SVal(MISSING) if variant == 'nokey' else SVal(z3.Const('arg_k', Val))
    return d


def poplast_target(c, o):
    """the key whose most recent pair goes: the given one, or the key of the globally most recent pair"""
    if c.eng.variant == 'nokey':
        return z3.Select(o.key, z3.Select(o.prv, o.root))
    return c.a('k')


def poplast_requires(c):
    out = pub_req(c)
    if c.eng.variant != 'nokey':
        out.append(('a key was given', c.a('k') != MISSING))
    return out


def poplast_ensures(c):
    o, n = V(c, c.old), V(c)
    k = poplast_target(c, o)
    r = z3.Int('r')
    nonempty = o.dsize != 0 if c.eng.variant == 'nokey' else z3.Select(o.ddom, k)
    last = o.cell(k, o.clen(k) - 1)
    removed = z3.And(c.r() == z3.Select(o.val, last), n.root == o.root, n.clock == o.clock,
                     n.live == z3.Store(o.live, last, False), n.t == o.t, n.key == o.key, n.val == o.val)
    out = post_wf(c) + [
        ('exactly the most recent pair of the key is removed and its value returned', z3.Implies(nonempty, removed)),
        ('nothing to remove: the default is returned, nothing changes', z3.Implies(z3.Not(nonempty), z3.And(
            c.a('default') != MISSING, c.r() == c.a('default'), n.live == o.live, n.key == o.key, n.val == o.val, n.t == o.t)))]
    if c.eng.variant == 'nokey':
        out.append(('without a key it is the globally most recent pair',
                    z3.Implies(nonempty, z3.And(z3.Select(o.live, z3.Select(o.prv, o.root)), last == z3.Select(o.prv, o.root)))))
    return out


def poplast_raises(c):
    o = V(c, c.old)
    k = poplast_target(c, o)
    nonempty = o.dsize != 0 if c.eng.variant == 'nokey' else z3.Select(o.ddom, k)
    return [('KeyError only when there is nothing to remove and no default', z3.And(z3.Not(nonempty), c.a('default') == MISSING)),
            ('state unchanged', z3.And(same(c, LL_KEYS + D_KEYS), ghost_same(c)))]


poplast = Contract('OrderedMultiDict.poplast', setup=setup_poplast, requires=poplast_requires, ensures=poplast_ensures,
                   raises={'KeyError': poplast_raises}, modifies=PUB_MOD, variants=['key', 'nokey'],
                   local_types=dict(values=REF(ValList)))


def setup_setdefault(eng, st, variant=None):
    d = S('k')(eng, st)
    d['default'] = SVal(MISSING) if variant == 'nodefault' else SVal(z3.Const('arg_default', Val))
    return d


def setdefault_ensures(c):
    o, n = V(c, c.old), V(c)
    k = c.a('k')
    dv = NONE if c.eng.variant == 'nodefault' else c.a('default')
    present = z3.Select(o.ddom, k)
    return post_wf(c) + [
        ('present: most recent value returned, pairs unchanged', z3.Implies(present, z3.And(
            c.r() == last_val(o, k), n.live == o.live, n.key == o.key, n.val == o.val, n.t == o.t))),
        ('absent: default returned', z3.Implies(z3.Not(present), c.r() == dv))] + [
        ('absent: the pair (k, default) is appended (%d)' % j, z3.Implies(z3.Not(present), f))
        for j, f in enumerate(appended(o, n, k, dv).children())]


setdefault = Contract('OrderedMultiDict.setdefault', setup=setup_setdefault, requires=lambda c: pub_req(c) + (
    [('a default was given', c.a('default') != MISSING)] if c.eng.variant == 'default' else []),
    ensures=setdefault_ensures, modifies=PUB_MOD, variants=['nodefault', 'default'])
setdefault.reveal = {'is appended (%d)' % j: ['O0', 'O6', 'M1', 'S1'] for j in range(12)}


def popitem_ensures(c):
    o, n = V(c, c.old), V(c)
    res = c.result
    lastcell = z3.Select(o.prv, o.root)
    k = z3.Select(o.key, lastcell)
    return post_wf(c) + [
        ('returns (key of the most recent pair, its value); all pairs of that key are removed, the others unchanged',
         z3.And(o.dsize != 0, res.items[0].t == k, res.items[1].t == z3.Select(o.val, lastcell), killed_key(o, n, k)))]


def popitem_raises(c):
    o = V(c, c.old)
    return [('KeyError only when empty', o.dsize == 0), ('state unchanged', z3.And(same(c, LL_KEYS + D_KEYS), ghost_same(c)))]


popitem = Contract('OrderedMultiDict.popitem', setup=S(), requires=pub_req, ensures=popitem_ensures,
                   raises={'KeyError': popitem_raises}, modifies=PUB_MOD)
for _c in [pop, poplast, setdefault, popitem]:
    _c.ghost_mod = GHOST
    CONTRACTS[_c.qualname] = _c
for _c in CONTRACTS.values():
    if _c.qualname not in ('OrderedMultiDict._insert', 'OrderedMultiDict._remove', 'OrderedMultiDict._remove_all',
                           'OrderedMultiDict._clear_ll'):
        _c.facts = dict_facts
PUBLIC += [('OrderedMultiDict.pop', [None]), ('OrderedMultiDict.poplast', ['key', 'nokey']),
           ('OrderedMultiDict.setdefault', ['nodefault', 'default']), ('OrderedMultiDict.popitem', [None])]


# =====================================================================================================================
# ordered readers (multi=True): walking the ring yields the live cells in stamp order = the pair list
ValArr = z3.ArraySort(z3.IntSort(), Val)


def setup_iter(eng, st, variant=None):
    d = S()(eng, st)
    d['multi'] = SBool(True)
    st.ghost['out_n'] = z3.IntVal(0)
    st.ghost['out_0'] = z3.Const('outk_init', ValArr)
    st.ghost['out_1'] = z3.Const('outv_init', ValArr)
    st.ghost['outcell'] = z3.Const('outcell_init', IntArr)
    return d


def iter_hint(c, event, data):
    if event != 'yield':
        return []
    return [('ghost', 'outcell', z3.Store(c.g('outcell'), c.g('out_n'), c.L('curr')))]


def walk_facts(c, v, with_vals):
    n, oc = c.g('out_n'), c.g('outcell')
    j, r = z3.Ints('j r')
    ocj = z3.Select(oc, j)
    item = z3.And(z3.Select(v.live, ocj), z3.Select(c.g('out_0'), j) == z3.Select(v.key, ocj))
    if with_vals:
        item = z3.And(item, z3.Select(c.g('out_1'), j) == z3.Select(v.val, ocj))
    return [
        ('every yielded item is the (key, value) of a live cell', z3.ForAll([j], z3.Implies(z3.And(0 <= j, j < n), item))),
        ('the walk starts at the oldest cell and follows NEXT', z3.And(
            n >= 0, z3.Implies(n >= 1, z3.Select(oc, 0) == z3.Select(v.nxt, v.root)),
            z3.ForAll([j], z3.Implies(z3.And(1 <= j, j < n), ocj == z3.Select(v.nxt, z3.Select(oc, j - 1)))))),
        ('items come out in insertion (stamp) order', z3.ForAll([j], z3.Implies(
            z3.And(1 <= j, j < n), z3.Select(v.t, z3.Select(oc, j - 1)) < z3.Select(v.t, ocj)))),
        ('no live cell lies strictly between two consecutive items', z3.ForAll([j, r], z3.Implies(
            z3.And(1 <= j, j < n, z3.Select(v.live, r)),
            z3.Not(z3.And(z3.Select(v.t, z3.Select(oc, j - 1)) < z3.Select(v.t, r), z3.Select(v.t, r) < z3.Select(v.t, ocj)))))),
    ]


def iter_inv_for(with_vals):
    def inv(c):
        o, v = V(c, c.old), V(c)
        n, oc = c.g('out_n'), c.g('outcell')
        curr = c.Lsv('curr')
        return [('nothing is modified', z3.And(same(c, LL_KEYS + D_KEYS), v.live == o.live, v.t == o.t)),
                ('root local', c.Lsv('root').t == v.root),
                ('curr is the successor of the last item', z3.And(
                    v.node(curr.t), curr.t == z3.If(n == 0, z3.Select(v.nxt, v.root), z3.Select(v.nxt, z3.Select(oc, n - 1)))))
                ] + [('ll.' + l, f) for l, f in ll_wf(v)] + walk_facts(c, v, with_vals)
    return inv


def iter_ensures_for(with_vals):
    def ens(c):
        o, v = V(c, c.old), V(c)
        n, oc = c.g('out_n'), c.g('outcell')
        r = z3.Int('r')
        return [('nothing is modified', z3.And(same(c, LL_KEYS + D_KEYS), v.live == o.live, v.t == o.t))] + \
            walk_facts(c, v, with_vals) + [
            ('the walk ends at the newest cell; with no item there is no pair at all', z3.And(
                z3.Implies(n >= 1, z3.Select(oc, n - 1) == z3.Select(v.prv, v.root)),
                z3.Implies(n == 0, z3.ForAll([r], z3.Not(z3.Select(v.live, r)))))),
            ('every live cell lies between the first and the last item (with the no-gap clause: every pair is yielded exactly once)',
             z3.ForAll([r], z3.Implies(z3.Select(v.live, r), z3.And(
                 n >= 1, z3.Select(v.t, z3.Select(oc, 0)) <= z3.Select(v.t, r),
                 z3.Select(v.t, r) <= z3.Select(v.t, z3.Select(oc, n - 1))))))]
    return ens


iteritems = Contract('OrderedMultiDict.iteritems', setup=setup_iter, requires=pub_req, ensures=iter_ensures_for(True),
                     modifies=lambda c: [], loops={0: Loop(iter_inv_for(True), heap=[], ghost=['outcell'])},
                     local_types=dict(), generator=True, hints=iter_hint, variants=['multi'])
iterkeys = Contract('OrderedMultiDict.iterkeys', setup=setup_iter, requires=pub_req, ensures=iter_ensures_for(False),
                    modifies=lambda c: [], loops={0: Loop(iter_inv_for(False), heap=[], ghost=['outcell'])},
                    local_types=dict(), generator=True, hints=iter_hint, variants=['multi'])


# ---- iterkeys(multi=False): each key once, at the position of its first pair ------------------------------------------------------
# Ghost: outcell[j] = the cell whose key was the j-th yielded item, outidx = its inverse on first cells.
# "first cell of a key" = ghost position 0 in the key's cell list (M1/M2/M4: the cell of the key with the smallest stamp).
YSet = HeapClass('OYieldedSet', 'set', k=VAL)
ALL.append(YSet)


def setup_iter_single(eng, st, variant=None):
    d = setup_iter(eng, st, variant)
    d['multi'] = SBool(False)
    st.ghost['outidx'] = z3.Const('outidx_init', IntArr)
    return d


def iter_hint_single(c, event, data):
    if event != 'yield':
        return []
    return [('ghost', 'outidx', z3.Store(c.g('outidx'), c.L('curr'), c.g('out_n'))),
            ('ghost', 'outcell', z3.Store(c.g('outcell'), c.g('out_n'), c.L('curr')))]


def single_facts(c, v, horizon):
    """what has been yielded, given that exactly the cells with stamp < horizon have been walked"""
    n, oc, oi = c.g('out_n'), c.g('outcell'), c.g('outidx')
    j, j2, r = z3.Ints('j j2 r')
    ocj = z3.Select(oc, j)
    return [
        ('every yielded item is the key of a first cell already walked', z3.ForAll([j], z3.Implies(z3.And(0 <= j, j < n), z3.And(
            z3.Select(v.live, ocj), z3.Select(v.pos, ocj) == 0, z3.Select(c.g('out_0'), j) == z3.Select(v.key, ocj),
            z3.Select(v.t, ocj) < horizon, z3.Select(oi, ocj) == j)))),
        ('items come out in insertion (stamp) order of the first pairs', z3.And(n >= 0, z3.ForAll([j, j2], z3.Implies(
            z3.And(0 <= j, j < j2, j2 < n), z3.Select(v.t, ocj) < z3.Select(v.t, z3.Select(oc, j2)))))),
        ('every first cell already walked has been yielded', z3.ForAll([r], z3.Implies(
            z3.And(z3.Select(v.live, r), z3.Select(v.pos, r) == 0, z3.Select(v.t, r) < horizon),
            z3.And(0 <= z3.Select(oi, r), z3.Select(oi, r) < n, z3.Select(oc, z3.Select(oi, r)) == r)))),
    ]


def iter_inv_single(c):
    o, v = V(c, c.old), V(c)
    curr = c.Lsv('curr')
    ys = c.Lsv('yielded')
    k = z3.Const('k', Val)
    horizon = z3.If(curr.t == v.root, v.clock, z3.Select(v.t, curr.t))
    ydom = z3.Select(c.arr(YSet, 'dom'), ys.t)
    return [('nothing is modified', z3.And(same(c, LL_KEYS + D_KEYS), v.live == o.live, v.t == o.t, v.pos == o.pos)),
            ('root local; curr is a node of the ring', z3.And(c.Lsv('root').t == v.root, v.node(curr.t))),
            ('the local set is the one allocated by this call', z3.And(ys.t >= z3.Int('alloc0'), ys.t == c.x['loop_entry'].locals['yielded'].t)),
            ('yielded = the keys whose first cell has been walked', z3.ForAll([k], z3.Select(ydom, k) == z3.And(
                z3.Select(v.mdom, k), z3.Select(v.t, v.cell(k, 0)) < horizon))),
            ] + [('ll.' + l, f) for l, f in ll_wf(v)] + single_facts(c, v, horizon)


def iter_ensures_single(c):
    o, v = V(c, c.old), V(c)
    return [('nothing is modified', z3.And(same(c, LL_KEYS + D_KEYS), v.live == o.live, v.t == o.t, v.pos == o.pos))] + \
        single_facts(c, v, v.clock)


def _is_single(c):
    m = c.args.get('multi') if hasattr(c, 'args') else None
    if isinstance(m, SBool):
        t = z3.simplify(m.t)
        if z3.is_false(t):
            return True
        if z3.is_true(t):
            return False
    return c.eng.variant == 'single'


def _by_variant(single, multi):
    return lambda c, *a: (single if _is_single(c) else multi)(c, *a)


iterkeys.setup = lambda eng, st, variant=None: (setup_iter_single if variant == 'single' else setup_iter)(eng, st, variant)
iterkeys.ensures = _by_variant(iter_ensures_single, iter_ensures_for(False))
iterkeys.hints = _by_variant(iter_hint_single, iter_hint)
iterkeys.loops = {0: Loop(iter_inv_for(False), heap=[], ghost=['outcell']),
                  1: Loop(iter_inv_single, heap=[('OYieldedSet', 'dom'), ('OYieldedSet', 'size')], ghost=['outcell', 'outidx'])}
iterkeys.variants = ['multi', 'single']
iterkeys.yields = 1


def m4_all_pairs(c):
    """M4 for ALL index pairs (not only neighbours): follows from M4 by induction on the distance; the base and the step of that
    induction are discharged as two standalone lemma obligations (deductive/C01.py), the induction principle is the trusted step"""
    v = V(c)
    k = z3.Const('k', Val)
    i, j = z3.Ints('i j')
    return [('M4+ stamps increase along a cell list (all pairs)', z3.ForAll([k, i, j], z3.Implies(
        z3.And(z3.Select(v.mdom, k), 0 <= i, i < j, j < v.clen(k)),
        z3.Select(v.t, v.cell(k, i)) < z3.Select(v.t, v.cell(k, j)))))]


def m4_induction_lemmas():
    """[(name, closed formula)]: base and step of  (forall i. f(i) < f(i+1))  =>  (forall i < j. f(i) < f(j))  on [0, n)"""
    f = z3.Function('f_m4', z3.IntSort(), z3.IntSort())
    n, i, i0, j0 = z3.Ints('n_m4 i_m4 i0_m4 j0_m4')
    mono = z3.ForAll([i], z3.Implies(z3.And(0 <= i, i + 1 < n), f(i) < f(i + 1)))
    base = z3.Implies(z3.And(mono, 0 <= i0, i0 + 1 < n), f(i0) < f(i0 + 1))
    step = z3.Implies(z3.And(mono, 0 <= i0, i0 < j0, j0 + 1 < n, f(i0) < f(j0)), f(i0) < f(j0 + 1))
    return [('M4+ induction base (distance 1)', base), ('M4+ induction step (distance d -> d+1)', step)]


iterkeys.facts = lambda c: m4_all_pairs(c) if _is_single(c) else []
_ring = ['fact:M4+ stamps increase along a cell list (all pairs)', 'll.O0', 'll.O1', 'll.O2', 'll.O3', 'll.O4', 'll.O5', 'll.O6', 'll.M1', 'll.M2', 'll.M3', 'll.M4',
         'nothing is modified', 'root local; curr is a node of the ring', 'the local set is the one allocated by this call']
iterkeys.reveal = {
    'preserves: yielded = the keys whose first cell has been walked': _ring + ['yielded = the keys whose first cell has been walked'],
    'preserves: every yielded item is the key of a first cell already walked':
        _ring + ['every yielded item is the key of a first cell already walked', 'yielded = the keys whose first cell has been walked'],
}
iterkeys.local_types = dict(yielded=REF(YSet))
iterkeys.modifies = lambda c: [('OYieldedSet', 'dom'), ('OYieldedSet', 'size')]


# ---- iteritems(multi=False): (key, most recent value) for each key, in the order of iterkeys() -----------------------------------
# iterkeys() is called by contract: its yielded keys and ghost cells are readable as $gen:iterkeys:*
def G(c, name):
    return c.g('$gen:iterkeys:' + name)


def items_single_facts(c, v, upto):
    n, o0, o1 = c.g('out_n'), c.g('out_0'), c.g('out_1')
    m = z3.Int('m')
    kk = z3.Select(G(c, 'out_0'), m)
    return [('item m is (m-th key of iterkeys(), the most recent value of that key)', z3.And(n == upto, z3.ForAll([m], z3.Implies(
        z3.And(0 <= m, m < n), z3.And(z3.Select(o0, m) == kk, z3.Select(v.mdom, kk),
                                      z3.Select(o1, m) == v.value(kk, v.vlen(kk) - 1))))))]


def iter_inv_items_single(c):
    o, v = V(c, c.old), V(c)
    return [('nothing is modified', z3.And(same(c, LL_KEYS + D_KEYS), v.live == o.live, v.t == o.t, v.pos == o.pos)),
            ] + items_single_facts(c, v, c.x['i'])


def iter_ensures_items_single(c):
    o, v = V(c, c.old), V(c)
    gk = dict(out_n=G(c, 'out_n'), out_0=G(c, 'out_0'), outcell=G(c, 'outcell'), outidx=G(c, 'outidx'))
    # the keys are exactly what iterkeys(multi=False) yields: restated over its ghost arrays
    st2 = c.st.copy()
    st2.ghost.update(gk)
    from pyvc.contract import Ctx
    ck = Ctx(c.eng, st2, c.old, c.args)
    return [('nothing is modified', z3.And(same(c, LL_KEYS + D_KEYS), v.live == o.live, v.t == o.t, v.pos == o.pos))] + \
        [('keys: ' + l, f) for l, f in single_facts(ck, v, v.clock)] + items_single_facts(c, v, G(c, 'out_n'))


iteritems.setup = lambda eng, st, variant=None: (setup_iter_single if variant == 'single' else setup_iter)(eng, st, variant)
iteritems.ensures = _by_variant(iter_ensures_items_single, iter_ensures_for(True))
iteritems.loops = {0: Loop(iter_inv_for(True), heap=[], ghost=['outcell']), 1: Loop(iter_inv_items_single, heap=[], ghost=[])}
iteritems.variants = ['multi', 'single']
iteritems.modifies = lambda c: [('OYieldedSet', 'dom'), ('OYieldedSet', 'size')]
iteritems.hints = lambda c, e, d: (iter_hint(c, e, d) if not _is_single(c) else [])
for _c in [iteritems, iterkeys]:
    CONTRACTS[_c.qualname] = _c
PUBLIC += [('OrderedMultiDict.iteritems', ['multi', 'single']), ('OrderedMultiDict.iterkeys', ['multi', 'single'])]
iteritems.yields = 2
_KEYGEN = {'out_n': z3.IntVal(0), 'out_0': z3.Const('x', ValArr), 'out_1': z3.Const('x', ValArr), 'outcell': z3.Const('x', IntArr),
           'outidx': z3.Const('x', IntArr)}
iteritems.extra_ghosts = {'$gen:iterkeys:' + g: t for g, t in _KEYGEN.items()}


# ---- itervalues / keys / values: projections of the generators above (both values of multi) ----------------------------------------
def setup_vals(eng, st, variant=None):
    d = setup_iter_single(eng, st, variant) if variant == 'single' else setup_iter(eng, st, variant)
    d['multi'] = SBool(variant != 'single')
    eng.list_class = ValList
    return d


def GI(c, name):
    return c.g('$gen:iteritems:' + name)


def vals_facts(c, upto):
    n, o0 = c.g('out_n'), c.g('out_0')
    m = z3.Int('m')
    return [('value m is the value of the m-th item of iteritems(multi)', z3.And(n == upto, z3.ForAll([m], z3.Implies(
        z3.And(0 <= m, m < n), z3.Select(o0, m) == z3.Select(GI(c, 'out_1'), m)))))]


def unchanged(c):
    o, v = V(c, c.old), V(c)
    return ('nothing is modified', z3.And(same(c, LL_KEYS + D_KEYS), v.live == o.live, v.t == o.t, v.pos == o.pos))


def items_post_over(c, ghosts):
    """the postcondition of iteritems(multi) restated over the ghost arrays of the call made by this function"""
    from pyvc.contract import Ctx
    st2 = c.st.copy()
    for g, t in list(c.st.ghost.items()):
        if g.startswith(ghosts):
            st2.ghost[g[len(ghosts):]] = t
    ck = Ctx(c.eng, st2, c.old, c.args)
    return [('items: ' + l, f) for l, f in iteritems.ensures(ck) if l != 'nothing is modified']


itervalues = Contract('OrderedMultiDict.itervalues', setup=setup_vals, requires=pub_req,
                      ensures=lambda c: [unchanged(c)] + items_post_over(c, '$gen:iteritems:') + vals_facts(c, GI(c, 'out_n')),
                      modifies=lambda c: [('OYieldedSet', 'dom'), ('OYieldedSet', 'size')],
                      loops={0: Loop(lambda c: [unchanged(c)] + vals_facts(c, c.x['i']), heap=[], ghost=[])},
                      generator=True, variants=['multi', 'single'])
itervalues.yields = 1
itervalues.extra_ghosts = {'$gen:iteritems:' + g: t for g, t in list(_KEYGEN.items()) + list(iteritems.extra_ghosts.items())}


def list_of(c, gen):
    r = c.result
    if not isinstance(r, SRef):
        return [('returns a list', z3.BoolVal(False))]
    m = z3.Int('m')
    n = c.g('$gen:%s:out_n' % gen)
    return [('the list holds what %s(multi) yields, in order' % gen, z3.And(
        r.t >= c.old.alloc, c.f(r, 'len') == n,
        z3.ForAll([m], z3.Implies(z3.And(0 <= m, m < n), z3.Select(c.f(r, 'elems'), m) == z3.Select(c.g('$gen:%s:out_0' % gen), m)))))]


def keys_post_over(c):
    from pyvc.contract import Ctx
    st2 = c.st.copy()
    for g, t in list(c.st.ghost.items()):
        if g.startswith('$gen:iterkeys:'):
            st2.ghost[g[len('$gen:iterkeys:'):]] = t
    ck = Ctx(c.eng, st2, c.old, c.args)
    return [('keys: ' + l, f) for l, f in iterkeys.ensures(ck) if l != 'nothing is modified']


LIST_MOD = lambda c: [('OYieldedSet', 'dom'), ('OYieldedSet', 'size'), ('OValList', 'elems'), ('OValList', 'len')]  # noqa: E731
keys_c = Contract('OrderedMultiDict.keys', setup=setup_vals, requires=pub_req,
                  ensures=lambda c: [unchanged_but_lists(c)] + keys_post_over(c) + list_of(c, 'iterkeys'), modifies=LIST_MOD,
                  variants=['multi', 'single'])
def restate(c, con, name):
    """the postcondition of generator `con`, called by this function, over the ghost arrays of that call"""
    from pyvc.contract import Ctx
    prefix = '$gen:%s:' % name
    st2 = c.st.copy()
    for g, t in list(c.st.ghost.items()):
        if g.startswith(prefix):
            st2.ghost[g[len(prefix):]] = t
    ck = Ctx(c.eng, st2, c.old, c.args)
    return [('%s: %s' % (name, l), f) for l, f in con.ensures(ck) if not l.startswith('nothing')]


values_c = Contract('OrderedMultiDict.values', setup=setup_vals, requires=pub_req,
                    ensures=lambda c: [unchanged_but_lists(c)] + restate(c, itervalues, 'itervalues') + list_of(c, 'itervalues'),
                    modifies=LIST_MOD, variants=['multi', 'single'])


def unchanged_but_lists(c):
    """a fresh result list is allocated: the value lists of the dict are untouched (they exist below the old allocation mark)"""
    o, v = V(c, c.old), V(c)
    k = z3.Const('k', Val)
    i = z3.Int('i')
    return ('nothing of the multidict is modified', z3.And(
        same(c, LL_KEYS + [('OrderedMultiDict', 'dom'), ('OrderedMultiDict', 'val'), ('OrderedMultiDict', 'size')]),
        v.live == o.live, v.t == o.t, v.pos == o.pos,
        z3.ForAll([k], z3.Implies(z3.Select(o.ddom, k), z3.And(v.vlen(k) == o.vlen(k), z3.ForAll([i], z3.Implies(
            z3.And(0 <= i, i < o.vlen(k)), v.value(k, i) == o.value(k, i))))))))


Pair = HeapClass('OPair', 'record', ncells=2)
Pair.fields.update({'0': VAL, '1': VAL})
PairList = HeapClass('OPairList', 'list', e=REF(Pair))
ALL += [Pair, PairList]


def setup_items(eng, st, variant=None):
    d = setup_vals(eng, st, variant)
    eng.pair_list_class = PairList
    return d


def items_list(c):
    r = c.result
    if not isinstance(r, SRef):
        return [('returns a list', z3.BoolVal(False))]
    m = z3.Int('m')
    n = c.g('$gen:iteritems:out_n')
    el = c.f(r, 'elems')
    return [('the list holds the (key, value) pairs iteritems(multi) yields, in order', z3.And(
        r.t >= c.old.alloc, c.f(r, 'len') == n,
        z3.ForAll([m], z3.Implies(z3.And(0 <= m, m < n), z3.And(
            z3.Select(c.arr(Pair, '0'), z3.Select(el, m)) == z3.Select(c.g('$gen:iteritems:out_0'), m),
            z3.Select(c.arr(Pair, '1'), z3.Select(el, m)) == z3.Select(c.g('$gen:iteritems:out_1'), m))))))]


items_c = Contract('OrderedMultiDict.items', setup=setup_items, requires=pub_req,
                   ensures=lambda c: [unchanged_but_lists(c)] + restate(c, iteritems, 'iteritems') + items_list(c),
                   modifies=lambda c: LIST_MOD(c) + [('OPairList', 'elems'), ('OPairList', 'len'), ('OPair', '0'), ('OPair', '1')],
                   variants=['multi', 'single'])
for _c in [itervalues, keys_c, values_c, items_c]:
    CONTRACTS[_c.qualname] = _c
PUBLIC.append(('OrderedMultiDict.items', ['multi', 'single']))
PUBLIC += [('OrderedMultiDict.itervalues', ['multi', 'single']), ('OrderedMultiDict.keys', ['multi', 'single']),
           ('OrderedMultiDict.values', ['multi', 'single'])]


# =====================================================================================================================
# bulk mutators over arbitrary (opaque) arguments: they preserve the invariant and act only through add / []= / del,
# whose contracts fix the effect of every single step on the pair list
SeenSet = HeapClass('OSeenSet', 'set', k=VAL)
ALL.append(SeenSet)
BULK_HEAP = LL_KEYS + D_KEYS + [('OSeenSet', 'dom'), ('OSeenSet', 'size')]


def bulk_setup(*names):
    def setup(eng, st, variant=None):
        d = S()(eng, st)
        for n in names:
            d[n] = SVal(z3.Const('arg_' + n, Val))
        return d
    return setup


def bulk_inv(c):
    return [('wf.' + l, f) for l, f in full_wf(V(c))] + dict_facts(c)


def bulk_ensures(c):
    return post_wf(c)


BULK_LOOP = Loop(bulk_inv, heap=BULK_HEAP, ghost=GHOST)
update = Contract('OrderedMultiDict.update', setup=bulk_setup('E', 'F'), requires=pub_req, ensures=bulk_ensures,
                  modifies=lambda c: list(BULK_HEAP), local_types=dict(seen=REF(SeenSet)),
                  loops={'for k in E': BULK_LOOP, 'for k, v in E': BULK_LOOP, 'for k in F': BULK_LOOP})
update_extend = Contract('OrderedMultiDict.update_extend', setup=bulk_setup('E', 'F'), requires=pub_req, ensures=bulk_ensures,
                         modifies=lambda c: list(BULK_HEAP),
                         loops={'for k, v in iterator': BULK_LOOP, 'for k in F': BULK_LOOP})


def addlist_ensures(c):
    o, n = V(c, c.old), V(c)
    k = c.a('k')
    r = z3.Int('r')
    return post_wf(c) + [('every old pair is unchanged and every new pair has key k', z3.And(
        n.root == o.root,
        z3.ForAll([r], z3.Implies(r < o.alloc, z3.And(
            z3.Select(n.live, r) == z3.Select(o.live, r),
            z3.Implies(z3.Select(o.live, r), z3.And(z3.Select(n.t, r) == z3.Select(o.t, r), z3.Select(n.key, r) == z3.Select(o.key, r),
                                                    z3.Select(n.val, r) == z3.Select(o.val, r)))))),
        z3.ForAll([r], z3.Implies(z3.And(r >= o.alloc, z3.Select(n.live, r)), z3.Select(n.key, r) == k))))]


def addlist_inv(c):
    o, n = V(c, c.old), V(c)
    e = c.x['loop_entry']
    ve = V(c, e)
    k = c.a('k')
    i = c.x['i']
    r = z3.Int('r')
    values = c.Lsv('values')
    jj = z3.Int('jj')
    base = z3.If(z3.Select(o.ddom, k), o.vlen(k), 0)
    return [('ll.' + l, f) for l, f in ll_wf(n)] + [
        ('S1 for the other keys', z3.ForAll([z3.Const('ks', Val)], z3.Implies(z3.Const('ks', Val) != k, z3.Select(n.ddom, z3.Const('ks', Val)) == z3.Select(n.mdom, z3.Const('ks', Val))))),
        ('S4', d_wf(n)[3][1]),
        ('values is the value list of k, still at its length before the loop', z3.And(
            z3.Select(n.ddom, k), values.t == n.VL(k), values.t >= 1, values.t < n.alloc, n.vlen(k) == base)),
        ('k has its old cells plus one per value consumed', z3.And(
            z3.Implies(i >= 1, z3.And(z3.Select(n.mdom, k), n.clen(k) == base + i)),
            z3.Implies(i == 0, z3.Select(n.mdom, k) == z3.Select(o.mdom, k)),
            z3.Implies(z3.And(i == 0, z3.Select(o.mdom, k)), n.clen(k) == base))),
        ('value lists of the other keys are in step (S2, S3)', z3.ForAll([z3.Const('kk', Val)], z3.Implies(
            z3.And(z3.Select(n.mdom, z3.Const('kk', Val)), z3.Const('kk', Val) != k), z3.And(
                n.vlen(z3.Const('kk', Val)) == n.clen(z3.Const('kk', Val)), n.VL(z3.Const('kk', Val)) >= 1,
                n.VL(z3.Const('kk', Val)) < n.alloc,
                z3.ForAll([jj], z3.Implies(z3.And(0 <= jj, jj < n.clen(z3.Const('kk', Val))),
                                           n.value(z3.Const('kk', Val), jj) == z3.Select(n.val, n.cell(z3.Const('kk', Val), jj)))))))),
        ("k's old values are in step, the new cells hold the consumed values in order", z3.And(
            z3.ForAll([jj], z3.Implies(z3.And(0 <= jj, jj < base), n.value(k, jj) == z3.Select(n.val, n.cell(k, jj)))),
            z3.ForAll([jj], z3.Implies(z3.And(0 <= jj, jj < i), z3.Select(n.val, n.cell(k, base + jj)) == c.eng.f_oseq_item(c.L('v'), jj))))),
        ('old pairs unchanged, new pairs have key k', z3.And(
            n.root == o.root,
            z3.ForAll([r], z3.Implies(r < o.alloc, z3.And(
                z3.Select(n.live, r) == z3.Select(o.live, r),
                z3.Implies(z3.Select(o.live, r), z3.And(z3.Select(n.t, r) == z3.Select(o.t, r), z3.Select(n.key, r) == z3.Select(o.key, r),
                                                        z3.Select(n.val, r) == z3.Select(o.val, r)))))),
            z3.ForAll([r], z3.Implies(z3.And(r >= o.alloc, z3.Select(n.live, r)), z3.Select(n.key, r) == k))))]


addlist = Contract('OrderedMultiDict.addlist', setup=bulk_setup('k', 'v'), requires=pub_req, ensures=addlist_ensures,
                   modifies=PUB_MOD, local_types=dict(values=REF(ValList)),
                   loops={'for subv in v': Loop(addlist_inv, heap=LL_KEYS + D_KEYS, ghost=GHOST)})
for _c in [update, update_extend, addlist]:
    _c.ghost_mod = GHOST
    _c.facts = dict_facts
    CONTRACTS[_c.qualname] = _c
PUBLIC += [('OrderedMultiDict.update', [None]), ('OrderedMultiDict.update_extend', [None]), ('OrderedMultiDict.addlist', [None])]
