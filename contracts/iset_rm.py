"""Contracts for IndexedSet.remove / discard (and add / clear again) over the FULL representation invariant (property C11):
the item/slot invariant of contracts/iset_core.py (I1, I2), the sorted-disjoint dead-interval list of contracts/iset.py
(all-pairs form) and the link between them:
  I4  a slot holds _MISSING exactly when a dead interval covers it
  I5  every dead interval ends inside the slot list
  I6  the last slot (if any) is live - what _cull re-establishes after every removal and pop() relies on
Abstract view: the keys of the index map ordered by their slots.  remove(item): the key set loses exactly `item` and the
relative order of all other keys is unchanged; KeyError (state untouched) exactly for a non-member.

_add_dead is used by its contract proved in contracts/iset.py.  _cull is used by an ASSUMED contract (it may rearrange slots
and intervals at will but keeps the full invariant, the key set and the order of the keys): its body - negative indices, slice
deletes, compaction through a generator expression - is outside the verifier's subset and is decided by the bounded layer only."""
import z3

from pyvc.values import SRef, SVal, SNone, Val
from pyvc.contract import Contract
from contracts import iset as base
from contracts import iset_core as core
from contracts.iset_core import FILE, CLASSES, ALL, CONSTS, IS, MISSING, P, CORE_MOD  # noqa: F401

DEAD_MOD = [('DeadList', 'elems'), ('DeadList', 'len'), ('DeadInterval', '0'), ('DeadInterval', '1')]


def link(p, v):
    i, j = z3.Ints('il jl')
    return [('I4 a slot is _MISSING exactly when a dead interval covers it', z3.ForAll([i], z3.Implies(
        z3.And(0 <= i, i < p.len), (z3.Select(p.elems, i) == MISSING) == base.covered(v, i)))),
            ('I5 every dead interval ends inside the slot list', z3.ForAll([j], z3.Implies(z3.And(0 <= j, j < v.n), v.stop(j) <= p.len))),
            ('I6 the last slot is live', z3.Implies(p.len > 0, z3.Select(p.elems, p.len - 1) != MISSING))]


def wf_full(c, st=None):
    p, v = P(c, st), base.V(c, st)
    return core.wf(p) + base.wf_all_pairs(v) + link(p, v)


def post_full(c):
    return [('wf.' + l, f) for l, f in wf_full(c)]


def order_kept(o, n):
    k1, k2 = z3.Consts('k1 k2', Val)
    return z3.ForAll([k1, k2], z3.Implies(z3.And(z3.Select(n.dom, k1), z3.Select(n.dom, k2)),
                                          (z3.Select(n.val, k1) < z3.Select(n.val, k2)) == (z3.Select(o.val, k1) < z3.Select(o.val, k2))))


def setup_item(eng, st, variant=None):
    return dict(self=SRef(IS, z3.Int('self')), item=SVal(z3.Const('arg_item', Val)))


def req_item(c):
    return wf_full(c) + [('the argument is not the private sentinel', c.a('item') != MISSING)]


def remove_ensures(c):
    o, n = P(c, c.old), P(c)
    item = c.a('item')
    k = z3.Const('k', Val)
    return post_full(c) + [
        ('the item was a member', z3.Select(o.dom, item)),
        ('exactly the item leaves the key set', z3.ForAll([k], z3.Select(n.dom, k) == z3.And(z3.Select(o.dom, k), k != item))),
        ('the other items keep their relative order', order_kept(o, n)),
        ('the three parts stay the same objects', core.same_parts(o, n))]


def unchanged_all(c):
    return z3.And(*[c.eng.heap_arr(c.st, c.eng.classes_by_name[a], f) == c.eng.heap_arr(c.old, c.eng.classes_by_name[a], f)
                    for a, f in CORE_MOD + DEAD_MOD])


def remove_raises(c):
    return [('KeyError only for a non-member', z3.Not(z3.Select(P(c, c.old).dom, c.a('item')))), ('state unchanged', unchanged_all(c))]


ALL_MOD = lambda c: list(CORE_MOD) + list(DEAD_MOD)  # noqa: E731
remove = Contract('IndexedSet.remove', setup=setup_item, requires=req_item, ensures=remove_ensures,
                  raises={'KeyError': remove_raises}, modifies=ALL_MOD, facts=core.facts)


def discard_ensures(c):
    o, n = P(c, c.old), P(c)
    item = c.a('item')
    k = z3.Const('k', Val)
    return post_full(c) + [
        ('the item is not a member afterwards, every other membership is unchanged',
         z3.ForAll([k], z3.Select(n.dom, k) == z3.And(z3.Select(o.dom, k), k != item))),
        ('the other items keep their relative order', order_kept(o, n)),
        ('the three parts stay the same objects', core.same_parts(o, n))]


discard = Contract('IndexedSet.discard', setup=setup_item, requires=req_item, ensures=discard_ensures, modifies=ALL_MOD, facts=core.facts)


# ---- _cull: ASSUMED (not verified) ----------------------------------------------------------------------------------------------
def cull_ensures(c):
    o, n = P(c, c.old), P(c)
    return post_full(c) + [('the key set is unchanged', n.dom == o.dom), ('size unchanged', n.size == o.size),
                           ('the keys keep their relative order', order_kept(o, n)),
                           ('the three parts stay the same objects', core.same_parts(o, n))]


cull = Contract('IndexedSet._cull', setup=core.setup_self, requires=lambda c: [(l, f) for l, f in wf_full(c) if not l.startswith('I6')],
                ensures=cull_ensures, modifies=ALL_MOD)     # I6 is what _cull re-establishes, so it is not required at entry
cull.note = 'ASSUMED contract (not verified)'


# ---- add / clear again, now against the full invariant ---------------------------------------------------------------------------
def add_ensures(c):
    o, n = P(c, c.old), P(c)
    k1, k2 = z3.Consts('k1 k2', Val)
    return post_full(c) + [(l, f) for l, f in core.add_ensures(c) if not l.startswith('wf.')] + [
        ('the old items keep their relative order', z3.ForAll([k1, k2], z3.Implies(
            z3.And(z3.Select(o.dom, k1), z3.Select(o.dom, k2)),
            (z3.Select(n.val, k1) < z3.Select(n.val, k2)) == (z3.Select(o.val, k1) < z3.Select(o.val, k2))))),
        ('a new item comes after every old one', z3.ForAll([k1], z3.Implies(
            z3.And(z3.Not(z3.Select(o.dom, c.a('item'))), z3.Select(o.dom, k1)), z3.Select(n.val, k1) < z3.Select(n.val, c.a('item')))))]


add = Contract('IndexedSet.add', setup=setup_item, requires=req_item, ensures=add_ensures, modifies=lambda c: list(CORE_MOD), facts=core.facts)
clear = Contract('IndexedSet.clear', setup=core.setup_self, requires=lambda c: wf_full(c),
                 ensures=lambda c: post_full(c) + [(l, f) for l, f in core.clear_ensures(c) if not l.startswith('wf.')],
                 modifies=lambda c: list(CORE_MOD) + [('DeadList', 'len')])


# ---- pop(index): the last item for None / -1 / len-1, otherwise the item in the index-th live slot ---------------------------------
from pyvc.values import SInt  # noqa: E402


def pop_setup(eng, st, variant=None):
    return dict(self=SRef(IS, z3.Int('self')), index=SNone() if variant == 'last' else SInt(z3.Int('arg_index')))


def pop_requires(c):
    out = wf_full(c) + [base.wf(base.V(c))[1]]
    if not isinstance(c.sv('index'), SNone):
        out.append(('an index that is -1 or non-negative (other negative indices are not under contract)', c.a('index') >= -1))
    return out


def real_witness(v, idx, r):
    kk = z3.Int('kw')
    return z3.Exists([kk], z3.And(0 <= kk, kk <= v.n, r == idx + v.ds(kk), z3.Implies(kk >= 1, r >= v.stop(kk - 1)),
                                  z3.Implies(kk < v.n, r < v.start(kk))))


def pop_ensures(c):
    o, n = P(c, c.old), P(c)
    ov = base.V(c, c.old)
    ret = c.r()
    k = z3.Const('k', Val)
    is_last = z3.BoolVal(True) if isinstance(c.sv('index'), SNone) else z3.Or(c.a('index') == -1, c.a('index') == o.size - 1)
    out = post_full(c) + [
        ('the returned item was a member', z3.Select(o.dom, ret)),
        ('exactly the returned item leaves the key set', z3.ForAll([k], z3.Select(n.dom, k) == z3.And(z3.Select(o.dom, k), k != ret))),
        ('the other items keep their relative order', order_kept(o, n)),
        ('None, -1 or len-1: the returned item is the last one (it held the greatest slot)', z3.Implies(is_last, z3.ForAll([k], z3.Implies(
            z3.Select(o.dom, k), z3.Select(o.val, k) <= z3.Select(o.val, ret))))),
        ('the three parts stay the same objects', core.same_parts(o, n))]
    if not isinstance(c.sv('index'), SNone):
        out.append(('otherwise: the returned item sat in the index-th live slot (index + the length of the dead intervals to its left)',
                    z3.Implies(z3.Not(is_last), real_witness(ov, c.a('index'), z3.Select(o.val, ret)))))
    return out


def pop_raises(c):
    return [('IndexError leaves the state unchanged', unchanged_all(c))]


pop = Contract('IndexedSet.pop', setup=pop_setup, requires=pop_requires, ensures=pop_ensures, raises={'IndexError': pop_raises},
               modifies=ALL_MOD, facts=core.facts, variants=['last', 'index'])


from contracts.iset_real import real_call  # noqa: E402   (verified in contracts/iset_real.py)

CONTRACTS = {c.qualname: c for c in [remove, discard, cull, add, clear, base.add_dead, pop, real_call]}
PUBLIC = [('IndexedSet.pop', ['last', 'index'])]
FUNCS = ['IndexedSet.remove', 'IndexedSet.discard', 'IndexedSet.add', 'IndexedSet.clear']
EXTERNALS = dict(base.EXTERNALS)


def make_engine(repo):
    from pyvc.engine import Engine
    consts = dict(CONSTS)
    consts.update(base.CONSTS)
    eng = Engine(repo, FILE, classes=CLASSES, contracts=CONTRACTS, consts=consts, externals=dict(EXTERNALS))
    for c in ALL:
        eng.register_class(c)
    return eng
