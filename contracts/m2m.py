"""Contracts for boltons.dictutils.ManyToMany.add / remove (property C17): a ManyToMany and its .inv hold exactly the
same pairs transposed, with no empty entries, and every key owns its own set object.

  P(k, v)  :=  k in data and v in data[k]                      (the forward pairs)
  I2   P(k, v)  <=>  v in inv.data and k in inv.data[v]
  I3   no empty sets on either side (ghost set sizes >= 1; len(s) == 0 iff s has no member is a trusted set fact)
  I4   different keys own different sets; forward and inverse sets are different objects
"""
import z3

from pyvc.values import HeapClass, INT, VAL, REF, SRef, SVal, SNone, Val
from pyvc.contract import Contract

FILE = 'boltons/dictutils.py'
VSet = HeapClass('M2MSet', 'set', k=VAL)
DD = HeapClass('M2MData', 'dict', k=VAL, v=REF(VSet))
M2M = HeapClass('ManyToMany', 'record', pyclass='ManyToMany', fields=dict(data=REF(DD)))
M2M.fields['inv'] = REF(M2M)
CLASSES = {'ManyToMany': M2M}
ALL = [VSet, DD, M2M]
KEYS = [('M2MSet', 'dom'), ('M2MSet', 'size'), ('M2MData', 'dom'), ('M2MData', 'val'), ('M2MData', 'size')]


class V:
    def __init__(self, c, st=None):
        st = st or c.st
        s = c.sv('self')
        self.s = s
        self.i = SRef(M2M, c.f(s, 'inv', st))
        self.d = SRef(DD, c.f(s, 'data', st))
        self.id = SRef(DD, c.f(self.i, 'data', st))
        self.iinv = c.f(self.i, 'inv', st)
        self.ddom, self.dval = c.f(self.d, 'dom', st), c.f(self.d, 'val', st)
        self.idom, self.ival = c.f(self.id, 'dom', st), c.f(self.id, 'val', st)
        self.sdom, self.ssize = c.arr(VSet, 'dom', st), c.arr(VSet, 'size', st)
        self.alloc = st.alloc

    def P(self, k, v):
        return z3.And(z3.Select(self.ddom, k), z3.Select(z3.Select(self.sdom, z3.Select(self.dval, k)), v))

    def Q(self, v, k):
        return z3.And(z3.Select(self.idom, v), z3.Select(z3.Select(self.sdom, z3.Select(self.ival, v)), k))


def wf(v):
    k, k2, x = z3.Consts('kq kq2 xq', Val)
    return [
        ('I1 objects', z3.And(v.s.t >= 1, v.i.t >= 1, v.d.t >= 1, v.id.t >= 1, v.s.t < v.alloc, v.i.t < v.alloc, v.d.t < v.alloc,
                               v.id.t < v.alloc, v.s.t != v.i.t, v.d.t != v.id.t, v.iinv == v.s.t)),
        ('I2 same pairs transposed', z3.ForAll([k, x], v.P(k, x) == v.Q(x, k))),
        ('I3 no empty entries', z3.And(
            z3.ForAll([k], z3.Implies(z3.Select(v.ddom, k), z3.And(z3.Select(v.ssize, z3.Select(v.dval, k)) >= 1,
                                                                     z3.Select(v.dval, k) >= 1, z3.Select(v.dval, k) < v.alloc))),
            z3.ForAll([x], z3.Implies(z3.Select(v.idom, x), z3.And(z3.Select(v.ssize, z3.Select(v.ival, x)) >= 1,
                                                                     z3.Select(v.ival, x) >= 1, z3.Select(v.ival, x) < v.alloc))))),
        ('I4 every key owns its set', z3.And(
            z3.ForAll([k, k2], z3.Implies(z3.And(z3.Select(v.ddom, k), z3.Select(v.ddom, k2), k != k2),
                                          z3.Select(v.dval, k) != z3.Select(v.dval, k2))),
            z3.ForAll([k, k2], z3.Implies(z3.And(z3.Select(v.idom, k), z3.Select(v.idom, k2), k != k2),
                                          z3.Select(v.ival, k) != z3.Select(v.ival, k2))),
            z3.ForAll([k, x], z3.Implies(z3.And(z3.Select(v.ddom, k), z3.Select(v.idom, x)),
                                         z3.Select(v.dval, k) != z3.Select(v.ival, x))))),
    ]


def setup(eng, st, variant=None):
    return dict(self=SRef(M2M, z3.Int('self')), key=SVal(z3.Const('arg_key', Val)), val=SVal(z3.Const('arg_val', Val)))


def set_facts(c):
    """true of every real set (trusted): len >= 0 and len == 0 iff no member"""
    v = V(c)
    r = z3.Int('rq')
    x = z3.Const('xf', Val)
    return [('set facts', z3.ForAll([r], z3.And(z3.Select(v.ssize, r) >= 0,
                                                (z3.Select(v.ssize, r) == 0) == z3.ForAll([x], z3.Not(z3.Select(z3.Select(v.sdom, r), x))))))]


def add_ensures(c):
    o, n = V(c, c.old), V(c)
    key, val = c.a('key'), c.a('val')
    k, x = z3.Consts('kq xq', Val)
    return [('wf.' + l, f) for l, f in wf(n)] + [
        ('the pair (key, val) is added, every other pair unchanged',
         z3.ForAll([k, x], n.P(k, x) == z3.Or(o.P(k, x), z3.And(k == key, x == val)))),
        ('inv objects unchanged', z3.And(n.i.t == o.i.t, n.d.t == o.d.t, n.id.t == o.id.t))]


def remove_ensures(c):
    o, n = V(c, c.old), V(c)
    key, val = c.a('key'), c.a('val')
    k, x = z3.Consts('kq xq', Val)
    return [('wf.' + l, f) for l, f in wf(n)] + [
        ('the pair was present', o.P(key, val)),
        ('exactly the pair (key, val) is removed', z3.ForAll([k, x], n.P(k, x) == z3.And(o.P(k, x), z3.Not(z3.And(k == key, x == val))))),
        ('inv objects unchanged', z3.And(n.i.t == o.i.t, n.d.t == o.d.t, n.id.t == o.id.t))]


def remove_raises(c):
    o = V(c, c.old)
    return [('KeyError only for an absent pair', z3.Not(o.P(c.a('key'), c.a('val')))),
            ('state unchanged', z3.And(*[c.eng.heap_arr(c.st, c.eng.classes_by_name[a], f) == c.eng.heap_arr(c.old, c.eng.classes_by_name[a], f)
                                         for a, f in KEYS]))]


MOD = lambda c: list(KEYS)  # noqa: E731
add = Contract('ManyToMany.add', setup=setup, requires=lambda c: wf(V(c)), ensures=add_ensures, modifies=MOD, facts=set_facts)
remove = Contract('ManyToMany.remove', setup=setup, requires=lambda c: wf(V(c)), ensures=remove_ensures,
                  raises={'KeyError': remove_raises}, modifies=MOD, facts=set_facts)
_core = ['I1 objects', 'I2 same pairs transposed', 'I4 every key owns its set', 'I3 no empty entries']
remove.reveal = {'wf.I2 same pairs transposed': _core, 'exactly the pair (key, val) is removed': _core}
CONTRACTS = {c.qualname: c for c in [add, remove]}
FUNCS = ['ManyToMany.add', 'ManyToMany.remove']


def make_engine(repo):
    from pyvc.engine import Engine
    eng = Engine(repo, FILE, classes=CLASSES, contracts=CONTRACTS)
    for c in ALL:
        eng.register_class(c)
    return eng
