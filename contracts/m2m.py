"""Contracts for boltons.dictutils.ManyToMany.add / remove (property C17): a ManyToMany and its .inv hold exactly the
same pairs transposed, with no empty entries, and every key owns its own set object.

  P(k, v)  :=  k in data and v in data[k]                      (the forward pairs)
  I2   P(k, v)  <=>  v in inv.data and k in inv.data[v]
  I3   no empty sets on either side (ghost set sizes >= 1; len(s) == 0 iff s has no member is a trusted set fact)
  I4   different keys own different sets; forward and inverse sets are different objects
"""
import z3

from pyvc.values import HeapClass, INT, VAL, REF, SRef, SVal, SNone, Val
from pyvc.contract import Contract

FILE = 'boltons/dictutils.py'
VSet = HeapClass('M2MSet', 'set', k=VAL)
DD = HeapClass('M2MData', 'dict', k=VAL, v=REF(VSet))
M2M = HeapClass('ManyToMany', 'record', pyclass='ManyToMany', fields=dict(data=REF(DD)))
M2M.fields['inv'] = REF(M2M)
CLASSES = {'ManyToMany': M2M}
ALL = [VSet, DD, M2M]
KEYS = [('M2MSet', 'dom'), ('M2MSet', 'size'), ('M2MData', 'dom'), ('M2MData', 'val'), ('M2MData', 'size')]


class V:
    def __init__(self, c, st=None):
        st = st or c.st
        s = c.sv('self')
        self.s = s
        self.i = SRef(M2M, c.f(s, 'inv', st))
        self.d = SRef(DD, c.f(s, 'data', st))
        self.id = SRef(DD, c.f(self.i, 'data', st))
        self.iinv = c.f(self.i, 'inv', st)
        self.ddom, self.dval = c.f(self.d, 'dom', st), c.f(self.d, 'val', st)
        self.idom, self.ival = c.f(self.id, 'dom', st), c.f(self.id, 'val', st)
        self.sdom, self.ssize = c.arr(VSet, 'dom', st), c.arr(VSet, 'size', st)
        self.alloc = st.alloc

    def P(self, k, v):
        return z3.And(z3.Select(self.ddom, k), z3.Select(z3.Select(self.sdom, z3.Select(self.dval, k)), v))

    def Q(self, v, k):
        return z3.And(z3.Select(self.idom, v), z3.Select(z3.Select(self.sdom, z3.Select(self.ival, v)), k))


def wf(v):
    k, k2, x = z3.Consts('kq kq2 xq', Val)
    return [
        ('I1 objects', z3.And(v.s.t >= 1, v.i.t >= 1, v.d.t >= 1, v.id.t >= 1, v.s.t < v.alloc, v.i.t < v.alloc, v.d.t < v.alloc,
                               v.id.t < v.alloc, v.s.t != v.i.t, v.d.t != v.id.t, v.iinv == v.s.t)),
        ('I2 same pairs transposed', z3.ForAll([k, x], v.P(k, x) == v.Q(x, k))),
        ('I3 no empty entries', z3.And(
            z3.ForAll([k], z3.Implies(z3.Select(v.ddom, k), z3.And(z3.Select(v.ssize, z3.Select(v.dval, k)) >= 1,
                                                                     z3.Select(v.dval, k) >= 1, z3.Select(v.dval, k) < v.alloc))),
            z3.ForAll([x], z3.Implies(z3.Select(v.idom, x), z3.And(z3.Select(v.ssize, z3.Select(v.ival, x)) >= 1,
                                                                     z3.Select(v.ival, x) >= 1, z3.Select(v.ival, x) < v.alloc))))),
        ('I4 every key owns its set', z3.And(
            z3.ForAll([k, k2], z3.Implies(z3.And(z3.Select(v.ddom, k), z3.Select(v.ddom, k2), k != k2),
                                          z3.Select(v.dval, k) != z3.Select(v.dval, k2))),
            z3.ForAll([k, k2], z3.Implies(z3.And(z3.Select(v.idom, k), z3.Select(v.idom, k2), k != k2),
                                          z3.Select(v.ival, k) != z3.Select(v.ival, k2))),
            z3.ForAll([k, x], z3.Implies(z3.And(z3.Select(v.ddom, k), z3.Select(v.idom, x)),
                                         z3.Select(v.dval, k) != z3.Select(v.ival, x))))),
    ]


def setup(eng, st, variant=None):
    return dict(self=SRef(M2M, z3.Int('self')), key=SVal(z3.Const('arg_key', Val)), val=SVal(z3.Const('arg_val', Val)))


def set_facts(c):
    """true of every real set (trusted): len >= 0 and len == 0 iff no member"""
    v = V(c)
    r = z3.Int('rq')
    x = z3.Const('xf', Val)
    return [('set facts', z3.ForAll([r], z3.And(z3.Select(v.ssize, r) >= 0,
                                                (z3.Select(v.ssize, r) == 0) == z3.ForAll([x], z3.Not(z3.Select(z3.Select(v.sdom, r), x))))))]


def set_frame(o, n, key, val, may_allocate):
    """object-level frame of add/remove: only the set of `key`, the inverse set of `val` and fresh sets are written, and
    the sets of the relation afterwards are the ones before (plus, for add, freshly allocated ones for key / val)"""
    r = z3.Int('rq')
    k, x = z3.Consts('kq xq', Val)
    fresh_k = z3.And(k == key, z3.Select(n.dval, k) >= o.alloc) if may_allocate else z3.BoolVal(False)
    fresh_x = z3.And(x == val, z3.Select(n.ival, x) >= o.alloc) if may_allocate else z3.BoolVal(False)
    return [('only the set of key and the inverse set of val are written',
             z3.ForAll([r], z3.Implies(z3.And(r < o.alloc, z3.Not(z3.And(z3.Select(o.ddom, key), r == z3.Select(o.dval, key))),
                                              z3.Not(z3.And(z3.Select(o.idom, val), r == z3.Select(o.ival, val)))),
                                       z3.And(z3.Select(n.sdom, r) == z3.Select(o.sdom, r), z3.Select(n.ssize, r) == z3.Select(o.ssize, r))))),
            ('the sets of the relation are the ones before' + (' or fresh' if may_allocate else ''), z3.And(
                z3.ForAll([k], z3.Implies(z3.Select(n.ddom, k), z3.Or(z3.And(z3.Select(o.ddom, k), z3.Select(n.dval, k) == z3.Select(o.dval, k)), fresh_k))),
                z3.ForAll([x], z3.Implies(z3.Select(n.idom, x), z3.Or(z3.And(z3.Select(o.idom, x), z3.Select(n.ival, x) == z3.Select(o.ival, x)), fresh_x)))))]


def add_ensures(c):
    o, n = V(c, c.old), V(c)
    key, val = c.a('key'), c.a('val')
    k, x = z3.Consts('kq xq', Val)
    return [('wf.' + l, f) for l, f in wf(n)] + set_frame(o, n, key, val, True) + [
        ('the pair (key, val) is added, every other pair unchanged',
         z3.ForAll([k, x], n.P(k, x) == z3.Or(o.P(k, x), z3.And(k == key, x == val)))),
        ('inv objects unchanged', z3.And(n.i.t == o.i.t, n.d.t == o.d.t, n.id.t == o.id.t))]


def remove_ensures(c):
    o, n = V(c, c.old), V(c)
    key, val = c.a('key'), c.a('val')
    k, x = z3.Consts('kq xq', Val)
    return [('wf.' + l, f) for l, f in wf(n)] + set_frame(o, n, key, val, False) + [
        ('the pair was present', o.P(key, val)),
        ('exactly the pair (key, val) is removed', z3.ForAll([k, x], n.P(k, x) == z3.And(o.P(k, x), z3.Not(z3.And(k == key, x == val))))),
        ('inv objects unchanged', z3.And(n.i.t == o.i.t, n.d.t == o.d.t, n.id.t == o.id.t))]


def remove_raises(c):
    o = V(c, c.old)
    return [('KeyError only for an absent pair', z3.Not(o.P(c.a('key'), c.a('val')))),
            ('state unchanged', z3.And(*[c.eng.heap_arr(c.st, c.eng.classes_by_name[a], f) == c.eng.heap_arr(c.old, c.eng.classes_by_name[a], f)
                                         for a, f in KEYS]))]


MOD = lambda c: list(KEYS)  # noqa: E731
add = Contract('ManyToMany.add', setup=setup, requires=lambda c: wf(V(c)), ensures=add_ensures, modifies=MOD, facts=set_facts)
remove = Contract('ManyToMany.remove', setup=setup, requires=lambda c: wf(V(c)), ensures=remove_ensures,
                  raises={'KeyError': remove_raises}, modifies=MOD, facts=set_facts)
_core = ['I1 objects', 'I2 same pairs transposed', 'I4 every key owns its set', 'I3 no empty entries']
remove.reveal = {'wf.I2 same pairs transposed': _core, 'exactly the pair (key, val) is removed': _core}
CONTRACTS = {c.qualname: c for c in [add, remove]}
FUNCS = ['ManyToMany.add', 'ManyToMany.remove']


def make_engine(repo):
    from pyvc.engine import Engine
    from .opaque_ext import EXTERNALS
    eng = Engine(repo, FILE, classes=CLASSES, contracts=CONTRACTS, externals=dict(EXTERNALS))
    for c in ALL:
        eng.register_class(c)
    return eng


# ---- update (iterable of pairs / mapping with keys()) / __delitem__ / replace: the invariant is preserved ---------------------
from pyvc.contract import Loop  # noqa: E402


def upd_setup(eng, st, variant=None):
    return dict(self=SRef(M2M, z3.Int('self')), iterable=SVal(z3.Const('arg_iterable', Val)))


def upd_inv(c):
    o, n = V(c, c.old), V(c)
    return [('wf.' + l, f) for l, f in wf(n)] + [('inv objects unchanged', z3.And(n.i.t == o.i.t, n.d.t == o.d.t, n.id.t == o.id.t))]


def upd_ensures(c):
    o, n = V(c, c.old), V(c)
    k, x = z3.Consts('kq xq', Val)
    return [('wf.' + l, f) for l, f in wf(n)] + [('inv objects unchanged', z3.And(n.i.t == o.i.t, n.d.t == o.d.t, n.id.t == o.id.t))]


update = Contract('ManyToMany.update', setup=upd_setup, requires=lambda c: wf(V(c)), ensures=upd_ensures, modifies=MOD, facts=set_facts,
                  loops={'for k in iterable.keys()': Loop(upd_inv, heap=list(KEYS)),
                         'for key, val in iterable': Loop(upd_inv, heap=list(KEYS))}, variants=['not a ManyToMany'])
CONTRACTS['ManyToMany.update'] = update
FUNCS.append('ManyToMany.update')


# ---- __delitem__: every pair of the key is removed on both sides ---------------------------------------------------------------
def del_setup(eng, st, variant=None):
    return dict(self=SRef(M2M, z3.Int('self')), key=SVal(z3.Const('arg_key', Val)))


def del_inv(c):
    o, n = V(c, c.old), V(c)
    key, i, seq = c.a('key'), c.x['i'], c.x['seq']
    idx = seq['idx']
    S = z3.Select(o.dval, key)                       # the popped set object: no longer reachable from data, never written
    member = lambda x: z3.Select(z3.Select(o.sdom, S), x)  # noqa: E731
    processed = lambda x: z3.And(member(x), idx(x) < i)  # noqa: E731
    k, k2, x = z3.Consts('kq kq2 xq', Val)
    return [
        ('the key was present; objects unchanged', z3.And(z3.Select(o.ddom, key), n.i.t == o.i.t, n.d.t == o.d.t, n.id.t == o.id.t)),
        ('forward side: the key is gone, every other key keeps its set object',
         z3.And(n.ddom == z3.Store(o.ddom, key, z3.BoolVal(False)),
                z3.ForAll([k], z3.Implies(k != key, z3.Select(n.dval, k) == z3.Select(o.dval, k))))),
        ('forward sets (the iterated one included) are untouched',
         z3.ForAll([k], z3.Implies(z3.Select(o.ddom, k), z3.And(
             z3.Select(n.sdom, z3.Select(o.dval, k)) == z3.Select(o.sdom, z3.Select(o.dval, k)),
             z3.Select(n.ssize, z3.Select(o.dval, k)) == z3.Select(o.ssize, z3.Select(o.dval, k)))))),
        ('inverse side: exactly the processed pairs of the key are removed',
         z3.ForAll([x, k], n.Q(x, k) == z3.And(o.Q(x, k), z3.Not(z3.And(k == key, processed(x)))))),
        ('inverse keys keep their set objects', z3.ForAll([x], z3.Implies(z3.Select(n.idom, x), z3.And(
            z3.Select(o.idom, x), z3.Select(n.ival, x) == z3.Select(o.ival, x))))),
        ('no empty inverse entries', z3.ForAll([x], z3.Implies(z3.Select(n.idom, x), z3.Select(n.ssize, z3.Select(n.ival, x)) >= 1))),
    ]


def del_ensures(c):
    o, n = V(c, c.old), V(c)
    key = c.a('key')
    k, x = z3.Consts('kq xq', Val)
    return [('wf.' + l, f) for l, f in wf(n)] + [
        ('the key was present', z3.Select(o.ddom, key)),
        ('exactly the pairs of the key are removed', z3.ForAll([k, x], n.P(k, x) == z3.And(o.P(k, x), k != key))),
        ('inv objects unchanged', z3.And(n.i.t == o.i.t, n.d.t == o.d.t, n.id.t == o.id.t))]


def del_raises(c):
    o = V(c, c.old)
    return [('KeyError only for an absent key', z3.Not(z3.Select(o.ddom, c.a('key')))),
            ('state unchanged', z3.And(*[c.eng.heap_arr(c.st, c.eng.classes_by_name[a], f) == c.eng.heap_arr(c.old, c.eng.classes_by_name[a], f)
                                         for a, f in KEYS]))]


delitem = Contract('ManyToMany.__delitem__', setup=del_setup, requires=lambda c: wf(V(c)), ensures=del_ensures,
                   raises={'KeyError': del_raises}, modifies=MOD, facts=set_facts,
                   loops={0: Loop(del_inv, heap=list(KEYS))})
CONTRACTS['ManyToMany.__delitem__'] = delitem
FUNCS.append('ManyToMany.__delitem__')


# ---- replace(key, newkey): every pair (key, x) becomes (newkey, x) on both sides -------------------------------------------------
def rep_setup(eng, st, variant=None):
    return dict(self=SRef(M2M, z3.Int('self')), key=SVal(z3.Const('arg_key', Val)), newkey=SVal(z3.Const('arg_newkey', Val)))


def rep_P(o, key, newkey, k, x):
    """the forward pairs after replace, in terms of the pairs before"""
    return z3.Or(z3.And(k != key, o.P(k, x)), z3.And(k == newkey, o.P(key, x)))


def rep_inv(c):
    o, n = V(c, c.old), V(c)
    key, newkey, i, seq = c.a('key'), c.a('newkey'), c.x['i'], c.x['seq']
    idx = seq['idx']
    S = z3.Select(o.dval, key)
    member = lambda x: z3.Select(z3.Select(o.sdom, S), x)  # noqa: E731
    processed = lambda x: z3.And(member(x), idx(x) < i)  # noqa: E731
    fw = c.Lsv('fwdset')
    k, k2, x = z3.Consts('kq kq2 xq', Val)
    return [
        ('the key was present; objects unchanged; fwdset is the popped set, untouched',
         z3.And(z3.Select(o.ddom, key), n.i.t == o.i.t, n.d.t == o.d.t, n.id.t == o.id.t, fw.t == S,
                z3.Select(n.sdom, S) == z3.Select(o.sdom, S), z3.Select(n.ssize, S) == z3.Select(o.ssize, S))),
        ('forward side is final: pairs of key moved to newkey', z3.ForAll([k, x], n.P(k, x) == rep_P(o, key, newkey, k, x))),
        ('forward wf', z3.And(
            z3.ForAll([k], z3.Implies(z3.Select(n.ddom, k), z3.And(z3.Select(n.ssize, z3.Select(n.dval, k)) >= 1,
                                                                     z3.Select(n.dval, k) >= 1, z3.Select(n.dval, k) < n.alloc,
                                                                     z3.Select(n.dval, k) != S))),
            z3.ForAll([k, k2], z3.Implies(z3.And(z3.Select(n.ddom, k), z3.Select(n.ddom, k2), k != k2),
                                          z3.Select(n.dval, k) != z3.Select(n.dval, k2))),
            z3.ForAll([k, x], z3.Implies(z3.And(z3.Select(n.ddom, k), z3.Select(n.idom, x)),
                                         z3.Select(n.dval, k) != z3.Select(n.ival, x))))),
        ('inverse side: for processed members key is replaced by newkey, everything else as before',
         z3.ForAll([x, k], n.Q(x, k) == z3.If(processed(x), z3.Or(z3.And(k != key, o.Q(x, k)), k == newkey), o.Q(x, k)))),
        ('inverse keys and their set objects are unchanged', z3.And(n.idom == o.idom, z3.ForAll([x], z3.Implies(
            z3.Select(o.idom, x), z3.Select(n.ival, x) == z3.Select(o.ival, x))))),
        ('no empty inverse entries', z3.ForAll([x], z3.Implies(z3.Select(n.idom, x), z3.And(
            z3.Select(n.ssize, z3.Select(n.ival, x)) >= 1, z3.Select(n.ival, x) != S)))),
    ]


def rep_ensures(c):
    o, n = V(c, c.old), V(c)
    key, newkey = c.a('key'), c.a('newkey')
    k, x = z3.Consts('kq xq', Val)
    present = z3.Select(o.ddom, key)
    return [('wf.' + l, f) for l, f in wf(n)] + [
        ('every pair (key, x) becomes (newkey, x); all other pairs unchanged',
         z3.ForAll([k, x], n.P(k, x) == z3.If(present, rep_P(o, key, newkey, k, x), o.P(k, x)))),
        ('inv objects unchanged', z3.And(n.i.t == o.i.t, n.d.t == o.d.t, n.id.t == o.id.t))]


replace = Contract('ManyToMany.replace', setup=rep_setup, requires=lambda c: wf(V(c)), ensures=rep_ensures, modifies=MOD,
                   facts=set_facts, loops={0: Loop(rep_inv, heap=list(KEYS))}, local_types=dict(fwdset=REF(VSet), revset=REF(VSet)))
CONTRACTS['ManyToMany.replace'] = replace
FUNCS.append('ManyToMany.replace')


# ---- __setitem__(key, vals): afterwards the key is paired with exactly the members of set(vals) -----------------------------------
def set_setup(eng, st, variant=None):
    eng.set_class = VSet
    return dict(self=SRef(M2M, z3.Int('self')), key=SVal(z3.Const('arg_key', Val)), vals=SVal(z3.Const('arg_vals', Val)))


def _locals_at_loop(c):
    e = c.x['loop_entry']
    return e


def si_common(c, o, n):
    return [('wf.' + l, f) for l, f in wf(n)] + [('inv objects unchanged', z3.And(n.i.t == o.i.t, n.d.t == o.d.t, n.id.t == o.id.t))]


def _not_in_relation(c, n, r):
    k, x = z3.Consts('kq xq', Val)
    return z3.And(z3.ForAll([k], z3.Implies(z3.Select(n.ddom, k), z3.Select(n.dval, k) != r)),
                  z3.ForAll([x], z3.Implies(z3.Select(n.idom, x), z3.Select(n.ival, x) != r)))


def _same_set(c, e, r):
    return z3.And(z3.Select(c.arr(VSet, 'dom'), r) == z3.Select(c.arr(VSet, 'dom', e), r),
                  z3.Select(c.arr(VSet, 'size'), r) == z3.Select(c.arr(VSet, 'size', e), r))


def si_inv_remove(c):
    """first loop: the values of the key that are not wanted any more are removed one by one"""
    o, n = V(c, c.old), V(c)
    key, i, seq = c.a('key'), c.x['i'], c.x['seq']
    idx = seq['idx']
    e = c.x['loop_entry']
    tr, want = e.locals['to_remove'], e.locals['vals']
    trdom = z3.Select(c.arr(VSet, 'dom', e), tr.t)
    k, x = z3.Consts('kq xq', Val)
    return si_common(c, o, n) + [
        ('the local sets are untouched and are not sets of the relation', z3.And(
            c.Lsv('to_remove').t == tr.t, c.Lsv('vals').t == want.t, tr.t != want.t, tr.t < c.st.alloc, want.t < c.st.alloc,
            tr.t >= 1, want.t >= 1, _same_set(c, e, tr.t), _same_set(c, e, want.t),
            _not_in_relation(c, n, tr.t), _not_in_relation(c, n, want.t))),
        ('to_remove holds only values of the key', z3.ForAll([x], z3.Implies(z3.Select(trdom, x), o.P(key, x)))),
        ('exactly the processed members of to_remove are gone',
         z3.ForAll([k, x], n.P(k, x) == z3.And(o.P(k, x), z3.Not(z3.And(k == key, z3.Select(trdom, x), idx(x) < i)))))]


def si_inv_add(c):
    """second loop: the wanted values that are missing are added one by one"""
    o, n = V(c, c.old), V(c)
    key, i, seq = c.a('key'), c.x['i'], c.x['seq']
    idx = seq['idx']
    e = c.x['loop_entry']
    want = e.locals['vals']
    wdom = z3.Select(c.arr(VSet, 'dom', e), want.t)
    em = V(c, e)
    k, x = z3.Consts('kq xq', Val)
    return si_common(c, o, n) + [
        ('the local set is untouched and is not a set of the relation', z3.And(
            c.Lsv('vals').t == want.t, want.t < c.st.alloc, want.t >= 1, _same_set(c, e, want.t), _not_in_relation(c, n, want.t))),
        ('exactly the processed members of vals are added',
         z3.ForAll([k, x], n.P(k, x) == z3.Or(em.P(k, x), z3.And(k == key, z3.Select(wdom, x), idx(x) < i))))]


def si_ensures(c):
    o, n = V(c, c.old), V(c)
    key = c.a('key')
    k, x = z3.Consts('kq xq', Val)
    want = c.eng.f_setof(c.a('vals'))
    return si_common(c, o, n) + [
        ('pairs of every other key are unchanged', z3.ForAll([k, x], z3.Implies(k != key, n.P(k, x) == o.P(k, x)))),
        ('the key is paired with exactly the members of set(vals)', z3.ForAll([x], n.P(key, x) == z3.Select(want, x)))]


setitem = Contract('ManyToMany.__setitem__', setup=set_setup, requires=lambda c: wf(V(c)), ensures=si_ensures, modifies=MOD,
                   facts=set_facts, loops={'for val in to_remove': Loop(si_inv_remove, heap=list(KEYS)),
                                           'for val in vals': Loop(si_inv_add, heap=list(KEYS))},
                   local_types=dict(to_remove=REF(VSet)))
CONTRACTS['ManyToMany.__setitem__'] = setitem
CONTRACTS['ManyToMany.__contains__'] = Contract('ManyToMany.__contains__', inline=True)
FUNCS.append('ManyToMany.__setitem__')

for _c in CONTRACTS.values():
    # identity of the internal dict/set objects is a proof device for callers (object-level frames), not part of the property
    _c.aux = ('inv objects unchanged', 'only the set of key', 'the sets of the relation are')
