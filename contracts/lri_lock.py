"""C03: guarded-by (lock discipline) obligations on the real LRI/LRU methods.

Protected state Sigma of a cache object: its dict part, `_link_lookup`, `_anchor`, every link and the lookup table.
Obligations, generated per path of the real AST by the same symbolic executor (ghost `held` counter per lock):
  G1  every read/write of Sigma happens while the owning cache's lock is held;
  G2  a helper that `requires held` (the _..._ll functions) is only called with the lock held;
  G3  one operation enters at most ONE outermost critical section per cache (re-entrant nesting is allowed), so all its
      Sigma accesses lie in a single critical section;
  G4  the lock object of a cache is never replaced after construction.
From G1-G3 and the RLock contract every schedule is equivalent to a sequential one (meta-argument, DESIGN section 3 C03).
"""
import ast

import z3

from pyvc.values import (HeapClass, INT, VAL, REF, SRef, SVal, SInt, SBool, SNone, SFunc, STuple, SSeq, Val, NONE,
                         Unsupported)
from pyvc.contract import Contract, Loop
from . import lri as L

SIGMA = {('LRI', 'dom'), ('LRI', 'val'), ('LRI', 'size'), ('LRI', '_anchor'), ('LRI', '_link_lookup'),
         ('Link', '0'), ('Link', '1'), ('Link', '2'), ('Link', '3'),
         ('LinkLookup', 'dom'), ('LinkLookup', 'val'), ('LinkLookup', 'size')}
HELPERS_REQUIRE_HELD = set(L.HELPERS) | {'LRI._init_ll', 'LRI._get_flattened_ll'}
LOCKING = {'LRI.__setitem__', 'LRI.__getitem__', 'LRU.__getitem__', 'LRI.__delitem__', 'LRI.pop', 'LRI.popitem',
           'LRI.clear', 'LRI.setdefault', 'LRI.update', 'LRI.__eq__', 'LRI.get', 'LRI.copy', 'LRI.__len__'}


class GuardHooks(L.LockHooks):
    def __init__(self):
        super().__init__()
        self.under_construction = set()

    def lock_key(self, eng, st, cache_ref):
        return str(z3.simplify(eng.hload(st, cache_ref, '_lock')))

    def owner_key(self, eng, st, ref):
        if ref.cls.name == 'LRI':
            return self.lock_key(eng, st, ref)
        return self.lock_key(eng, st, st.locals['self']) if 'self' in st.locals else '?'

    def is_lock(self, eng, cm):
        return isinstance(cm, SRef) and cm.cls.name == 'RLock'

    def acquire(self, eng, st, cm):
        key = str(z3.simplify(cm.t))
        n = st.held.get(key, 0)
        if n == 0:
            self.enter_section(eng, st, key, None)
        st.held[key] = n + 1

    def release(self, eng, st, cm):
        key = str(z3.simplify(cm.t))
        st.held[key] = st.held.get(key, 0) - 1

    def enter_section(self, eng, st, key, node):
        sk = 'sections:' + key
        st.held[sk] = st.held.get(sk, 0) + 1
        eng.oblige('assert', 'guarded-by G3: at most one outermost critical section per operation', st,
                   z3.BoolVal(st.held[sk] <= 1), node)

    def field_access(self, eng, st, ref, field, mode, node):
        if ref.cls.name == 'LRI' and field == '_lock' and mode == 'write':
            # G4: one lock per cache for its whole life (replacing it lets a thread blocked on the old lock run alongside
            # threads using the new one); only the constructor, on an object nobody else can see yet, may set it
            fresh = str(z3.simplify(ref.t)) in st.held.get('fresh', ())
            eng.oblige('assert', 'guarded-by G4: the lock of a cache is never replaced after construction', st,
                       z3.BoolVal(fresh), node)
            return
        if (ref.cls.name, field) not in SIGMA:
            return
        owner = ref if ref.cls.name == 'LRI' else st.locals.get('self')
        if isinstance(owner, SRef) and str(z3.simplify(owner.t)) in st.held.get('fresh', ()):
            return      # an object still under construction (and its links) is not shared yet
        key = self.owner_key(eng, st, ref)
        eng.oblige('assert', 'guarded-by G1: protected state accessed only under the lock', st,
                   z3.BoolVal(st.held.get(key, 0) >= 1), node)

    def on_contract_call(self, eng, con, bound, st, node):
        q = con.qualname
        recv = bound.get('self')
        if recv is None or not isinstance(recv, SRef) or recv.cls.name != 'LRI':
            return
        key = self.lock_key(eng, st, recv)
        if q in HELPERS_REQUIRE_HELD:
            eng.oblige('assert', 'guarded-by G2: helper called with the lock held', st,
                       z3.BoolVal(st.held.get(key, 0) >= 1), node)
        elif q in LOCKING:
            if q == 'LRI.update' and isinstance(bound.get('E'), SRef) and bound['E'].cls.name == 'LRI':
                src = bound['E']
                eng.oblige('assert', 'guarded-by G3: bulk read of another cache lies inside one critical section of that cache',
                           st, z3.BoolVal(st.held.get(self.lock_key(eng, st, src), 0) >= 1), node)
            if str(z3.simplify(recv.t)) in st.held.get('fresh', ()):
                return
            if st.held.get(key, 0) == 0:
                self.enter_section(eng, st, key, node)


from .opaque_ext import EXTERNALS, ext_getattr, ext_opaque_iter, ext_opaque_keys, ext_opaque_len, ext_isinstance, ext_rlock  # noqa: E402,F401

def _all_heap_keys_but_lock():
    keys = []
    for cls in L.ALL:
        for f, t in cls.fields.items():
            if (cls.name, f) != ('LRI', '_lock'):
                keys.append((cls.name, f))
    return keys


# loops of the bulk operations carry no functional invariant here, but they must not lose the identity of the lock: everything
# is havocked except LRI._lock (G4 says it is never replaced; the loop frame obligation re-checks it for the body)
TRIV = Loop(lambda c: [], heap=_all_heap_keys_but_lock())


def S_update(eng, st, variant='LRI'):
    d = L.S()(eng, st, variant)
    d['E'] = SVal(z3.Const('E', Val))
    d['F'] = SVal(z3.Const('F', Val))
    return d


def S_other(eng, st, variant='LRI'):
    d = L.S()(eng, st, variant)
    d['other'] = SVal(z3.Const('other', Val))
    return d


ANY = lambda c: []  # noqa: E731
update = Contract('LRI.update', setup=S_update, requires=ANY, ensures=ANY, modifies=None, variants=['LRI', 'LRU'],
                  loops={0: TRIV, 1: TRIV, 2: TRIV}, exc_any=ANY, raises={'Exception': ANY})
eq = Contract('LRI.__eq__', setup=S_other, requires=ANY, ensures=ANY, modifies=None, variants=['LRI', 'LRU'],
              returns=lambda c: SBool(c.st.fresh.const('eq', z3.BoolSort())), raises={'Exception': ANY})
copy = Contract('LRI.copy', setup=L.S(), requires=ANY, ensures=ANY, modifies=None, variants=['LRI', 'LRU'],
                raises={'Exception': ANY})
init = Contract('LRI.__init__', inline=True)
# reads the whole ring: a helper that requires the lock; its result (a list of pairs) is opaque here
flat = Contract('LRI._get_flattened_ll', requires=ANY, ensures=ANY, modifies=lambda c: [],
                returns=lambda c: SVal(c.st.fresh.const('flattened', Val)))

CONTRACTS = dict(L.CONTRACTS)
for _c in [update, eq, copy, init, flat]:
    CONTRACTS[_c.qualname] = _c

TARGETS = list(L.PUBLIC) + [('LRI.update', ['LRI', 'LRU']), ('LRI.__eq__', ['LRI', 'LRU']), ('LRI.copy', ['LRI', 'LRU'])]


NOT_TARGETS = {'LRI.__init__', 'LRI.__repr__', 'LRU.__init__'} | HELPERS_REQUIRE_HELD


def extra_methods(src):
    """methods defined in class LRI / LRU by the current source that have no lock contract of their own (e.g. a method a change
    adds or re-implements, such as __ne__ or __contains__): they get the generic guarded-by contract"""
    import ast
    out = []
    for cname in ('LRI', 'LRU'):
        cls = src.classes.get(cname)
        if cls is None:
            continue
        for node in cls.body:
            if isinstance(node, ast.FunctionDef):
                q = '%s.%s' % (cname, node.name)
                private = node.name.startswith('_') and not node.name.startswith('__')     # not reachable through the dict API
                if q not in CONTRACTS and q not in NOT_TARGETS and not private and not any(isinstance(d, ast.Name) and d.id in ('property', 'staticmethod', 'classmethod')
                                                                           for d in node.decorator_list):
                    out.append((q, node))
    return out


def generic_contract(q, node):
    names = [a.arg for a in node.args.args[1:]]

    def setup(eng, st, variant='LRI'):
        d = L.S()(eng, st, variant)
        for n in names:
            d[n] = SVal(z3.Const('arg_' + n, Val))
        return d
    return Contract(q, setup=setup, requires=ANY, ensures=ANY, modifies=None, variants=['LRI', 'LRU'] if q.startswith('LRI.') else ['LRU'],
                    raises={'Exception': ANY}, exc_any=ANY)


def targets(repo):
    from pyvc import front
    src = front.load(repo, L.FILE)
    return list(TARGETS) + [(q, ['LRI', 'LRU'] if q.startswith('LRI.') else ['LRU']) for q, _ in extra_methods(src)]


def make_engine(repo):
    from pyvc.engine import Engine
    eng = Engine(repo, L.FILE, classes=L.CLASSES, contracts=dict(CONTRACTS), consts=dict(L.CONSTS), hooks=GuardHooks(),
                 externals=EXTERNALS)
    for q, node in extra_methods(eng.src):
        eng.contracts[q] = generic_contract(q, node)
    for c in L.ALL:
        eng.register_class(c)
    eng.consts['RLock'] = SFunc('extfunc', 'RLock')
    eng.externals['RLock'] = ext_rlock
    return eng


# ---- API closure: every dict mutator is overridden in the class (so no inherited C-level mutator bypasses the lock/ring)
DICT_MUTATORS = ['__setitem__', '__delitem__', 'pop', 'popitem', 'clear', 'update', 'setdefault', '__ior__', 'copy']


def closure(src):
    """-> list of (method, defined_in_LRI: bool)"""
    return [(m, src.func('LRI.' + m) is not None) for m in DICT_MUTATORS]
