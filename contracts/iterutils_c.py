"""Contracts for boltons.iterutils functions within pyvc's reach (properties C09, C15)."""
import z3

from pyvc.values import HeapClass, INT, REAL, VAL, REF, SRef, SVal, SInt, SBool, SReal, SNone, SStr, Val, NONE
from pyvc.contract import Contract, Ctx, Loop

FILE = 'boltons/iterutils.py'
IntArr = z3.ArraySort(z3.IntSort(), z3.IntSort())


# ---------------------------------------------------------------------------------------------
# chunk_ranges: generator of (start, end); ghost output sequence out_0 (starts), out_1 (ends), out_n
def cr_setup(eng, st):
    st.ghost['out_n'] = z3.IntVal(0)
    st.ghost['out_0'] = z3.Const('out0_init', IntArr)
    st.ghost['out_1'] = z3.Const('out1_init', IntArr)
    return dict(input_size=SInt(z3.Int('input_size')), chunk_size=SInt(z3.Int('chunk_size')),
                input_offset=SInt(z3.Int('input_offset')), overlap_size=SInt(z3.Int('overlap_size')),
                align=SBool(z3.Bool('align')))


def cr_requires(c):
    # "valid parameters" of the statement: sizes non-negative, chunk positive, 0 <= overlap < chunk
    return [('valid', z3.And(c.a('input_size') >= 0, c.a('chunk_size') >= 1, c.a('input_offset') >= 0,
                             c.a('overlap_size') >= 0, c.a('overlap_size') < c.a('chunk_size')))]


def cr_facts(c, n, a, b, upto_last=True):
    """the statement's clauses over the ranges yielded so far (j < n)"""
    size, chunk, off, ov = c.a('input_size'), c.a('chunk_size'), c.a('input_offset'), c.a('overlap_size')
    stop = off + size
    step = chunk - ov
    j = z3.Int('j')
    out = [
        ('no range longer than chunk_size', z3.ForAll([j], z3.Implies(z3.And(0 <= j, j < n), z3.And(
            z3.Select(b, j) - z3.Select(a, j) <= chunk, z3.Select(a, j) <= z3.Select(b, j),
            z3.Select(a, j) >= off, z3.Select(b, j) <= stop)))),
        ('first range starts at input_offset', z3.Implies(n >= 1, z3.Select(a, 0) == off)),
        ('each range begins overlap_size before the previous end',
         z3.ForAll([j], z3.Implies(z3.And(1 <= j, j < n), z3.Select(a, j) == z3.Select(b, j - 1) - ov))),
        ('aligned starts', z3.Implies(c.a('align'), z3.ForAll([j], z3.Implies(z3.And(1 <= j, j < n),
                                                                               z3.Select(a, j) % step == 0)))),
    ]
    return out


def cr_ensures(c):
    n, a, b = c.g('out_n'), c.g('out_0'), c.g('out_1')
    size, off = c.a('input_size'), c.a('input_offset')
    out = cr_facts(c, n, a, b)
    out.append(('last range ends at input_offset+input_size; something is yielded for a non-empty input',
                z3.And(z3.Implies(size > 0, n >= 1), z3.Implies(n >= 1, z3.Select(b, n - 1) == off + size))))
    # coverage of every index follows from: first start = offset, contiguity (start_{j+1} <= end_j), last end = stop
    j = z3.Int('j')
    out.append(('no gap between consecutive ranges (coverage)',
                z3.ForAll([j], z3.Implies(z3.And(1 <= j, j < n), z3.Select(a, j) <= z3.Select(b, j - 1)))))
    return out


def cr_loop_inv(c):
    idx = c.x['i']
    n, a, b = c.g('out_n'), c.g('out_0'), c.g('out_1')
    size, chunk, ov = c.a('input_size'), c.a('chunk_size'), c.a('overlap_size')
    off0 = c.a('input_offset')
    stop = off0 + size
    step = chunk - ov
    lo = c.L('input_offset')                      # the (possibly re-based) loop start; not assigned in the loop
    e = c.x['loop_entry']
    n_pre = e.ghost['out_n']                        # 0, or 1 when the alignment chunk was yielded
    out = [('count', z3.And(n == n_pre + idx, n_pre >= 0, n_pre <= 1)),
           ('stop local', c.L('input_stop') == stop)]
    out += [('so far: ' + l, f) for l, f in cr_facts(c, n, a, b)]
    out.append(('previous end', z3.Implies(idx >= 1, z3.And(
        z3.Select(b, n - 1) == lo + (idx - 1) * step + chunk, z3.Select(b, n - 1) < stop,
        z3.Select(a, n - 1) == lo + (idx - 1) * step))))
    out.append(('alignment prefix', z3.And(
        z3.Implies(n_pre == 1, z3.And(z3.Select(b, 0) == lo + ov, z3.Select(b, 0) < stop, z3.Select(a, 0) == off0,
                                      c.a('align'), lo % step == 0, lo >= off0)),
        z3.Implies(n_pre == 0, z3.And(lo == off0, z3.Implies(c.a('align'), lo % step == 0))))))
    return out


def cr_hints(c, event, data):
    if event != 'yield':
        return []
    step = c.a('chunk_size') - c.a('overlap_size')
    i = data[0]
    return [('mod_step_shift', z3.Implies(z3.And(step > 0, (i - step) % step == 0), i % step == 0))]


chunk_ranges = Contract('chunk_ranges', setup=cr_setup, requires=cr_requires, ensures=cr_ensures, modifies=lambda c: [],
                        loops={0: Loop(cr_loop_inv, heap=[])}, generator=True, hints=cr_hints)

CONTRACTS = {c.qualname: c for c in [chunk_ranges]}
CLASSES = {}
ALL = []


# ---------------------------------------------------------------------------------------------
# backoff_iter over the reals (floats treated as reals: stated assumption).  Ghost: out_0 (yielded values),
# base (un-jittered value at each position), out_n.
RealArr = z3.ArraySort(z3.IntSort(), z3.RealSort())
from pyvc.values import SFunc, SExc  # noqa: E402


def bo_setup(eng, st, variant):
    ck, jk = variant.split(',')
    st.ghost['out_n'] = z3.IntVal(0)
    st.ghost['out_0'] = z3.Const('y_init', RealArr)
    st.ghost['base'] = z3.Const('base_init', RealArr)
    count = {'int': SInt(z3.Int('count')), 'repeat': SStr('repeat'), 'none': SNone()}[ck]
    jitter = {'nojit': SBool(False), 'jit': SReal(z3.Real('jitter')), 'true': SBool(True)}[jk]
    return dict(start=SReal(z3.Real('start')), stop=SReal(z3.Real('stop')), count=count,
                factor=SReal(z3.Real('factor')), jitter=jitter)


def bo_valid(c):
    start, stop, factor = c.a('start'), c.a('stop'), c.a('factor')
    v = z3.And(start >= 0, start <= stop, stop > 0, factor >= 1)
    cnt = c.sv('count')
    if isinstance(cnt, SInt):
        v = z3.And(v, cnt.t >= 0)
    j = c.sv('jitter')
    if isinstance(j, SReal):
        v = z3.And(v, j.t >= -1, j.t <= 1)
    return v


def bo_nextval(c, prev):
    stop, factor = c.a('stop'), c.a('factor')
    grown = z3.If(prev == 0, z3.RealVal(1), prev * factor)
    return z3.If(grown > stop, stop, grown)


def bo_facts(c, n, base, y):
    start, stop, factor = c.a('start'), c.a('stop'), c.a('factor')
    j = z3.Int('j')
    jit = c.sv('jitter')
    if isinstance(jit, SReal):
        jt = jit.t
    elif isinstance(jit, SBool) and z3.is_true(jit.t):
        jt = z3.RealVal(1)
    else:
        jt = z3.RealVal(0)
    lo = lambda b: z3.If(b <= b * (1 - jt), b, b * (1 - jt))  # noqa: E731
    hi = lambda b: z3.If(b <= b * (1 - jt), b * (1 - jt), b)  # noqa: E731
    bj = z3.Select(base, j)
    return [
        ('first value is start', z3.Implies(n >= 1, z3.Select(base, 0) == start)),
        ('a start of 0 is followed by min(1, stop)',
         z3.Implies(z3.And(n >= 2, start == 0), z3.Select(base, 1) == z3.If(stop < 1, stop, z3.RealVal(1)))),
        ('never decreases, never exceeds stop', z3.ForAll([j], z3.Implies(z3.And(0 <= j, j < n), z3.And(
            bj <= stop, bj >= 0, z3.Implies(j >= 1, bj >= z3.Select(base, j - 1)))))),
        ('grows by exactly factor per step, capped at stop', z3.ForAll([j], z3.Implies(
            z3.And(1 <= j, j < n, z3.Select(base, j - 1) != 0),
            bj == z3.If(z3.Select(base, j - 1) * factor > stop, stop, z3.Select(base, j - 1) * factor)))),
        ('every yielded value lies between b and b*(1-jitter)', z3.ForAll([j], z3.Implies(
            z3.And(0 <= j, j < n), z3.And(lo(bj) <= z3.Select(y, j), z3.Select(y, j) <= hi(bj))))),
    ]


def bo_inv(c):
    n, y, base = c.g('out_n'), c.g('out_0'), c.g('base')
    cur = c.L('cur')
    i = c.L('i')
    out = [('valid parameters reached the loop', bo_valid(c)),
           ('index', z3.And(i == n, n >= 0)),
           ('cur is the next base value', z3.And(cur >= 0, cur <= c.a('stop'),
                                                 cur == z3.If(n == 0, c.a('start'), bo_nextval(c, z3.Select(base, n - 1)))))]
    cnt = c.sv('count')
    lc = c.Lsv('count')
    if isinstance(cnt, SInt):
        out.append(('count unchanged', z3.And(lc.t == cnt.t, n <= cnt.t)))
    jl = c.Lsv('jitter')
    js = c.sv('jitter')
    if isinstance(js, SReal):
        out.append(('jitter unchanged', jl.t == js.t))
    out += [('so far: ' + l, f) for l, f in bo_facts(c, n, base, y)]
    return out


def bo_ensures(c):
    n, y, base = c.g('out_n'), c.g('out_0'), c.g('base')
    out = [('returns only for valid parameters', bo_valid(c))]
    out += bo_facts(c, n, base, y)
    cnt = c.sv('count')
    if isinstance(cnt, SInt):
        out.append(('exactly count values', n == cnt.t))
    if isinstance(cnt, SStr):
        out.append(("'repeat' never terminates", z3.BoolVal(False)))
    return out


def bo_raises(c):
    return [('ValueError only for invalid parameters', z3.Not(bo_valid(c))),
            ('nothing was yielded before', c.g('out_n') == 0)]


def bo_hints(c, event, data):
    if event == 'yield':
        return [('ghost', 'base', z3.Store(c.g('base'), c.g('out_n'), c.L('cur')))]
    return []


def ext_random(eng, args, kwargs, st, node):
    r = st.fresh.const('rand', z3.RealSort())
    s = st.assume(z3.And(r >= 0, r < 1))
    eng.trusted.add('random.random() returns a real in [0, 1)')
    return [(SReal(r), s)]


def ext_log(eng, args, kwargs, st, node):
    eng.trusted.add('math.log / math.ceil: result unconstrained (the default-count clause is decided by the bounded check)')
    return [(SReal(st.fresh.const('log', z3.RealSort())), st)]


def ext_ceil(eng, args, kwargs, st, node):
    return [(SInt(st.fresh.const('ceil', z3.IntSort())), st)]


EXTERNALS = {'random.random': ext_random, 'math.log': ext_log, 'math.ceil': ext_ceil}
CONSTS = {'math': SFunc('module', 'math'), 'random': SFunc('module', 'random')}

backoff_iter = Contract('backoff_iter', setup=bo_setup, requires=lambda c: [], ensures=bo_ensures,
                        raises={'ValueError': bo_raises}, modifies=lambda c: [],
                        loops={0: Loop(bo_inv, heap=[], ghost=['base'])}, generator=True, hints=bo_hints,
                        variants=['int,nojit', 'int,jit', 'int,true', 'repeat,nojit', 'repeat,jit', 'none,nojit', 'none,jit'])
CONTRACTS['backoff_iter'] = backoff_iter


def make_engine(repo):
    from pyvc.engine import Engine
    return Engine(repo, FILE, classes=CLASSES, contracts=CONTRACTS, consts=CONSTS, externals=EXTERNALS)


# ---- default count (count=None, factor > 1): the last value is stop ----------------------------------------------------------------
# pw(f, k) = f**k for integer k >= 0 (recursive definition); math.log / math.ceil are given their mathematical meaning over
# the reals (trusted): c = ceil(log(x, f)) for f > 1, x >= 1 satisfies c >= 0, f**c >= x and (c >= 1 => f**(c-1) < x).
pw = z3.Function('pw', z3.RealSort(), z3.IntSort(), z3.RealSort())      # uninterpreted; defining equations are instantiated as axioms
_LOGS = {}


def ext_log2(eng, args, kwargs, st, node):
    x, f = args[0], args[1]
    out = []
    for side, s in eng.fork(st, f.t == 1, 'log base 1'):
        if side:
            out.append((SExc('ZeroDivisionError'), s))
        else:
            v = s.fresh.const('log', z3.RealSort())
            _LOGS[v.get_id()] = (x.t, f.t)
            out.append((SReal(v), s))
    eng.trusted.add('math.log(x, f) / math.ceil over the reals: c = ceil(log_f x) with f > 1, x >= 1 gives c >= 0, f**c >= x, f**(c-1) < x (c >= 1)')
    return out


def ext_ceil2(eng, args, kwargs, st, node):
    v = args[0]
    c = st.fresh.const('ceil', z3.IntSort())
    info = _LOGS.get(v.t.get_id()) if isinstance(v, SReal) else None
    if info is None:
        return [(SInt(c), st)]
    x, f = info
    facts = z3.Implies(z3.And(f > 1, x >= 1), z3.And(c >= 0, pw(f, c) >= x, z3.Implies(c >= 1, pw(f, c - 1) < x)))
    return [(SInt(c), st.assume(facts))]


def bo_default_setup(eng, st, variant):
    return bo_setup(eng, st, 'none,nojit')


def bo_default_requires(c):
    return [('the statement covers the default count for factor > 1 and valid parameters', z3.And(c.a('factor') > 1, bo_valid(c)))]


def bo_F(c, j):
    """the j-th un-jittered value in closed form"""
    start, stop, f = c.a('start'), c.a('stop'), c.a('factor')
    cap = lambda v: z3.If(v > stop, stop, v)  # noqa: E731
    D = z3.If(stop < 1, stop, z3.RealVal(1))
    return z3.If(start > 0, cap(start * pw(f, j)), z3.If(j <= 0, z3.RealVal(0), cap(D * pw(f, j - 1))))


def bo_default_inv(c):
    n, base = c.g('out_n'), c.g('base')
    e = c.x['loop_entry']
    start, stop, f = c.a('start'), c.a('stop'), c.a('factor')
    cnt0 = e.locals['count'].t
    return bo_inv(c) + [
        ('the derived count does not change', c.L('count') == cnt0),
        ('cur has its closed form', c.L('cur') == bo_F(c, n)),
        ('the last value yielded has its closed form', z3.Implies(n >= 1, z3.Select(base, n - 1) == bo_F(c, n - 1))),
        ('n <= count', n <= cnt0)]


def bo_default_ensures(c):
    n, base = c.g('out_n'), c.g('base')
    return bo_facts(c, n, base, c.g('out_0')) + [('with the default count the last value is stop',
                                                 z3.And(n >= 1, z3.Select(base, n - 1) == c.a('stop')))]


def bo_default_hints(c, event, data):
    out = list(bo_hints(c, event, data))
    if event == 'yield':
        f, stop = c.a('factor'), c.a('stop')
        n = c.g('out_n')
        # unfoldings of the power function around the current index and monotonicity facts (each proved on its own)
        cur = c.L('cur')
        AX = 'pw(f, 0) = 1, pw(f, k+1) = f * pw(f, k) for k >= 0 (definition of integer powers)'
        out.append(('axiom', AX, pw(f, 0) == 1))
        for j in (n, n - 1):
            out.append(('axiom', AX, z3.Implies(j >= 0, pw(f, j + 1) == f * pw(f, j))))
        out.append(('mul_ge', z3.Implies(z3.And(f >= 1, cur >= stop, stop > 0), f * cur >= stop)))
    return out


backoff_default = Contract('backoff_iter', setup=bo_default_setup, requires=bo_default_requires, ensures=bo_default_ensures,
                           raises={}, modifies=lambda c: [], loops={0: Loop(bo_default_inv, heap=[], ghost=['base'])},
                           generator=True, hints=bo_default_hints, variants=['default'],
                           facts=lambda c: [('axiom pw(f, 0) = 1', pw(c.a('factor'), 0) == 1)])
CONTRACTS_DEFAULT = {'backoff_iter': backoff_default}
EXTERNALS_DEFAULT = {'random.random': ext_random, 'math.log': ext_log2, 'math.ceil': ext_ceil2}


def make_engine_default(repo):
    from pyvc.engine import Engine
    return Engine(repo, FILE, classes=CLASSES, contracts=CONTRACTS_DEFAULT, consts=CONSTS, externals=EXTERNALS_DEFAULT)


# ---------------------------------------------------------------------------------------------
# unique_iter(src, key): exactly the first occurrence of each key, in input order.
#   src = a finite sequence of opaque items item(0..n-1) (the same at every traversal); key(x) = x, or an opaque
#   deterministic callable.  Ghost: outsrc[m] = input position of the m-th yielded item, outpos = its inverse,
#   first[k] = input position of the first item with key k among those processed so far (-1: none).
ValArr = z3.ArraySort(z3.IntSort(), Val)
KeyIdx = z3.ArraySort(Val, z3.IntSort())
SeenSet = HeapClass('SeenSet', 'set', k=VAL)


def uq_setup(eng, st, variant=None):
    st.ghost['out_n'] = z3.IntVal(0)
    st.ghost['out_0'] = z3.Const('uq_out_init', ValArr)
    st.ghost['outsrc'] = z3.Const('uq_outsrc_init', IntArr)
    st.ghost['outpos'] = z3.Const('uq_outpos_init', IntArr)
    st.ghost['first'] = z3.K(Val, z3.IntVal(-1))
    src = SVal(z3.Const('arg_src', Val))
    eng.stable_lists.add(src.t.get_id())
    key = SNone() if variant == 'identity' else SVal(z3.Const('arg_key', Val))
    return dict(src=src, key=key)


def uq_key(c, x):
    if c.eng.variant == 'identity':
        return x
    return c.eng.f_opaque_call(c.a('key'), x)


def uq_item(c, j):
    return c.eng.f_oseq_item(c.a('src'), j)


def uq_requires(c):
    if c.eng.variant == 'identity':
        return []
    k = c.a('key')
    return [('key is a callable', z3.And(k != NONE, c.eng.f_callable(k)))]


def uq_hint(c, event, data):
    if event != 'yield':
        return []
    i, n = c.g('$iter_index'), c.g('out_n')
    return [('ghost', 'outsrc', z3.Store(c.g('outsrc'), n, i)), ('ghost', 'outpos', z3.Store(c.g('outpos'), i, n)),
            ('ghost', 'first', z3.Store(c.g('first'), c.L('k'), i))]


def uq_facts(c, upto):
    """the statement over the items at positions < upto"""
    n, out, osrc, opos, first = c.g('out_n'), c.g('out_0'), c.g('outsrc'), c.g('outpos'), c.g('first')
    m, m2, j, j2 = z3.Ints('m m2 j j2')
    kv = z3.Const('kv', Val)
    key = lambda jj: uq_key(c, uq_item(c, jj))  # noqa: E731
    is_first = lambda jj: z3.Select(first, key(jj)) == jj  # noqa: E731
    return [
        ('first[k] is the position of the first processed item with key k', z3.And(
            z3.ForAll([kv], z3.And(z3.Select(first, kv) >= -1, z3.Select(first, kv) < upto,
                                   z3.Implies(z3.Select(first, kv) >= 0, key(z3.Select(first, kv)) == kv))),
            z3.ForAll([j], z3.Implies(z3.And(0 <= j, j < upto), z3.And(z3.Select(first, key(j)) >= 0, z3.Select(first, key(j)) <= j))))),
        ('every yielded item is the first occurrence of its key, at an increasing input position', z3.And(n >= 0, z3.ForAll([m], z3.Implies(
            z3.And(0 <= m, m < n), z3.And(0 <= z3.Select(osrc, m), z3.Select(osrc, m) < upto,
                                          z3.Select(out, m) == uq_item(c, z3.Select(osrc, m)), is_first(z3.Select(osrc, m)),
                                          z3.Select(opos, z3.Select(osrc, m)) == m))),
            z3.ForAll([m, m2], z3.Implies(z3.And(0 <= m, m < m2, m2 < n), z3.Select(osrc, m) < z3.Select(osrc, m2))))),
        ('every first occurrence has been yielded', z3.ForAll([j], z3.Implies(
            z3.And(0 <= j, j < upto, is_first(j)),
            z3.And(0 <= z3.Select(opos, j), z3.Select(opos, j) < n, z3.Select(osrc, z3.Select(opos, j)) == j)))),
    ]


def uq_inv(c):
    seen = c.Lsv('seen')
    kv = z3.Const('kv', Val)
    sdom = z3.Select(c.arr(SeenSet, 'dom'), seen.t)
    return [('seen is the set allocated by this call', z3.And(seen.t >= z3.Int('alloc0'), seen.t == c.x['loop_entry'].locals['seen'].t)),
            ('seen = the keys of the items processed so far', z3.ForAll([kv], z3.Select(sdom, kv) == (z3.Select(c.g('first'), kv) >= 0)))
            ] + uq_facts(c, c.x['i'])


def uq_ensures(c):
    return uq_facts(c, c.eng.f_oseq_len(c.a('src')))


unique_iter = Contract('unique_iter', setup=uq_setup, requires=uq_requires, ensures=uq_ensures,
                       modifies=lambda c: [('SeenSet', 'dom'), ('SeenSet', 'size')],
                       loops={0: Loop(uq_inv, heap=[('SeenSet', 'dom'), ('SeenSet', 'size')], ghost=['outsrc', 'outpos', 'first'])},
                       local_types=dict(seen=REF(SeenSet)), generator=True, hints=uq_hint, variants=['identity', 'callable'])
is_iterable_c = Contract('is_iterable', inline=True)
CONTRACTS_UNIQUE = {'unique_iter': unique_iter, 'is_iterable': is_iterable_c}


def make_engine_unique(repo):
    from pyvc.engine import Engine
    eng = Engine(repo, FILE, classes={}, contracts=CONTRACTS_UNIQUE, consts=CONSTS, externals={'isinstance': ext_isinstance_opaque})
    for cls in (SeenSet, Bucket, Buckets):
        eng.register_class(cls)
    return eng


# ---------------------------------------------------------------------------------------------
# bucketize(src, key, value_transform, key_filter): every (kept) element lands in exactly one bucket, in input order.
#   Ghost: slot[j] = index of input item j inside the bucket of its key;  back[L][s] = input position stored in slot s of list L.
Bucket = HeapClass('BucketList', 'list', e=VAL)
Buckets = HeapClass('BucketDict', 'dict', k=VAL, v=REF(Bucket))
IntArr2 = z3.ArraySort(z3.IntSort(), IntArr)


isa = z3.Function('isinstance_of', Val, z3.StringSort(), z3.BoolSort())      # isinstance(x, T) for an opaque x: uninterpreted


def ext_isinstance_opaque(eng, args, kwargs, st, node):
    v, names = args
    if isinstance(v, SVal):
        return [(SBool(z3.Or(*[isa(v.t, z3.StringVal(n)) for n in names])), st)]
    return None


def bk_setup(eng, st, variant=None):
    src = SVal(z3.Const('arg_src', Val))
    eng.stable_lists.add(src.t.get_id())
    st.ghost['slot'] = z3.Const('bk_slot_init', IntArr)
    st.ghost['back'] = z3.Const('bk_back_init', IntArr2)
    vt = SNone() if 'plain' in variant else SVal(z3.Const('arg_value_transform', Val))
    kf = SNone() if 'nofilter' in variant else SVal(z3.Const('arg_key_filter', Val))
    return dict(src=src, key=SVal(z3.Const('arg_key', Val)), value_transform=vt, key_filter=kf)


def bk_requires(c):
    k = c.a('key')
    out = [('key is a callable (not a str, not a list)', z3.And(k != NONE, c.eng.f_callable(k), z3.Not(isa(k, z3.StringVal('list'))),
                                                              z3.Not(isa(k, z3.StringVal('str')))))]
    if isinstance(c.sv('value_transform'), SVal):
        out.append(('value_transform is a callable', z3.And(c.a('value_transform') != NONE, c.eng.f_callable(c.a('value_transform')))))
    if isinstance(c.sv('key_filter'), SVal):
        out.append(('key_filter is a callable', z3.And(c.a('key_filter') != NONE, c.eng.f_callable(c.a('key_filter')))))
    return out


def bk_key(c, j):
    return c.eng.f_opaque_call(c.a('key'), c.eng.f_oseq_item(c.a('src'), j))


def bk_val(c, j):
    x = c.eng.f_oseq_item(c.a('src'), j)
    return x if isinstance(c.sv('value_transform'), SNone) else c.eng.f_opaque_call(c.a('value_transform'), x)


def bk_kept(c, j):
    if isinstance(c.sv('key_filter'), SNone):
        return z3.BoolVal(True)
    r = c.eng.f_opaque_call(c.a('key_filter'), bk_key(c, j))
    return z3.And(r != NONE, c.eng.f_truthy(r))


def bk_hint(c, event, data):
    if event != 'list.append':
        return []
    lst, _v = data
    i = c.g('$iter_index')
    n = c.f(lst, 'len') - 1                 # the slot just filled
    back = c.g('back')
    return [('ghost', 'slot', z3.Store(c.g('slot'), i, n)),
            ('ghost', 'back', z3.Store(back, lst.t, z3.Store(z3.Select(back, lst.t), n, i)))]


def bk_facts(c, d, upto):
    dom, val = c.f(d, 'dom'), c.f(d, 'val')
    le, ll = c.arr(Bucket, 'elems'), c.arr(Bucket, 'len')
    slot, back = c.g('slot'), c.g('back')
    j, s, s2 = z3.Ints('j s s2')
    kv, kv2 = z3.Consts('kv kv2', Val)
    L = lambda k: z3.Select(val, k)  # noqa: E731
    bj = z3.Select(z3.Select(back, L(kv)), s)
    return [
        ('every kept item processed so far sits in the bucket of its key, at its ghost slot', z3.ForAll([j], z3.Implies(
            z3.And(0 <= j, j < upto, bk_kept(c, j)), z3.And(
                z3.Select(dom, bk_key(c, j)), 0 <= z3.Select(slot, j), z3.Select(slot, j) < z3.Select(ll, L(bk_key(c, j))),
                z3.Select(z3.Select(le, L(bk_key(c, j))), z3.Select(slot, j)) == bk_val(c, j),
                z3.Select(z3.Select(back, L(bk_key(c, j))), z3.Select(slot, j)) == j)))),
        ('every bucket slot holds exactly one kept item of that key; slots are in input order; no empty bucket', z3.And(
            z3.ForAll([kv, s], z3.Implies(z3.And(z3.Select(dom, kv), 0 <= s, s < z3.Select(ll, L(kv))), z3.And(
                0 <= bj, bj < upto, bk_kept(c, bj), bk_key(c, bj) == kv, z3.Select(slot, bj) == s))),
            z3.ForAll([kv, s, s2], z3.Implies(z3.And(z3.Select(dom, kv), 0 <= s, s < s2, s2 < z3.Select(ll, L(kv))),
                                              z3.Select(z3.Select(back, L(kv)), s) < z3.Select(z3.Select(back, L(kv)), s2))),
            z3.ForAll([kv], z3.Implies(z3.Select(dom, kv), z3.And(z3.Select(ll, L(kv)) >= 1, L(kv) >= z3.Int('alloc0'), L(kv) < c.st.alloc))),
            z3.ForAll([kv, kv2], z3.Implies(z3.And(z3.Select(dom, kv), z3.Select(dom, kv2), kv != kv2), L(kv) != L(kv2))))),
    ]


def bk_inv(c):
    ret = c.Lsv('ret')
    return [('ret is the dict allocated by this call', z3.And(ret.t >= z3.Int('alloc0'), ret.t == c.x['loop_entry'].locals['ret'].t,
                                                                ret.t < c.st.alloc))] + bk_facts(c, ret, c.x['i'])


def bk_ensures(c):
    r = c.result
    if not isinstance(r, SRef):
        return [('returns the bucket dict', z3.BoolVal(False))]
    return bk_facts(c, r, c.eng.f_oseq_len(c.a('src')))


BK_KEYS = [('BucketDict', 'dom'), ('BucketDict', 'val'), ('BucketDict', 'size'), ('BucketList', 'elems'), ('BucketList', 'len')]
bucketize = Contract('bucketize', setup=bk_setup, requires=bk_requires, ensures=bk_ensures, modifies=lambda c: list(BK_KEYS),
                     loops={0: Loop(bk_inv, heap=list(BK_KEYS), ghost=['slot', 'back'])}, local_types=dict(ret=REF(Buckets)),
                     hints=bk_hint, variants=['plain,nofilter', 'transform,filter'])
bucketize.ghost_mod = ['slot', 'back']
CONTRACTS_UNIQUE['bucketize'] = bucketize


# ---------------------------------------------------------------------------------------------
# partition(src, key): (items whose key is True, items whose key is False), each in input order - a wrapper of bucketize.
bucketize.returns = lambda c: SRef(Buckets, c.st.fresh.const('bucketized', z3.IntSort()))


def pt_setup(eng, st, variant=None):
    src = SVal(z3.Const('arg_src', Val))
    eng.stable_lists.add(src.t.get_id())
    st.ghost['slot'] = z3.Const('bk_slot_init', IntArr)
    st.ghost['back'] = z3.Const('bk_back_init', IntArr2)
    return dict(src=src, key=SVal(z3.Const('arg_key', Val)))


def pt_ensures(c):
    r = c.result
    from pyvc.values import STuple, SLit
    if not (isinstance(r, STuple) and len(r.items) == 2):
        return [('returns a pair of lists', z3.BoolVal(False))]
    n = c.eng.f_oseq_len(c.a('src'))
    le, ll = c.arr(Bucket, 'elems'), c.arr(Bucket, 'len')
    slot, back = c.g('slot'), c.g('back')
    j, s, s2 = z3.Ints('j s s2')
    out = []
    for name, lst, kval in (('true', r.items[0], c.eng.f_int2val(z3.IntVal(1))), ('false', r.items[1], c.eng.f_int2val(z3.IntVal(0)))):
        if isinstance(lst, SLit) and lst.kind == 'list' and not lst.items:
            out.append(('the %s list is the empty default only when no item has the key %s' % (name, name.capitalize()),
                        z3.ForAll([j], z3.Implies(z3.And(0 <= j, j < n), bk_key(c, j) != kval))))
            continue
        if not isinstance(lst, SRef):
            out.append(('returns a pair of lists', z3.BoolVal(False)))
            continue
        L = lst.t
        bj = z3.Select(z3.Select(back, L), s)
        out += [
            ('every item whose key is %s sits in the %s list, at its ghost slot' % (name.capitalize(), name), z3.ForAll([j], z3.Implies(
                z3.And(0 <= j, j < n, bk_key(c, j) == kval), z3.And(
                    0 <= z3.Select(slot, j), z3.Select(slot, j) < z3.Select(ll, L),
                    z3.Select(z3.Select(le, L), z3.Select(slot, j)) == c.eng.f_oseq_item(c.a('src'), j),
                    z3.Select(z3.Select(back, L), z3.Select(slot, j)) == j)))),
            ('every slot of the %s list holds exactly one item whose key is %s; slots are in input order' % (name, name.capitalize()), z3.And(
                z3.Select(ll, L) >= 0,
                z3.ForAll([s], z3.Implies(z3.And(0 <= s, s < z3.Select(ll, L)), z3.And(0 <= bj, bj < n, bk_key(c, bj) == kval,
                                                                                       z3.Select(slot, bj) == s))),
                z3.ForAll([s, s2], z3.Implies(z3.And(0 <= s, s < s2, s2 < z3.Select(ll, L)),
                                              z3.Select(z3.Select(back, L), s) < z3.Select(z3.Select(back, L), s2)))))]
    return out


def pt_requires(c):
    k = c.a('key')
    return [('key is a callable (not a str, not a list)', z3.And(k != NONE, c.eng.f_callable(k), z3.Not(isa(k, z3.StringVal('list'))),
                                                              z3.Not(isa(k, z3.StringVal('str')))))]


partition = Contract('partition', setup=pt_setup, requires=pt_requires, ensures=pt_ensures,
                     modifies=lambda c: list(BK_KEYS), variants=['callable'])
partition.ghost_mod = ['slot', 'back']
CONTRACTS_UNIQUE['partition'] = partition
