"""unique_iter under its own engine (contracts in iterutils_c.py)"""
from .iterutils_c import FILE, CONTRACTS_UNIQUE as CONTRACTS, make_engine_unique as make_engine, SeenSet  # noqa: F401
CLASSES = {}
ALL = [SeenSet]
