"""Contracts for boltons.fileutils.AtomicSaver / atomic_rename (properties C04, C05) over a ghost file system.

Ghost file system (two paths matter: D = dest_path, P = part_path, P != D):
  ent_D, ent_P : inode id (0 = absent);  vol, dur : inode -> bytes (page cache / stable storage);  mode : inode -> int
  part file object: ubuf (user-space buffer), fopen;  written = all bytes the body passed to write()
  published: the new inode has been bound to D;  OLD_D = ent_D at entry
Assumed OS contracts (trusted base; every call may instead raise OSError and then changes nothing, except close()
which releases the descriptor even when it fails):
  os.open(P, O_CREAT|O_EXCL...) fails iff P exists, else binds P to a fresh empty inode with mode umasked(perms)
  write appends to ubuf; flush moves ubuf to vol[ino]; fsync makes dur[ino] = vol[ino]; close flushes then closes
  rename(P, D) atomically binds D to P's inode and removes P; link(P, D) fails iff D exists, else binds D too
  unlink removes the name; chmod sets mode; lexists/stat read only
Crash invariant, asserted after EVERY effect (C04):
  CI  not published => D is still bound to OLD_D and OLD_D's vol/dur/mode are untouched
      published     => D's inode has dur = vol = written (complete, durable new content)
Publication obligation at the rename/link call: ubuf empty, dur[p] = vol[p] = written, file closed.
"""
import ast

import z3

from pyvc.values import (HeapClass, INT, BOOL, VAL, REF, STR, SRef, SVal, SInt, SBool, SNone, SFunc, SStr, SExc,
                         STuple, Val, NONE, Unsupported, Inapplicable)
from pyvc.contract import Contract, Loop

FILE = 'boltons/fileutils.py'
PartFile = HeapClass('PartFile', 'record', fields={})
StatRes = HeapClass('StatRes', 'record', fields=dict(st_mode=INT))
Saver = HeapClass('AtomicSaver', 'record', pyclass='AtomicSaver', fields=dict(
    dest_path=VAL, part_path=VAL, overwrite=BOOL, overwrite_part=BOOL, rm_part_on_exc=BOOL, text_mode=BOOL,
    part_file=REF(PartFile), open_flags=VAL, mode=VAL, buffering=VAL, _default_file_perms=INT, file_perms=INT))
CLASSES = {'AtomicSaver': Saver}
ALL = [PartFile, StatRes, Saver]
StrArr = z3.ArraySort(z3.IntSort(), z3.StringSort())
IntArr = z3.ArraySort(z3.IntSort(), z3.IntSort())
OPENFLAGS = z3.Const('OPEN_FLAGS_EXCL_CREAT', Val)
umasked = z3.Function('umasked', z3.IntSort(), z3.IntSort())
GH = ['ent_D', 'ent_P', 'vol', 'dur', 'mode', 'ubuf', 'written', 'fopen', 'published', 'unlink_failed', 'next_ino',
      'fd_ino', 'file_ino', 'closed_ok', 'created']


def init_ghost(st):
    g = st.ghost
    g['ent_D'] = z3.Int('ent_D0')
    g['ent_P'] = z3.Int('ent_P0')
    g['vol'] = z3.Const('vol0', StrArr)
    g['dur'] = z3.Const('dur0', StrArr)
    g['mode'] = z3.Const('mode0', IntArr)
    g['ubuf'] = z3.StringVal('')
    g['written'] = z3.StringVal('')
    g['fopen'] = z3.BoolVal(False)
    g['published'] = z3.BoolVal(False)
    g['unlink_failed'] = z3.BoolVal(False)
    g['next_ino'] = z3.Int('next_ino0')
    g['fd_ino'] = z3.IntVal(0)
    g['file_ino'] = z3.IntVal(0)
    g['closed_ok'] = z3.BoolVal(True)
    g['created'] = z3.BoolVal(False)


def base_facts(st):
    g = st.ghost
    return z3.And(g['ent_D'] >= 0, g['ent_P'] >= 0, g['next_ino'] > g['ent_D'], g['next_ino'] > g['ent_P'],
                  g['next_ino'] >= 1, z3.Or(g['ent_D'] == 0, g['ent_D'] != g['ent_P']))


def crash_inv(old, st):
    g, o = st.ghost, old.ghost
    d0 = o['ent_D']
    unpub = z3.And(g['ent_D'] == d0,
                   z3.Implies(d0 != 0, z3.And(z3.Select(g['vol'], d0) == z3.Select(o['vol'], d0),
                                              z3.Select(g['dur'], d0) == z3.Select(o['dur'], d0),
                                              z3.Select(g['mode'], d0) == z3.Select(o['mode'], d0))))
    pub = z3.And(g['ent_D'] != 0, z3.Select(g['dur'], g['ent_D']) == g['written'],
                 z3.Select(g['vol'], g['ent_D']) == g['written'])
    return z3.If(g['published'], pub, unpub)


class FS:
    """external-call table: each handler returns the outcomes of the call (normal effect | OSError)"""

    def __init__(self):
        self.entry = None

    def which(self, eng, st, pathv):
        s = st.locals.get('self') or eng.entry_args['self']
        d = eng.hload(st, s, 'dest_path')
        p = eng.hload(st, s, 'part_path')
        t = z3.simplify(pathv.t) if isinstance(pathv, SVal) else None
        if t is not None and z3.eq(t, z3.simplify(d)):
            return 'D'
        if t is not None and z3.eq(t, z3.simplify(p)):
            return 'P'
        raise Unsupported('file-system call on a path that is neither dest_path nor part_path')

    def effect(self, eng, st, what, node):
        """after every effect: the crash invariant must hold (C04)"""
        eng.oblige('assert', 'crash invariant after %s' % what, st, crash_inv(eng.entry_state, st), node)

    def may_fail(self, st, what, exc='OSError'):
        s = st.copy()
        s.note('%s raises OSError' % what)
        s.events = s.events + (('fault', what),)
        return (SExc(exc), s)

    def lexists(self, eng, args, kwargs, st, node):
        w = self.which(eng, st, args[0])
        return [(SBool(st.ghost['ent_' + w] != 0), st)]

    def stat(self, eng, args, kwargs, st, node):
        w = self.which(eng, st, args[0])
        out = []
        for side, s in eng.fork(st, st.ghost['ent_' + w] != 0, 'exists'):
            if side:
                s = s.copy()
                r = eng.new_ref(s, StatRes)
                eng.hstore(s, r, 'st_mode', z3.Select(s.ghost['mode'], s.ghost['ent_' + w]))
                out.append((r, s))      # os.stat is assumed to fail only when the path does not exist
            else:
                out.append((SExc('OSError'), s))
        return out

    def s_imode(self, eng, args, kwargs, st, node):
        return [(args[0], st)]

    def unlink(self, eng, args, kwargs, st, node):
        w = self.which(eng, st, args[0])
        if w == 'D':
            eng.oblige('assert', 'no unlink ever names the destination', st, z3.BoolVal(False), node)
        out = []
        for side, s in eng.fork(st, st.ghost['ent_' + w] != 0, 'exists'):
            if side:
                s2 = s.copy()
                s2.ghost['ent_' + w] = z3.IntVal(0)
                self.effect(eng, s2, 'os.unlink', node)
                out.append((SNone(), s2))
                f = self.may_fail(s, 'os.unlink')
                f[1].ghost['unlink_failed'] = z3.BoolVal(True)
                out.append(f)
            else:
                out.append((SExc('OSError'), s))
        return out

    def open(self, eng, args, kwargs, st, node):
        w = self.which(eng, st, args[0])
        if w != 'P':
            eng.oblige('assert', 'only the part path is ever opened for writing', st, z3.BoolVal(False), node)
        flags = args[1]
        exclusive = isinstance(flags, SVal) and z3.eq(flags.t, OPENFLAGS)
        perms = args[2]
        if not isinstance(perms, SInt):
            raise Unsupported('os.open perms %r' % (perms,))
        out = []
        for side, s in eng.fork(st, st.ghost['ent_P'] != 0, 'part exists'):
            if side and exclusive:
                out.append((SExc('OSError'), s))        # O_EXCL: a pre-existing part file is never reused
            elif side:
                # flags other than the module's O_CREAT|O_EXCL word: the open may succeed on the EXISTING file, without
                # truncating it (its old bytes stay in place)
                s2 = s.copy()
                s2.ghost['fd_ino'] = s2.ghost['ent_P']
                out.append((SInt(s2.fresh.const('fd', z3.IntSort())), s2))
                out.append(self.may_fail(s, 'os.open'))
            else:
                s2 = s.copy()
                ino = s2.ghost['next_ino']
                s2.ghost['next_ino'] = ino + 1
                s2.ghost['ent_P'] = ino
                s2.ghost['vol'] = z3.Store(s2.ghost['vol'], ino, z3.StringVal(''))
                s2.ghost['dur'] = z3.Store(s2.ghost['dur'], ino, z3.StringVal(''))
                s2.ghost['mode'] = z3.Store(s2.ghost['mode'], ino, umasked(perms.t))
                s2.ghost['fd_ino'] = ino
                s2.ghost['created'] = z3.BoolVal(True)
                self.effect(eng, s2, 'os.open', node)
                out.append((SInt(s2.fresh.const('fd', z3.IntSort())), s2))
                out.append(self.may_fail(s, 'os.open'))
        return out

    def set_cloexec(self, eng, args, kwargs, st, node):
        return [(SNone(), st), self.may_fail(st, 'set_cloexec')]

    def os_close(self, eng, args, kwargs, st, node):
        s = st.copy()
        s.ghost['fd_ino'] = z3.IntVal(0)
        return [(SNone(), s), self.may_fail(s, 'os.close')]

    def fdopen(self, eng, args, kwargs, st, node):
        s = st.copy()
        r = eng.new_ref(s, PartFile)
        s.ghost['fopen'] = z3.BoolVal(True)
        s.ghost['file_ino'] = s.ghost['fd_ino']
        return [(r, s), self.may_fail(st, 'os.fdopen')]

    def chmod(self, eng, args, kwargs, st, node):
        w = self.which(eng, st, args[0])
        if w != 'P':
            eng.oblige('assert', 'chmod never names the destination', st, z3.BoolVal(False), node)
        s = st.copy()
        s = s.assume(s.ghost['ent_P'] != 0) if False else s
        s.ghost['mode'] = z3.Store(s.ghost['mode'], s.ghost['ent_P'], args[1].t)
        self.effect(eng, s, 'os.chmod', node)
        return [(SNone(), s), self.may_fail(st, 'os.chmod')]

    def f_flush(self, eng, args, kwargs, st, node):
        s = st.copy()
        g = s.ghost
        ino = g['file_ino']
        g['vol'] = z3.Store(g['vol'], ino, z3.Concat(z3.Select(g['vol'], ino), g['ubuf']))
        g['ubuf'] = z3.StringVal('')
        self.effect(eng, s, 'part_file.flush', node)
        return [(SNone(), s), self.may_fail(st, 'part_file.flush')]

    def f_tell(self, eng, args, kwargs, st, node):
        # the body may have moved the file position anywhere: tell() is an arbitrary non-negative integer
        t = st.fresh.const('tell', z3.IntSort())
        return [(SInt(t), st.assume(t >= 0))]

    def f_fileno(self, eng, args, kwargs, st, node):
        return [(SInt(st.fresh.const('fileno', z3.IntSort())), st)]

    def fsync(self, eng, args, kwargs, st, node):
        s = st.copy()
        g = s.ghost
        ino = g['file_ino']
        g['dur'] = z3.Store(g['dur'], ino, z3.Select(g['vol'], ino))
        self.effect(eng, s, 'os.fsync', node)
        return [(SNone(), s), self.may_fail(st, 'os.fsync')]

    def f_close(self, eng, args, kwargs, st, node):
        # close() flushes what is still buffered (may fail after releasing the descriptor)
        s = st.copy()
        g = s.ghost
        ino = g['file_ino']
        g['vol'] = z3.Store(g['vol'], ino, z3.Concat(z3.Select(g['vol'], ino), g['ubuf']))
        g['ubuf'] = z3.StringVal('')
        g['fopen'] = z3.BoolVal(False)
        self.effect(eng, s, 'part_file.close', node)
        f = st.copy()
        f.ghost['fopen'] = z3.BoolVal(False)
        f.ghost['closed_ok'] = z3.BoolVal(False)
        f.note('part_file.close raises OSError')
        f.events = f.events + (('fault', 'part_file.close'),)
        return [(SNone(), s), (SExc('OSError'), f)]

    def publication(self, eng, st, node, how):
        g = st.ghost
        p = g['ent_P']
        eng.oblige('assert', 'publication (%s) only after everything is written, flushed, synced and closed' % how, st,
                   z3.And(p != 0, g['ubuf'] == z3.StringVal(''), z3.Select(g['vol'], p) == g['written'],
                          z3.Select(g['dur'], p) == g['written'], z3.Not(g['fopen']), g['closed_ok']), node)

    def rename(self, eng, args, kwargs, st, node):
        if not (self.which(eng, st, args[0]) == 'P' and self.which(eng, st, args[1]) == 'D'):
            eng.oblige('assert', 'rename is part -> dest only', st, z3.BoolVal(False), node)
        self.publication(eng, st, node, 'rename')
        out = []
        for side, s in eng.fork(st, st.ghost['ent_P'] != 0, 'part exists'):
            if side:
                s2 = s.copy()
                s2.ghost['ent_D'] = s2.ghost['ent_P']
                s2.ghost['ent_P'] = z3.IntVal(0)
                s2.ghost['published'] = z3.BoolVal(True)
                self.effect(eng, s2, 'os.rename', node)
                out.append((SNone(), s2))
                out.append(self.may_fail(s, 'os.rename'))
            else:
                out.append((SExc('OSError'), s))
        return out

    def link(self, eng, args, kwargs, st, node):
        if not (self.which(eng, st, args[0]) == 'P' and self.which(eng, st, args[1]) == 'D'):
            eng.oblige('assert', 'link is part -> dest only', st, z3.BoolVal(False), node)
        self.publication(eng, st, node, 'link')
        out = []
        for side, s in eng.fork(st, z3.And(st.ghost['ent_P'] != 0, st.ghost['ent_D'] == 0), 'link possible'):
            if side:
                s2 = s.copy()
                s2.ghost['ent_D'] = s2.ghost['ent_P']
                s2.ghost['published'] = z3.BoolVal(True)
                self.effect(eng, s2, 'os.link', node)
                out.append((SNone(), s2))
                out.append(self.may_fail(s, 'os.link'))
            else:
                out.append((SExc('OSError'), s))       # link refuses to clobber an existing destination
        return out


    def copy_into(self, eng, args, kwargs, st, node):
        """shutil.copy / copy2 / copyfile / move and friends write their target piecewise: never an atomic publication"""
        if len(args) >= 2 and self.which(eng, st, args[1]) == 'D':
            eng.oblige('assert', 'the destination is never written by a copy (only rename/link of the finished part file publish)',
                       st, z3.BoolVal(False), node)
            return [(SNone(), st), self.may_fail(st, 'shutil copy')]     # (the failed obligation above already blocks any proof)
        raise Unsupported('shutil copy that does not target the destination')


def externals(fs):
    cp = {n: fs.copy_into for n in ('copy', 'copy2', 'copyfile', 'move', 'shutil.copy', 'shutil.copy2', 'shutil.copyfile', 'shutil.move')}
    return cp | {'os.path.lexists': fs.lexists, 'os.stat': fs.stat, 'stat.S_IMODE': fs.s_imode, 'os.unlink': fs.unlink,
            'os.open': fs.open, 'set_cloexec': fs.set_cloexec, 'os.fdopen': fs.fdopen, 'os.chmod': fs.chmod,
            'os.close': fs.os_close, 'os.fsync': fs.fsync, 'os.rename': fs.rename, 'os.link': fs.link,
            'method:PartFile.flush': fs.f_flush, 'method:PartFile.tell': fs.f_tell, 'method:PartFile.fileno': fs.f_fileno,
            'method:PartFile.close': fs.f_close}


# ---- setup ----------------------------------------------------------------------------------------------------------------
def saver(eng, st, variant):
    """variant: 'perms' | 'noperms' (file_perms given / None)"""
    init_ghost(st)
    s = SRef(Saver, z3.Int('self'))
    eng.field_consts = {('AtomicSaver', 'open_flags'): SVal(OPENFLAGS)}
    if variant and 'noperms' in variant:
        eng.field_consts[('AtomicSaver', 'file_perms')] = SNone()
    return s


def common_requires(c):
    s = c.sv('self')
    return [('P != D', c.f(s, 'dest_path') != c.f(s, 'part_path')), ('fs facts', base_facts(c.st)),
            ('self allocated', z3.And(s.t >= 1, s.t < c.st.alloc))]


def d_unchanged(c):
    g, o = c.st.ghost, c.old.ghost
    d0 = o['ent_D']
    return z3.And(g['ent_D'] == d0,
                  z3.Implies(d0 != 0, z3.And(z3.Select(g['vol'], d0) == z3.Select(o['vol'], d0),
                                             z3.Select(g['dur'], d0) == z3.Select(o['dur'], d0),
                                             z3.Select(g['mode'], d0) == z3.Select(o['mode'], d0))))


def part_cleaned(c):
    """C05: with rm_part_on_exc no part file created by this save is left behind (unless unlink itself failed)"""
    g, o = c.st.ghost, c.old.ghost
    s = c.sv('self')
    return z3.Implies(z3.And(c.f(s, 'rm_part_on_exc'), z3.Not(g['unlink_failed'])),
                      z3.Or(g['ent_P'] == 0, z3.And(g['ent_P'] == o['ent_P'], z3.Not(g['created']))))


# ---- setup() / _open_part_file() / __enter__ --------------------------------------------------------------------------------
def enter_setup(eng, st, variant):
    return dict(self=saver(eng, st, variant))


def enter_requires(c):
    return common_requires(c) + [('no part file object yet', c.f(c.sv('self'), 'part_file') == 0)]


def enter_ensures(c):
    g, o = c.st.ghost, c.old.ghost
    s = c.sv('self')
    p = g['ent_P']
    perms_given = ('AtomicSaver', 'file_perms') not in c.eng.field_consts
    fp = c.f(s, 'file_perms')
    want_mode = (fp if perms_given else
                 z3.If(o['ent_D'] != 0, z3.Select(o['mode'], o['ent_D']), umasked(c.f(s, '_default_file_perms'))))
    return [
        ('destination untouched', d_unchanged(c)),
        ('refused when overwrite=False and the destination exists', z3.Or(c.f(s, 'overwrite'), o['ent_D'] == 0)),
        ('a pre-existing part file is replaced only with overwrite_part', z3.Or(o['ent_P'] == 0, c.f(s, 'overwrite_part'))),
        ('part path bound to a fresh, empty, open file', z3.And(
            p != 0, p >= o['next_ino'], z3.Select(g['vol'], p) == z3.StringVal(''), z3.Select(g['dur'], p) == z3.StringVal(''),
            g['fopen'], g['ubuf'] == z3.StringVal(''), g['file_ino'] == p, c.f(s, 'part_file') != 0)),
        ('permissions: explicit > replaced file > umask default', z3.Select(g['mode'], p) == want_mode),
        ('returns the part file', z3.BoolVal(True) if isinstance(c.result, SNone) else c.r() == c.f(s, 'part_file')),
    ]


def enter_raises(c):
    return [('destination untouched', d_unchanged(c)),
            ('no part file left behind (rm_part_on_exc)', part_cleaned(c)),
            ('a pre-existing part file is never removed without overwrite_part',
             z3.Or(c.old.ghost['ent_P'] == 0, c.f(c.sv('self'), 'overwrite_part'), c.st.ghost['ent_P'] == c.old.ghost['ent_P']))]


ENTER_MOD = lambda c: [('AtomicSaver', 'part_file'), ('StatRes', 'st_mode')]  # noqa: E731
setup_c = Contract('AtomicSaver.setup', setup=enter_setup, requires=enter_requires, ensures=enter_ensures,
                   raises={'OSError': enter_raises}, modifies=ENTER_MOD, variants=['perms', 'noperms'])
open_part = Contract('AtomicSaver._open_part_file', inline=True)
enter_c = Contract('AtomicSaver.__enter__', setup=enter_setup, requires=enter_requires, ensures=enter_ensures,
                   raises={'OSError': enter_raises}, modifies=ENTER_MOD, variants=['perms', 'noperms'],
                   returns=lambda c: SRef(PartFile, c.st.fresh.const('pf', z3.IntSort())))
setup_c.ghost_mod = enter_c.ghost_mod = GH


# ---- __exit__ -------------------------------------------------------------------------------------------------------------------
def exit_setup(eng, st, variant):
    s = saver(eng, st, variant)
    g = st.ghost
    # state after __enter__ and an arbitrary BODY (any number of writes, optional flushes; may have raised):
    g['ubuf'] = z3.String('ubuf1')
    g['written'] = z3.String('written1')
    g['fopen'] = z3.BoolVal(True)
    g['file_ino'] = g['ent_P']
    g['created'] = z3.BoolVal(True)       # the part file was created by this save (__enter__)
    exc = 'exc' in variant
    et = SVal(z3.Const('exc_type', Val)) if exc else SNone()
    return dict(self=s, exc_type=et, exc_val=SVal(z3.Const('exc_val', Val)), exc_tb=SVal(z3.Const('exc_tb', Val)))


def exit_requires(c):
    g = c.st.ghost
    s = c.sv('self')
    p = g['ent_P']
    out = common_requires(c) + [
        ('part file is open on a fresh inode holding what the body flushed so far',
         z3.And(p != 0, p != g['ent_D'], c.f(s, 'part_file') != 0,
                z3.Concat(z3.Select(g['vol'], p), g['ubuf']) == g['written'])),
        ('refusal already happened at entry', z3.BoolVal(True))]
    et = c.sv('exc_type')
    if isinstance(et, SVal):
        out.append(('exc_type is an exception class (truthy)', z3.And(et.t != NONE, c.eng.f_truthy(et.t))))
    return out


def exit_ensures(c):
    g, o = c.st.ghost, c.old.ghost
    s = c.sv('self')
    body_raised = isinstance(c.sv('exc_type'), SVal)
    out = [('returns a falsy value (a body exception is never swallowed)', z3.BoolVal(isinstance(c.result, SNone)))]
    if body_raised:
        out += [('body raised: destination untouched', d_unchanged(c)),
                ('body raised: no part file left behind (rm_part_on_exc)', part_cleaned(c))]
    else:
        out += [('normal exit: complete new content is at the destination, durable',
                 z3.And(g['published'], g['ent_D'] == o['ent_P'], z3.Select(g['vol'], g['ent_D']) == g['written'],
                        z3.Select(g['dur'], g['ent_D']) == g['written'])),
                ('normal exit: no part file left', g['ent_P'] == 0),
                ('normal exit: permissions of the new file are those set at creation',
                 z3.Select(g['mode'], g['ent_D']) == z3.Select(o['mode'], o['ent_P'])),
                ('overwrite=False never replaces an existing destination', z3.Or(c.f(s, 'overwrite'), o['ent_D'] == 0))]
    return out


def exit_raises(c):
    body_raised = isinstance(c.sv('exc_type'), SVal)
    g = c.st.ghost
    # the only failure after publication is the unlink of the part name that follows a successful link(): the new
    # content is then complete at the destination (post-completion error, not a failed save)
    post_completion = z3.And(g['unlink_failed'], crash_inv(c.old, c.st))
    return [('failure: destination untouched (or the save had already completed and only removing the part name failed)',
             z3.If(g['published'], post_completion, d_unchanged(c))),
            ('failure: no part file left behind (rm_part_on_exc)', part_cleaned(c))]


exit_c = Contract('AtomicSaver.__exit__', setup=exit_setup, requires=exit_requires, ensures=exit_ensures,
                  raises={'OSError': exit_raises}, modifies=lambda c: [],
                  variants=['perms,ok', 'perms,exc'])
atomic_rename_c = Contract('atomic_rename', inline=True)
replace_c = Contract('replace', inline=True)

CONTRACTS = {c.qualname: c for c in [setup_c, open_part, enter_c, exit_c, atomic_rename_c, replace_c]}
CONSTS = {'os': SFunc('module', 'os'), 'stat': SFunc('module', 'stat'), 'errno': SFunc('module', 'errno'),
          'set_cloexec': SFunc('extfunc', 'set_cloexec'), 'shutil': SFunc('module', 'shutil'),
          'copy2': SFunc('extfunc', 'copy2'), 'copyfile': SFunc('extfunc', 'copyfile'), 'copy': SFunc('extfunc', 'copy'),
          'move': SFunc('extfunc', 'move')}


def make_engine(repo):
    from pyvc.engine import Engine
    fs = FS()
    eng = Engine(repo, FILE, classes=CLASSES, contracts=CONTRACTS, consts=dict(CONSTS), externals=externals(fs))
    for c in ALL:
        eng.register_class(c)
    eng.fs = fs
    return eng


def flags_obligation(src):
    """finite obligation on the real module text: both open-flag constants contain O_CREAT and O_EXCL"""
    def names(expr):
        return {n.attr for n in ast.walk(expr) if isinstance(n, ast.Attribute)} | \
               {n.id for n in ast.walk(expr) if isinstance(n, ast.Name)}
    t = src.consts.get('_TEXT_OPENFLAGS')
    b = src.consts.get('_BIN_OPENFLAGS')
    if t is None or b is None:
        return None
    tn = names(t)
    bn = names(b)
    ok_t = {'O_CREAT', 'O_EXCL'} <= tn
    ok_b = {'O_CREAT', 'O_EXCL'} <= bn or '_TEXT_OPENFLAGS' in bn and ok_t
    return ok_t and ok_b
