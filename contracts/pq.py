"""Contracts for boltons.queueutils.BasePriorityQueue (property C10) against an ABSTRACT backend contract.

The backend (`_pq`) is a bag of entries with access to its minimum under the lexicographic order on
(effective priority, insertion counter):
   truthiness = non-empty;  _pq[0] = the minimum (IndexError when empty);
   _push_entry(backend, e) inserts e;  _pop_entry(backend) removes and returns the minimum (IndexError when empty).
heapq (HeapPriorityQueue) and bisect.insort over BarrelList (SortedPriorityQueue) are assumed to meet it.
Ghost: inbag : Ref -> Bool, bagsize.  Entries are 3-slot cells [priority, count, task].

Invariant Q:
  Q2  t in entry_map  =>  entry_map[t] is in the bag, holds task t, t is not the _REMOVED sentinel
  Q3  e in the bag    =>  e allocated, count[e] < next counter value, and e is a tombstone (task = _REMOVED) or
                           entry_map[task[e]] is e
  Q4  distinct entries in the bag have distinct counters          (so the order is strict and total on the bag)
"""
import z3

from pyvc.values import (HeapClass, INT, VAL, REF, BOOL, SRef, SVal, SInt, SBool, SNone, STuple, SExc, SFunc, Val, NONE)
from pyvc.contract import Contract, Loop

FILE = 'boltons/queueutils.py'
Entry = HeapClass('PQEntry', 'record', ncells=3, fields={'0': VAL, '1': INT, '2': VAL})
EntryMap = HeapClass('PQEntryMap', 'dict', k=VAL, v=REF(Entry))
Backend = HeapClass('PQBackend', 'record', fields={})
Counter = HeapClass('PQCounter', 'record', fields=dict(n=INT))
PQ = HeapClass('BasePriorityQueue', 'record', pyclass='BasePriorityQueue',
               fields=dict(_pq=REF(Backend), _entry_map=REF(EntryMap), _counter=REF(Counter), _get_priority=VAL))
CLASSES = {'BasePriorityQueue': PQ}
ALL = [Entry, EntryMap, Backend, Counter, PQ]
REMOVED = z3.Const('_REMOVED', Val)
prank = z3.Function('effective_priority', Val, z3.RealSort())
BoolArr = z3.ArraySort(z3.IntSort(), z3.BoolSort())
MAPKEYS = [('PQEntryMap', 'dom'), ('PQEntryMap', 'val'), ('PQEntryMap', 'size')]
ENTRYKEYS = [('PQEntry', '0'), ('PQEntry', '1'), ('PQEntry', '2')]


class V:
    def __init__(self, c, st=None):
        st = st or c.st
        s = c.args.get('self') or c.eng.entry_args['self']
        self.s = s
        self.st = st
        self.pq = c.f(s, '_pq', st)
        self.m = SRef(EntryMap, c.f(s, '_entry_map', st))
        self.dom, self.val, self.size = c.f(self.m, 'dom', st), c.f(self.m, 'val', st), c.f(self.m, 'size', st)
        self.cn = SRef(Counter, c.f(s, '_counter', st))
        self.n = c.f(self.cn, 'n', st)
        self.prio, self.count, self.task = c.arr(Entry, '0', st), c.arr(Entry, '1', st), c.arr(Entry, '2', st)
        self.inbag = st.ghost['inbag']
        self.bagsize = st.ghost['bagsize']
        self.alloc = st.alloc

    def lt(self, a, b):
        pa, pb = prank(z3.Select(self.prio, a)), prank(z3.Select(self.prio, b))
        return z3.Or(pa < pb, z3.And(pa == pb, z3.Select(self.count, a) < z3.Select(self.count, b)))

    def is_min(self, e):
        x = z3.Int('x')
        return z3.And(z3.Select(self.inbag, e), z3.ForAll([x], z3.Implies(z3.Select(self.inbag, x), z3.Not(self.lt(x, e)))))


def bag_facts(v):
    x = z3.Int('xb')
    return z3.And(v.bagsize >= 0, (v.bagsize == 0) == z3.ForAll([x], z3.Not(z3.Select(v.inbag, x))))


def Q(v):
    t = z3.Const('t', Val)
    e, e2 = z3.Ints('e e2')
    me = z3.Select(v.val, t)
    return [
        ('Q1', z3.And(v.s.t >= 1, v.s.t < v.alloc, v.m.t >= 1, v.m.t < v.alloc, v.cn.t >= 1, v.cn.t < v.alloc,
                      z3.Not(z3.Select(v.dom, REMOVED)))),
        ('Q2', z3.ForAll([t], z3.Implies(z3.Select(v.dom, t), z3.And(
            z3.Select(v.inbag, me), z3.Select(v.task, me) == t, t != REMOVED)))),
        ('Q3', z3.ForAll([e], z3.Implies(z3.Select(v.inbag, e), z3.And(
            e >= 1, e < v.alloc, z3.Select(v.count, e) < v.n,
            z3.Or(z3.Select(v.task, e) == REMOVED,
                  z3.And(z3.Select(v.dom, z3.Select(v.task, e)), z3.Select(v.val, z3.Select(v.task, e)) == e)))))),
        ('Q4', z3.ForAll([e, e2], z3.Implies(z3.And(z3.Select(v.inbag, e), z3.Select(v.inbag, e2), e != e2),
                                             z3.Select(v.count, e) != z3.Select(v.count, e2)))),
    ]


def req(c):
    v = V(c)
    t = z3.Const('tf', Val)
    return Q(v) + [('bag facts', bag_facts(v)),
                   ('map facts (true of every dict: len == 0 iff no key)', z3.And(v.size >= 0, (v.size == 0) == z3.ForAll([t], z3.Not(z3.Select(v.dom, t)))))]


def post_Q(c):
    return [('Q.' + l, f) for l, f in Q(V(c))]


def S(*names, **typed):
    def setup(eng, st, variant=None):
        st.ghost['inbag'] = z3.Const('inbag0', BoolArr)
        st.ghost['bagsize'] = z3.Int('bagsize0')
        d = dict(self=SRef(PQ, z3.Int('self')))
        for n in names:
            d[n] = SVal(z3.Const(n, Val))
        for n, mk in typed.items():
            d[n] = mk()
        return d
    return setup


# ---- abstract backend --------------------------------------------------------------------------------------------------
def ext_truth(eng, v, st):
    return st.ghost['bagsize'] != 0


def ext_getitem(eng, obj, idx, st, node):
    if eng.concrete_int(idx) != 0:
        raise Exception('only _pq[0] is part of the backend contract')
    out = []
    for side, s in eng.fork(st, st.ghost['bagsize'] != 0, 'bag nonempty'):
        if side:
            e = s.fresh.const('min_entry', z3.IntSort())
            c = _ctx(eng, s)
            s2 = s.assume(V(c, s).is_min(e))
            out.append((SRef(Entry, e), s2))
        else:
            out.append((SExc('IndexError'), s))
    return out


def _ctx(eng, st):
    from pyvc.contract import Ctx
    return Ctx(eng, st, eng.entry_state, eng.entry_args)


def push_requires(c):
    return [('entry not already in the bag', z3.Not(z3.Select(c.g('inbag'), c.sv('entry').t)))]


def push_ensures(c):
    return [('bag gains exactly the entry', z3.And(c.g('inbag') == z3.Store(c.og('inbag'), c.sv('entry').t, True),
                                                   c.g('bagsize') == c.og('bagsize') + 1)),
            ('bag facts', bag_facts(V(c)))]


def pop_entry_ensures(c):
    o = V(c, c.old)
    e = c.result.t
    return [('non-empty', o.bagsize != 0), ('the minimum is returned and removed', z3.And(
        o.is_min(e), c.g('inbag') == z3.Store(c.og('inbag'), e, False), c.g('bagsize') == c.og('bagsize') - 1)),
        ('bag facts', bag_facts(V(c)))]


def pop_entry_raises(c):
    return [('IndexError only when empty', c.og('bagsize') == 0),
            ('bag unchanged', z3.And(c.g('inbag') == c.og('inbag'), c.g('bagsize') == c.og('bagsize')))]


push_entry = Contract('BasePriorityQueue._push_entry', requires=push_requires, ensures=push_ensures, modifies=lambda c: [],
                      note='ASSUMED backend contract')
pop_entry = Contract('BasePriorityQueue._pop_entry', ensures=pop_entry_ensures, raises={'IndexError': pop_entry_raises},
                     modifies=lambda c: [], returns=lambda c: SRef(Entry, c.st.fresh.const('popped', z3.IntSort())),
                     note='ASSUMED backend contract')
push_entry.ghost_mod = pop_entry.ghost_mod = ['inbag', 'bagsize']


def ext_next(eng, args, kwargs, st, node):
    cn = args[0]
    if isinstance(cn, SRef) and cn.cls.name == 'PQCounter':
        s = st.copy()
        n = eng.hload(s, cn, 'n')
        eng.hstore(s, cn, 'n', n + 1)
        eng.trusted.add('itertools.count(): next() returns 0, 1, 2, ... (strictly increasing)')
        return [(SInt(n), s)]
    return None


EXTERNALS = {'truth:PQBackend': ext_truth, 'getitem:PQBackend': ext_getitem, 'next': ext_next}


# ---- remove ------------------------------------------------------------------------------------------------------------------
def others_same(o, n, *but):
    t = z3.Const('t', Val)
    cond = z3.And(*[t != b for b in but]) if but else z3.BoolVal(True)
    return z3.ForAll([t], z3.Implies(cond, z3.And(
        z3.Select(n.dom, t) == z3.Select(o.dom, t),
        z3.Implies(z3.Select(o.dom, t), z3.And(
            z3.Select(n.val, t) == z3.Select(o.val, t),
            z3.Select(n.prio, z3.Select(o.val, t)) == z3.Select(o.prio, z3.Select(o.val, t)),
            z3.Select(n.count, z3.Select(o.val, t)) == z3.Select(o.count, z3.Select(o.val, t)))))))


def remove_ens(c):
    o, n = V(c, c.old), V(c)
    task = c.a('task')
    return post_Q(c) + [('task was live and is no longer; all other tasks keep entry, priority and arrival position',
                         z3.And(z3.Select(o.dom, task), z3.Not(z3.Select(n.dom, task)), n.size == o.size - 1,
                                others_same(o, n, task), n.n == o.n)),
                        ('bag keeps its entries (lazy deletion)', z3.And(n.inbag == o.inbag, n.bagsize == o.bagsize))]


def remove_raises(c):
    o, n = V(c, c.old), V(c)
    return [('KeyError only for an absent task', z3.Not(z3.Select(o.dom, c.a('task')))),
            ('nothing changes', z3.And(others_same(o, n), n.size == o.size, n.n == o.n, n.inbag == o.inbag))]


PUBMOD = lambda c: MAPKEYS + ENTRYKEYS + [('PQCounter', 'n')]  # noqa: E731
remove = Contract('BasePriorityQueue.remove', setup=S('task'), requires=req, ensures=remove_ens,
                  raises={'KeyError': remove_raises}, modifies=PUBMOD, local_types=dict(entry=REF(Entry)))
remove.ghost_mod = ['inbag', 'bagsize']


# ---- add ------------------------------------------------------------------------------------------------------------------------
def add_ens(c):
    o, n = V(c, c.old), V(c)
    task, priority = c.a('task'), c.a('priority')
    e = z3.Select(n.val, task)
    key = c.eng.f_opaque_call(c.f(c.sv('self'), '_get_priority', c.old), priority)
    return post_Q(c) + [
        ('task is live with the effective priority of the given priority and a fresh (latest) arrival position',
         z3.And(z3.Select(n.dom, task), z3.Select(n.prio, e) == key, z3.Select(n.count, e) == o.n, n.n == o.n + 1)),
        ('re-adding replaces: exactly one entry for the task', n.size == z3.If(z3.Select(o.dom, task), o.size, o.size + 1)),
        ('all other tasks keep entry, priority and arrival position', others_same(o, n, task))]


add = Contract('BasePriorityQueue.add', setup=S('task', 'priority'), requires=lambda c: req(c) + [
    ('task is not the private sentinel', c.a('task') != REMOVED)], ensures=add_ens, modifies=PUBMOD,
    local_types=dict(entry=REF(Entry)))
add.ghost_mod = ['inbag', 'bagsize']


# ---- _cull ---------------------------------------------------------------------------------------------------------------------
def cull_frame(c, o, n):
    x = z3.Int('x')
    return [('map, entries and counter unchanged', z3.And(n.dom == o.dom, n.val == o.val, n.size == o.size, n.n == o.n,
                                                         n.prio == o.prio, n.count == o.count, n.task == o.task)),
            ('only tombstones leave the bag', z3.ForAll([x], z3.And(
                z3.Implies(z3.Select(n.inbag, x), z3.Select(o.inbag, x)),
                z3.Implies(z3.And(z3.Select(o.inbag, x), z3.Not(z3.Select(n.inbag, x))), z3.Select(o.task, x) == REMOVED))))]


def cull_inv(c):
    o, n = V(c, c.x['loop_entry']), V(c)
    return [('Q.' + l, f) for l, f in Q(n)] + cull_frame(c, V(c, c.old), n) + [('bag facts', bag_facts(n))]


def cull_ens(c):
    o, n = V(c, c.old), V(c)
    m = z3.Int('m')
    live_min = z3.Exists([m], z3.And(n.is_min(m), z3.Select(n.task, m) != REMOVED))
    return post_Q(c) + cull_frame(c, o, n) + [
        ('on return the bag is empty (only without raise_exc) or its minimum is a live entry',
         z3.Or(z3.And(n.bagsize == 0, z3.Not(c.sv('raise_exc').t)), z3.And(n.bagsize != 0, live_min))),
        ('bag facts', bag_facts(n))]


def cull_raises(c):
    o, n = V(c, c.old), V(c)
    return post_Q(c) + cull_frame(c, o, n) + [('IndexError only when no live entry is left', z3.And(n.bagsize == 0, n.size == 0))]


cull = Contract('BasePriorityQueue._cull', setup=S(raise_exc=lambda: SBool(z3.Bool('raise_exc'))), requires=req,
                ensures=cull_ens, raises={'IndexError': cull_raises}, modifies=lambda c: [],
                loops={0: Loop(cull_inv, heap=[], ghost=['inbag', 'bagsize'])})
cull.ghost_mod = ['inbag', 'bagsize']


# ---- peek / pop / __len__ ---------------------------------------------------------------------------------------------------------
def best_of(o, t):
    """t is a live task whose entry is minimal among all live tasks (highest priority, earliest arrival)"""
    u = z3.Const('u', Val)
    return z3.And(z3.Select(o.dom, t), z3.ForAll([u], z3.Implies(z3.Select(o.dom, u),
                                                                  z3.Not(o.lt(z3.Select(o.val, u), z3.Select(o.val, t))))))


def peek_ens(c):
    o, n = V(c, c.old), V(c)
    r = c.r()
    return post_Q(c) + [
        ('non-empty queue: the best live task is returned', z3.Implies(o.size != 0, best_of(o, r))),
        ('empty queue: the default is returned', z3.Implies(o.size == 0, z3.And(c.a('default') != REMOVED, r == c.a('default')))),
        ('queue content unchanged', z3.And(others_same(o, n), n.size == o.size, n.n == o.n))]


def empty_raises(c):
    o, n = V(c, c.old), V(c)
    return post_Q(c) + [('IndexError only for an empty queue without default', z3.And(o.size == 0, c.a('default') == REMOVED)),
                        ('queue content unchanged', z3.And(others_same(o, n), n.size == o.size, n.n == o.n))]


VALRET = lambda c: SVal(c.st.fresh.const('ret', Val))  # noqa: E731
peek = Contract('BasePriorityQueue.peek', setup=S('default'), requires=req, ensures=peek_ens,
                raises={'IndexError': empty_raises}, modifies=PUBMOD, returns=VALRET)


def pop_ens(c):
    o, n = V(c, c.old), V(c)
    r = c.r()
    return post_Q(c) + [
        ('non-empty queue: the best live task is returned and removed; the others are untouched',
         z3.Implies(o.size != 0, z3.And(best_of(o, r), z3.Not(z3.Select(n.dom, r)), n.size == o.size - 1, others_same(o, n, r)))),
        ('empty queue: the default is returned, nothing changes',
         z3.Implies(o.size == 0, z3.And(c.a('default') != REMOVED, r == c.a('default'), others_same(o, n), n.size == o.size))),
        ('counter unchanged', n.n == o.n)]


pop = Contract('BasePriorityQueue.pop', setup=S('default'), requires=req, ensures=pop_ens,
               raises={'IndexError': empty_raises}, modifies=PUBMOD, returns=VALRET)
length = Contract('BasePriorityQueue.__len__', setup=S(), requires=req,
                  ensures=lambda c: [('len = number of live tasks', c.r() == V(c).size)], modifies=lambda c: [])
peek.ghost_mod = pop.ghost_mod = ['inbag', 'bagsize']

CONTRACTS = {c.qualname: c for c in [push_entry, pop_entry, remove, add, cull, peek, pop, length]}
CONSTS = {'_REMOVED': SVal(REMOVED)}
FUNCS = ['BasePriorityQueue.remove', 'BasePriorityQueue.add', 'BasePriorityQueue._cull', 'BasePriorityQueue.peek',
         'BasePriorityQueue.pop', 'BasePriorityQueue.__len__']


def make_engine(repo):
    from pyvc.engine import Engine
    eng = Engine(repo, FILE, classes=CLASSES, contracts=CONTRACTS, consts=dict(CONSTS), externals=dict(EXTERNALS))
    for c in ALL:
        eng.register_class(c)
    return eng
