"""Assumed behaviour of opaque arguments (an arbitrary mapping / iterable / other object passed by the caller):
attributes may or may not exist, iteration yields an arbitrary finite sequence of opaque items, len() is a non-negative
integer, isinstance() is an arbitrary boolean."""
import z3

from pyvc.values import (SRef, SVal, SInt, SBool, SNone, SFunc, STuple, Val, HeapClass)

# ---- opaque mapping / iterable arguments (E, F, other) ----------------------------------------------------------------
def ext_getattr(eng, args, kwargs, st, node):
    obj, attr = args[0], args[1]
    if isinstance(obj, SVal):
        # the attribute may or may not exist on an arbitrary object
        has = st.fresh.const('hasattr_' + attr, z3.BoolSort())
        out = []
        for side, s in eng.fork(st, has):
            out.append((SFunc('opaque', st.fresh.const('attr_' + attr, Val)) if side else (args[2] if len(args) > 2 else SNone()), s))
        return out
    return None


def ext_opaque_iter(eng, it, st):
    if isinstance(it, SVal) or (isinstance(it, SFunc) and it.how == 'opaque_iter'):
        arr = st.fresh.const('items', z3.ArraySort(z3.IntSort(), Val))
        n = st.fresh.const('n_items', z3.IntSort())
        pairs = isinstance(it, SFunc) and it.a and it.a[0] == 'pairs'
        arr2 = st.fresh.const('items2', z3.ArraySort(z3.IntSort(), Val))

        def get(j):
            return SVal(z3.Select(arr, j))
        return dict(n=n, get=get, facts=[n >= 0], unpack2=lambda j: STuple([SVal(z3.Select(arr, j)), SVal(z3.Select(arr2, j))]))
    return None


def ext_opaque_keys(eng, args, kwargs, st, node):
    return [(SVal(st.fresh.const('keysview', Val)), st)]


def ext_opaque_len(eng, args, kwargs, st, node):
    n = st.fresh.const('olen', z3.IntSort())
    return [(SInt(n), st.assume(n >= 0))]


def ext_isinstance(eng, args, kwargs, st, node):
    v, names = args
    if isinstance(v, SVal):
        b = st.fresh.const('isinst', z3.BoolSort())
        return [(SBool(b), st)]
    return None


def ext_rlock(eng, args, kwargs, st, node):
    s = st.copy()
    r = eng.new_ref(s, eng.classes_by_name['RLock'])
    return [(r, s)]


EXTERNALS = {'getattr': ext_getattr, 'iterate': ext_opaque_iter, 'opaque.keys': ext_opaque_keys,
             'opaque.__len__': ext_opaque_len, 'isinstance': ext_isinstance}



def ext_opaque_method(eng, args, kwargs, st, node):
    """values()/items()/extend()/... of an opaque container: an opaque result, no effect on the objects under verification"""
    return [(SVal(st.fresh.const('opaque_result', Val)), st)]


for _m in ('values', 'items', 'extend', 'append', 'iteritems', 'iterkeys'):
    EXTERNALS['opaque.' + _m] = ext_opaque_method


def bi_list_opaque(eng, args, kwargs, st, node):
    return [(SVal(st.fresh.const('opaque_list', Val)), st)]
