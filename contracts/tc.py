"""Contracts for boltons.cacheutils.ThresholdCounter (property C20).

Representation invariant (lossy counting, Manku & Motwani) with ghost true counts `true : Val -> Int`:
  T1  w = _thresh_count >= 1, cur_bucket >= 1, (cur_bucket-1)*w <= total < cur_bucket*w      (so floor(total/w) = cur_bucket-1)
  T2  present k:  1 <= c[k] <= true[k] <= c[k]+e[k],  0 <= e[k] <= cur_bucket-1
  T3  absent  k:  0 <= true[k] <= cur_bucket-1
  OWN distinct keys own distinct, allocated cells
From T1-T3: never over-counts, under-counts by at most floor(total/w), every key above the slack is present.
"""
import z3

from pyvc.values import HeapClass, INT, REAL, VAL, REF, SRef, SVal, SInt, SNone, Val, NONE
from pyvc.contract import Contract, Ctx, Loop

FILE = 'boltons/cacheutils.py'

Cell = HeapClass('TCCell', 'record', fields={'0': INT, '1': INT}, ncells=2)
CountMap = HeapClass('TCCountMap', 'dict', k=VAL, v=REF(Cell))
TC = HeapClass('ThresholdCounter', 'record', pyclass='ThresholdCounter',
               fields=dict(total=INT, _thresh_count=INT, _cur_bucket=INT, _count_map=REF(CountMap), _threshold=REAL))

CLASSES = {'ThresholdCounter': TC}
ALL = [Cell, CountMap, TC]

TRUE_SORT = z3.ArraySort(Val, z3.IntSort())


def parts(c, st=None):
    self = c.sv('self')
    cm = SRef(CountMap, c.f(self, '_count_map', st))
    return dict(self=self, cm=cm, total=c.f(self, 'total', st), w=c.f(self, '_thresh_count', st),
                cb=c.f(self, '_cur_bucket', st), dom=c.f(cm, 'dom', st), val=c.f(cm, 'val', st),
                size=c.f(cm, 'size', st), c0=c.arr(Cell, '0', st), c1=c.arr(Cell, '1', st))


def wf(c, st, true, alloc):
    p = parts(c, st)
    k, k2 = z3.Consts('k k2', Val)
    cell = z3.Select(p['val'], k)
    cnt = z3.Select(p['c0'], cell)
    err = z3.Select(p['c1'], cell)
    return [
        ('T1.arith', z3.And(p['w'] >= 1, p['cb'] >= 1, (p['cb'] - 1) * p['w'] <= p['total'],
                            p['total'] < p['cb'] * p['w'])),
        ('T2.present', z3.ForAll([k], z3.Implies(z3.Select(p['dom'], k), z3.And(
            1 <= cnt, cnt <= z3.Select(true, k), z3.Select(true, k) <= cnt + err,
            0 <= err, err <= p['cb'] - 1)))),
        ('T3.absent', z3.ForAll([k], z3.Implies(z3.Not(z3.Select(p['dom'], k)),
                                                z3.And(0 <= z3.Select(true, k), z3.Select(true, k) <= p['cb'] - 1)))),
        ('OWN.cells', z3.And(
            p['cm'].t >= 1, p['cm'].t < alloc, p['self'].t >= 1, p['self'].t < alloc, p['size'] >= 0,
            z3.ForAll([k], z3.Implies(z3.Select(p['dom'], k), z3.And(cell >= 1, cell < alloc))),
            z3.ForAll([k, k2], z3.Implies(z3.And(z3.Select(p['dom'], k), z3.Select(p['dom'], k2), k != k2),
                                          z3.Select(p['val'], k) != z3.Select(p['val'], k2))))),
    ]


def setup_self(eng, st):
    self = SRef(TC, z3.Int('self'))
    st.ghost['true'] = z3.Const('true0', TRUE_SORT)
    return self


def setup_add(eng, st):
    return dict(self=setup_self(eng, st), key=SVal(z3.Const('arg_key', Val)))


def add_requires(c):
    return wf(c, c.st, c.g('true'), c.st.alloc)


def add_ghost_exit(c, outcome):
    true0 = c.og('true')
    return dict(true=z3.Store(true0, c.a('key'), z3.Select(true0, c.a('key')) + 1))


def add_ensures(c):
    key = c.a('key')
    true0 = c.og('true')
    true1 = c.g('true')
    po, pn = parts(c, c.old), parts(c, c.st)
    k = z3.Const('k', Val)
    cell = z3.Select(pn['val'], k)
    out = [('ghost: the true count of key grows by one', true1 == z3.Store(true0, key, z3.Select(true0, key) + 1)),
           ('total counts additions', pn['total'] == po['total'] + 1),
           ('threshold constant', pn['w'] == po['w'])]
    out += [('wf.' + l, b) for l, b in wf(c, c.st, true1, c.st.alloc)]
    # the property clauses themselves, stated over the new state (consequences of wf, proved separately)
    slack = pn['cb'] - 1
    out.append(('never over-counts', z3.ForAll([k], z3.Implies(z3.Select(pn['dom'], k),
                                                                   z3.Select(pn['c0'], cell) <= z3.Select(true1, k)))))
    out.append(('under-count bounded by floor(total/w)', z3.And(
        slack * pn['w'] <= pn['total'], pn['total'] < (slack + 1) * pn['w'],
        z3.ForAll([k], z3.Implies(z3.Select(pn['dom'], k),
                                  z3.Select(true1, k) - z3.Select(pn['c0'], cell) <= slack)),
        z3.ForAll([k], z3.Implies(z3.Not(z3.Select(pn['dom'], k)), z3.Select(true1, k) <= slack)))))
    return out


def add_modifies(c):
    return [('ThresholdCounter', 'total'), ('ThresholdCounter', '_count_map'), ('ThresholdCounter', '_cur_bucket'),
            ('TCCell', '0'), ('TCCell', '1'), ('TCCountMap', 'dom'), ('TCCountMap', 'val'), ('TCCountMap', 'size')]


def add_hints(c, event, data):
    """monotonicity of multiplication by the positive bucket width, instantiated at the quotient of total % w"""
    if event != 'divmod':
        return []
    a, w, q, r = data
    cb = parts(c, c.old)['cb']
    return [('mul_mono_lt', z3.Implies(z3.And(w > 0, q * w > (cb - 1) * w), q > cb - 1)),
            ('mul_mono_le', z3.Implies(z3.And(w > 0, cb <= q), cb * w <= q * w)),
            ('mul_mono_lt2', z3.Implies(z3.And(w > 0, q * w < cb * w), q < cb))]


add = Contract('ThresholdCounter.add', setup=setup_add, requires=add_requires, ensures=add_ensures,
               modifies=add_modifies, hints=add_hints)
add.ghost_exit = add_ghost_exit
add.ghost_mod = ['true']


# ---- readers ------------------------------------------------------------------------------------------
def reader_requires(c):
    return wf(c, c.st, c.g('true'), c.st.alloc)


def setup_key(eng, st):
    return dict(self=setup_self(eng, st), key=SVal(z3.Const('arg_key', Val)))


def getitem_ensures(c):
    p = parts(c)
    key = c.a('key')
    return [('key present', z3.Select(p['dom'], key)),
            ('returns the tracked count', c.r() == z3.Select(p['c0'], z3.Select(p['val'], key))),
            ('count <= true count', c.r() <= z3.Select(c.g('true'), key))]


def getitem_raises(c):
    p = parts(c)
    return [('only for an absent key', z3.Not(z3.Select(p['dom'], c.a('key'))))]


NO_MOD = lambda c: []  # noqa: E731

getitem = Contract('ThresholdCounter.__getitem__', setup=setup_key, requires=reader_requires,
                   ensures=getitem_ensures, raises={'KeyError': getitem_raises}, modifies=NO_MOD,
                   returns=lambda c: SInt(c.st.fresh.const('ret', z3.IntSort())))


def setup_get(eng, st):
    return dict(self=setup_self(eng, st), key=SVal(z3.Const('arg_key', Val)), default=SInt(z3.Int('default')))


def get_ensures(c):
    p = parts(c)
    key = c.a('key')
    present = z3.Select(p['dom'], key)
    return [('present: tracked count, absent: default',
             c.r() == z3.If(present, z3.Select(p['c0'], z3.Select(p['val'], key)), c.a('default')))]


get = Contract('ThresholdCounter.get', setup=setup_get, requires=reader_requires, ensures=get_ensures,
               modifies=NO_MOD)


def contains_ensures(c):
    p = parts(c)
    return [('membership = tracked', c.r() == z3.Select(p['dom'], c.a('key')))]


contains = Contract('ThresholdCounter.__contains__', setup=setup_key, requires=reader_requires,
                    ensures=contains_ensures, modifies=NO_MOD)


def len_ensures(c):
    return [('len = number of tracked keys (ghost size of the map)', c.r() == parts(c)['size'])]


length = Contract('ThresholdCounter.__len__', setup=lambda eng, st: dict(self=setup_self(eng, st)),
                  requires=reader_requires, ensures=len_ensures, modifies=NO_MOD)

CONTRACTS = {c.qualname: c for c in [add, getitem, get, contains, length]}


# ---- update: an iterable of keys / a mapping key -> count / keyword counts -------------------------------------------------------------
from pyvc.values import SSeq, SFunc, STuple  # noqa: E402
CountArg = HeapClass('TCCountArg', 'dict', k=VAL, v=INT)
ALL.append(CountArg)
ValArr = z3.ArraySort(z3.IntSort(), Val)


def upd_setup(eng, st, variant):
    self = setup_self(eng, st)
    kw = SRef(CountArg, z3.Int('arg_kwargs'))
    if variant == 'keys':
        it = SSeq(VAL, z3.Const('arg_keys', ValArr), z3.Int('n_keys'))
    elif variant == 'mapping':
        it = SRef(CountArg, z3.Int('arg_mapping'))
    else:
        it = SNone()
    return dict(self=self, iterable=it, kwargs=kw)


def upd_requires(c):
    kw = c.sv('kwargs')
    out = wf(c, c.st, c.g('true'), c.st.alloc)
    it = c.sv('iterable')
    if isinstance(kw, SRef):        # (at the recursive call site update(kwargs) the callee's **kwargs is empty and opaque)
        out.append(('kwargs is a dict object', z3.And(kw.t >= 1, kw.t < c.st.alloc, c.f(kw, 'size') >= 0)))
        if c.eng.variant != 'kwargs':
            out.append(('no keyword counts in this variant', c.f(kw, 'size') == 0))
        if isinstance(it, SRef):
            out.append(('mapping is a dict object distinct from kwargs', it.t != kw.t))
    if isinstance(it, SRef):
        out.append(('mapping is a dict object', z3.And(it.t >= 1, it.t < c.st.alloc)))
    if isinstance(it, SSeq):
        out.append(('finite iterable', it.n >= 0))
    return out


def upd_common(c, st=None):
    po, pn = parts(c, c.old), parts(c, st or c.st)
    k = z3.Const('kq', Val)
    return [('wf.' + l, f) for l, f in wf(c, st or c.st, c.g('true', st), (st or c.st).alloc)] + [
        ('threshold constant, total and true counts never decrease', z3.And(
            pn['w'] == po['w'], pn['total'] >= po['total'],
            z3.ForAll([k], z3.Select(c.g('true', st), k) >= z3.Select(c.og('true'), k))))]


def upd_keys_inv(c):
    po, pn = parts(c, c.old), parts(c)
    return upd_common(c) + [('one addition per key consumed', pn['total'] == po['total'] + c.x['i'])]


def upd_outer_inv(c):
    return upd_common(c)


def upd_inner_inv(c):
    e = c.x['loop_entry']
    pe, pn = parts(c, e), parts(c)
    key = c.L('key')
    i = c.x['i']
    return upd_common(c) + [('key added i times so far in this run', z3.And(
        pn['total'] == pe['total'] + i, c.g('true') == z3.Store(e.ghost['true'], key, z3.Select(e.ghost['true'], key) + i)))]


def upd_ensures(c):
    po, pn = parts(c, c.old), parts(c)
    out = upd_common(c)
    it = c.sv('iterable')
    if isinstance(it, SSeq) and c.eng.variant == 'keys':
        out.append(('total grows by the number of keys', pn['total'] == po['total'] + it.n))
    return out


def ext_getattr_tc(eng, args, kwargs, st, node):
    obj, attr = args[0], args[1]
    if isinstance(obj, SRef) and obj.cls.name == 'TCCountArg' and attr == 'items':
        return [(SFunc('method', obj, 'items'), st)]
    if isinstance(obj, SSeq):
        return [(args[2] if len(args) > 2 else SNone(), st)]
    return None


UPD_MOD = add_modifies
update = Contract('ThresholdCounter.update', setup=upd_setup, requires=upd_requires, ensures=upd_ensures, modifies=UPD_MOD,
                  variants=['keys', 'mapping', 'kwargs'],
                  loops={0: Loop(upd_outer_inv, heap=add_modifies(None), ghost=['true']),
                         1: Loop(upd_keys_inv, heap=add_modifies(None), ghost=['true']),
                         2: Loop(upd_inner_inv, heap=add_modifies(None), ghost=['true'])})
update.ghost_mod = ['true']
CONTRACTS['ThresholdCounter.update'] = update
EXTERNALS = {'getattr': ext_getattr_tc}


def make_engine(repo):
    from pyvc.engine import Engine
    eng = Engine(repo, FILE, classes=CLASSES, contracts=CONTRACTS, externals=dict(EXTERNALS))
    for c in ALL:
        eng.register_class(c)
    return eng


# ---- get_common_count / get_uncommon_count: the two add up to total --------------------------------------------------------------
def common_term(c, st=None):
    """sum over the tracked keys of their counts, as the engine's uninterpreted sum of the per-key term"""
    p = parts(c, st)
    k = z3.Const('kc', Val)
    return c.eng.f_keysum(z3.Lambda([k], z3.If(z3.Select(p['dom'], k), z3.Select(p['c0'], z3.Select(p['val'], k)), 0)))


common = Contract('ThresholdCounter.get_common_count', setup=lambda eng, st: dict(self=setup_self(eng, st)),
                  requires=reader_requires, ensures=lambda c: [('the sum of the tracked counts', c.r() == common_term(c))],
                  modifies=NO_MOD, returns=lambda c: SInt(c.st.fresh.const('common', z3.IntSort())))
uncommon = Contract('ThresholdCounter.get_uncommon_count', setup=lambda eng, st: dict(self=setup_self(eng, st)),
                    requires=reader_requires,
                    ensures=lambda c: [('get_common_count() + get_uncommon_count() == total', c.r() + common_term(c) == parts(c)['total'])],
                    modifies=NO_MOD)
CONTRACTS['ThresholdCounter.get_common_count'] = common
CONTRACTS['ThresholdCounter.get_uncommon_count'] = uncommon


# ---- iterkeys / itervalues / iteritems / keys / values: every tracked key exactly once, with its tracked count -------------------
ValArrT = z3.ArraySort(z3.IntSort(), Val)
IntArrT = z3.ArraySort(z3.IntSort(), z3.IntSort())
KeyList = HeapClass('TCKeyList', 'list', e=VAL)
CountList = HeapClass('TCCountList', 'list', e=INT)
ALL += [KeyList, CountList]


def gen_setup(kind):
    def setup(eng, st, variant=None):
        st.ghost['out_n'] = z3.IntVal(0)
        if kind in ('keys', 'items'):
            st.ghost['out_0'] = z3.Const('tc_out0_init', ValArrT)
        if kind == 'values':
            st.ghost['out_0'] = z3.Const('tc_out0_init', IntArrT)
        if kind == 'items':
            st.ghost['out_1'] = z3.Const('tc_out1_init', IntArrT)
        st.ghost['outkey'] = z3.Const('tc_outkey_init', ValArrT)       # the key behind the m-th yielded item (for itervalues)
        return dict(self=setup_self(eng, st))
    return setup


def gen_facts(c, kind, upto, seq=None):
    p = parts(c)
    n, ok = c.g('out_n'), c.g('outkey')
    m, m2 = z3.Ints('m m2')
    km = z3.Select(ok, m)
    cnt = z3.Select(p['c0'], z3.Select(p['val'], km))
    item = z3.Select(p['dom'], km)
    if kind in ('keys', 'items'):
        item = z3.And(item, z3.Select(c.g('out_0'), m) == km)
    if kind == 'values':
        item = z3.And(item, z3.Select(c.g('out_0'), m) == cnt)
    if kind == 'items':
        item = z3.And(item, z3.Select(c.g('out_1'), m) == cnt)
    if seq is not None:
        item = z3.And(item, km == z3.Select(seq['keys'], m))
    return [('one item per iteration step', n == upto),
            ('item m belongs to a tracked key and carries its tracked count', z3.ForAll([m], z3.Implies(z3.And(0 <= m, m < n), item))),
            ('no key is yielded twice', z3.ForAll([m, m2], z3.Implies(z3.And(0 <= m, m < m2, m2 < n), z3.Select(ok, m) != z3.Select(ok, m2))))]


def gen_hint(kind):
    def hint(c, event, data):
        if event != 'yield':
            return []
        return [('ghost', 'outkey', z3.Store(c.g('outkey'), c.g('out_n'), c.L('k')))]
    return hint


def gen_contract(name, kind):
    con = Contract('ThresholdCounter.' + name, setup=gen_setup(kind), requires=reader_requires,
                   ensures=lambda c: gen_facts(c, kind, parts(c)['size']) + [('nothing is modified', z3.BoolVal(True))], modifies=NO_MOD,
                   loops={0: Loop(lambda c: gen_facts(c, kind, c.x['i'], c.x['seq']), heap=[], ghost=['outkey'])},
                   generator=True, hints=gen_hint(kind), local_types=dict(count_map=REF(CountMap)))
    con.yields = 2 if kind == 'items' else 1
    return con


iterkeys_c = None          # iterkeys() returns iter(dict): not a generator function, keys() is verified against the dict directly
itervalues_c = gen_contract('itervalues', 'values')
iteritems_c = gen_contract('iteritems', 'items')
for _c in [itervalues_c, iteritems_c]:
    CONTRACTS[_c.qualname] = _c


def values_setup(eng, st, variant=None):
    eng.list_class = CountList
    return dict(self=setup_self(eng, st))


def values_ensures(c):
    r = c.result
    if not isinstance(r, SRef):
        return [('returns a list', z3.BoolVal(False))]
    p = parts(c)
    m, m2 = z3.Ints('m m2')
    ok = c.g('$gen:itervalues:outkey')
    km = z3.Select(ok, m)
    return [('values() = the tracked count of every tracked key, each key once', z3.And(
        c.f(r, 'len') == p['size'], r.t >= c.old.alloc,
        z3.ForAll([m], z3.Implies(z3.And(0 <= m, m < p['size']), z3.And(
            z3.Select(p['dom'], km), z3.Select(c.f(r, 'elems'), m) == z3.Select(p['c0'], z3.Select(p['val'], km))))),
        z3.ForAll([m, m2], z3.Implies(z3.And(0 <= m, m < m2, m2 < p['size']), z3.Select(ok, m) != z3.Select(ok, m2)))))]


values_c = Contract('ThresholdCounter.values', setup=values_setup, requires=reader_requires, ensures=values_ensures,
                    modifies=lambda c: [('TCCountList', 'elems'), ('TCCountList', 'len')])
CONTRACTS['ThresholdCounter.values'] = values_c


# ---- items(): the list of the (key, tracked count) pairs iteritems() yields; keys(): every tracked key once ----------------------
ItemPair = HeapClass('TCItemPair', 'record', ncells=2)
ItemPair.fields.update({'0': VAL, '1': INT})
ItemPairList = HeapClass('TCItemPairList', 'list', e=REF(ItemPair))
ALL += [ItemPair, ItemPairList]


def items_setup(eng, st, variant=None):
    eng.pair_list_class = ItemPairList
    return dict(self=setup_self(eng, st))


def items_ensures(c):
    r = c.result
    if not isinstance(r, SRef) or r.cls is not ItemPairList:
        return [('returns a list of pairs', z3.BoolVal(False))]
    p = parts(c)
    m, m2 = z3.Ints('m m2')
    el = c.f(r, 'elems')
    key = z3.Select(c.arr(ItemPair, '0'), z3.Select(el, m))
    cnt = z3.Select(c.arr(ItemPair, '1'), z3.Select(el, m))
    key2 = z3.Select(c.arr(ItemPair, '0'), z3.Select(el, m2))
    return [('items() = one (key, tracked count) pair per tracked key, each key once', z3.And(
        c.f(r, 'len') == p['size'], r.t >= c.old.alloc,
        z3.ForAll([m], z3.Implies(z3.And(0 <= m, m < p['size']), z3.And(
            z3.Select(p['dom'], key), cnt == z3.Select(p['c0'], z3.Select(p['val'], key))))),
        z3.ForAll([m, m2], z3.Implies(z3.And(0 <= m, m < m2, m2 < p['size']), key != key2))))]


items_c = Contract('ThresholdCounter.items', setup=items_setup, requires=reader_requires, ensures=items_ensures,
                   modifies=lambda c: [('TCItemPairList', 'elems'), ('TCItemPairList', 'len'), ('TCItemPair', '0'), ('TCItemPair', '1')])
CONTRACTS['ThresholdCounter.items'] = items_c


def keys_setup(eng, st, variant=None):
    eng.list_class = KeyList
    return dict(self=setup_self(eng, st))


def keys_ensures(c):
    r = c.result
    if not isinstance(r, SRef) or r.cls is not KeyList:
        return [('returns a list of keys', z3.BoolVal(False))]
    p = parts(c)
    m, m2 = z3.Ints('m m2')
    el = c.f(r, 'elems')
    return [('keys() = every tracked key exactly once', z3.And(
        c.f(r, 'len') == p['size'], r.t >= c.old.alloc,
        z3.ForAll([m], z3.Implies(z3.And(0 <= m, m < p['size']), z3.Select(p['dom'], z3.Select(el, m)))),
        z3.ForAll([m, m2], z3.Implies(z3.And(0 <= m, m < m2, m2 < p['size']), z3.Select(el, m) != z3.Select(el, m2)))))]


keys_c = Contract('ThresholdCounter.keys', setup=keys_setup, requires=reader_requires, ensures=keys_ensures,
                  modifies=lambda c: [('TCKeyList', 'elems'), ('TCKeyList', 'len')])
CONTRACTS['ThresholdCounter.keys'] = keys_c
