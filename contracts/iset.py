"""Contracts for boltons.setutils.IndexedSet index translation (property C11): with the dead slots given as sorted,
disjoint, non-empty intervals [start, stop), _get_real_index(i) is the i-th live slot and _get_apparent_index is its inverse.

  dsum(k) = total length of the first k dead intervals.
  _get_real_index(i) = r  with a witness k (number of dead intervals left of r):
        r == i + dsum(k),  every one of the first k intervals ends at or before r,  the next one (if any) starts after r
  _get_apparent_index(r) = a  with witness k:  a == r - dsum(k), the first k intervals start at or before r, the next after r
"""
import z3

from pyvc.values import HeapClass, INT, REF, SRef, SInt, SNone
from pyvc.contract import Contract, Loop

FILE = 'boltons/setutils.py'
Iv = HeapClass('DeadInterval', 'record', ncells=2, fields={'0': INT, '1': INT})
DL = HeapClass('DeadList', 'list', e=REF(Iv))
IS = HeapClass('IndexedSet', 'record', pyclass='IndexedSet', fields=dict(dead_indices=REF(DL)))
CLASSES = {'IndexedSet': IS}
ALL = [Iv, DL, IS]
IntArr = z3.ArraySort(z3.IntSort(), z3.IntSort())
dsum = z3.RecFunction('dead_prefix_len', IntArr, IntArr, IntArr, z3.IntSort(), z3.IntSort())
_E, _S, _T = z3.Consts('dl_E dl_S dl_T', IntArr)
_k = z3.Int('dl_k')
z3.RecAddDefinition(dsum, [_E, _S, _T, _k], z3.If(_k <= 0, 0, dsum(_E, _S, _T, _k - 1) +
                                                  z3.Select(_T, z3.Select(_E, _k - 1)) - z3.Select(_S, z3.Select(_E, _k - 1))))


class V:
    def __init__(self, c, st=None):
        st = st or c.st
        s = c.sv('self')
        self.dl = SRef(DL, c.f(s, 'dead_indices', st))
        self.E = c.f(self.dl, 'elems', st)
        self.n = c.f(self.dl, 'len', st)
        self.S, self.T = c.arr(Iv, '0', st), c.arr(Iv, '1', st)
        self.alloc = st.alloc

    def start(self, j):
        return z3.Select(self.S, z3.Select(self.E, j))

    def stop(self, j):
        return z3.Select(self.T, z3.Select(self.E, j))

    def ds(self, k):
        return dsum(self.E, self.S, self.T, k)


def wf(v):
    j = z3.Int('j')
    return [('dead intervals are sorted, disjoint and non-empty', z3.And(v.n >= 0, v.dl.t >= 1, z3.ForAll([j], z3.Implies(
        z3.And(0 <= j, j < v.n), z3.And(0 <= v.start(j), v.start(j) < v.stop(j),
                                        z3.Implies(j + 1 < v.n, v.stop(j) <= v.start(j + 1))))))),
            ('prefix lengths (unfolding of the definition)', z3.ForAll([j], z3.Implies(z3.And(0 <= j, j < v.n), z3.And(
                v.ds(j + 1) == v.ds(j) + v.stop(j) - v.start(j), v.ds(j) >= 0))))]


def setup(eng, st, variant=None):
    return dict(self=SRef(IS, z3.Int('self')), index=SInt(z3.Int('arg_index')))


def req(c):
    return wf(V(c)) + [('a non-negative index (negative ones are normalised through len())', c.a('index') >= 0)]


def real_inv(c):
    v = V(c)
    i = c.x['i']
    r = c.L('real_index')
    return [('real_index = index + length of the dead intervals passed', r == c.a('index') + v.ds(i)),
            ('index unchanged', c.L('index') == c.a('index')),
            ('every interval passed ends at or before real_index', z3.Implies(i >= 1, r >= v.stop(i - 1)))]


def real_ensures(c):
    v = V(c)
    r = c.r()
    k = c.st.ghost.get('$loop_index_0')
    if k is None:           # no dead interval at all
        return [('without dead slots the index is returned unchanged', z3.And(v.n == 0, r == c.a('index')))]
    return [('result = index + total length of the k dead intervals to its left', z3.And(0 <= k, k <= v.n, r == c.a('index') + v.ds(k))),
            ('those k intervals end at or before the result', z3.Implies(k >= 1, r >= v.stop(k - 1))),
            ('the next interval starts after the result, so the result is a live slot', z3.Implies(k < v.n, r < v.start(k)))]


real = Contract('IndexedSet._get_real_index', setup=setup, requires=req, ensures=real_ensures, modifies=lambda c: [],
                loops={0: Loop(real_inv, heap=[])})


def app_inv(c):
    v = V(c)
    i = c.x['i']
    return [('apparent_index = index - length of the dead intervals passed', c.L('apparent_index') == c.a('index') - v.ds(i)),
            ('index unchanged', c.L('index') == c.a('index')),
            ('every interval passed starts at or before index', z3.Implies(i >= 1, c.a('index') >= v.start(i - 1)))]


def app_ensures(c):
    v = V(c)
    a = c.r()
    k = c.st.ghost.get('$loop_index_0')
    if k is None:
        return [('without dead slots the index is returned unchanged', z3.And(v.n == 0, a == c.a('index')))]
    return [('result = index - total length of the k dead intervals starting at or before it', z3.And(0 <= k, k <= v.n, a == c.a('index') - v.ds(k))),
            ('those k intervals start at or before index', z3.Implies(k >= 1, c.a('index') >= v.start(k - 1))),
            ('the next interval starts after index', z3.Implies(k < v.n, c.a('index') < v.start(k)))]


apparent = Contract('IndexedSet._get_apparent_index', setup=setup, requires=req, ensures=app_ensures, modifies=lambda c: [],
                    loops={0: Loop(app_inv, heap=[])})
CONTRACTS = {c.qualname: c for c in [real, apparent]}
FUNCS = ['IndexedSet._get_real_index', 'IndexedSet._get_apparent_index']


def make_engine(repo):
    from pyvc.engine import Engine
    eng = Engine(repo, FILE, classes=CLASSES, contracts=CONTRACTS, externals=dict(globals().get('EXTERNALS', {})),
                 consts=dict(globals().get('CONSTS', {})))
    for c in ALL:
        eng.register_class(c)
    return eng


# ---- _add_dead(start): the interval list stays sorted and disjoint and now covers `start` ----------------------------------------
# The stronger, all-pairs form of the invariant is used here (it implies the neighbour form the index translation needs):
#     for j < j':  stop(j) <= start(j')
from pyvc.values import SFunc, SVal, Val, SExc  # noqa: E402


def wf_all_pairs(v):
    j, j2 = z3.Ints('j j2')
    return [('dead intervals are non-empty, sorted and disjoint (all pairs)', z3.And(
        v.n >= 0, v.dl.t >= 1, v.dl.t < v.alloc,
        z3.ForAll([j], z3.Implies(z3.And(0 <= j, j < v.n), z3.And(0 <= v.start(j), v.start(j) < v.stop(j), z3.Select(v.E, j) >= 1,
                                                                         z3.Select(v.E, j) < v.alloc))),
        z3.ForAll([j, j2], z3.Implies(z3.And(0 <= j, j < j2, j2 < v.n), z3.And(v.stop(j) <= v.start(j2),
                                                                              z3.Select(v.E, j) != z3.Select(v.E, j2))))))]


def covered(v, x):
    j = z3.Int('jc')
    return z3.Exists([j], z3.And(0 <= j, j < v.n, v.start(j) <= x, x < v.stop(j)))


def ext_bisect_left(eng, args, kwargs, st, node):
    """bisect_left(a, x) on a list of [start, stop] cells ordered lexicographically (the all-pairs invariant makes it sorted):
    returns p, 0 <= p <= len, with a[j] < x for j < p and a[j] >= x for j >= p"""
    lst, cand = args
    if not (isinstance(lst, SRef) and lst.cls is DL and isinstance(cand, SRef) and cand.cls is Iv):
        raise Exception('bisect_left arguments')
    s = st.copy()
    p = s.fresh.const('bisect', z3.IntSort())
    E, n = eng.hload(s, lst, 'elems'), eng.hload(s, lst, 'len')
    S_, T_ = eng.heap_arr(s, Iv, '0'), eng.heap_arr(s, Iv, '1')
    cs, ct = z3.Select(S_, cand.t), z3.Select(T_, cand.t)
    j = z3.Int(s.fresh.name('jb'))
    a, b = z3.Select(S_, z3.Select(E, j)), z3.Select(T_, z3.Select(E, j))
    less = z3.Or(a < cs, z3.And(a == cs, b < ct))
    s = s.assume(z3.And(0 <= p, p <= n, z3.ForAll([j], z3.Implies(z3.And(0 <= j, j < n), less == (j < p)))))
    eng.trusted.add('bisect.bisect_left on a lexicographically sorted list of [start, stop] pairs: the insertion point p with '
                    'a[j] < x exactly for j < p')
    return [(SInt(p), s)]


def ad_setup(eng, st, variant=None):
    return dict(self=SRef(IS, z3.Int('self')), start=SInt(z3.Int('arg_start')), stop=SNone())


def ad_requires(c):
    v = V(c)
    j = z3.Int('j')
    start = c.a('start')
    return wf_all_pairs(v) + [('start is a live slot: non-negative and inside no dead interval', z3.And(
        start >= 0, c.sv('self').t >= 1, z3.ForAll([j], z3.Implies(z3.And(0 <= j, j < v.n), z3.Or(start < v.start(j), v.stop(j) <= start)))))]


def ad_ensures(c):
    o, v = V(c, c.old), V(c)
    start = c.a('start')
    j = z3.Int('j')
    x = z3.Int('x')
    return [('wf.' + l, f) for l, f in wf_all_pairs(v)] + [
        ('start is now covered by a dead interval', covered(v, start)),
        ('representation lemma: one interval [start, start+1) is inserted (the others keep their order) or one interval grows by exactly start',
         z3.And(v.dl.t == o.dl.t, z3.Or(
             z3.And(v.n == o.n + 1, z3.Exists([x], z3.And(
                 0 <= x, x <= o.n, v.start(x) == start, v.stop(x) == start + 1,
                 z3.ForAll([j], z3.Implies(z3.And(0 <= j, j < o.n), z3.And(
                     v.start(z3.If(j < x, j, j + 1)) == o.start(j), v.stop(z3.If(j < x, j, j + 1)) == o.stop(j)))),
                 z3.ForAll([j], z3.Implies(z3.And(0 <= j, j <= o.n, j != x), z3.And(
                     v.start(j) == o.start(z3.If(j < x, j, j - 1)), v.stop(j) == o.stop(z3.If(j < x, j, j - 1)))))))),
             z3.And(v.n == o.n, z3.ForAll([j], z3.Implies(z3.And(0 <= j, j < o.n), z3.Or(
                 z3.And(v.start(j) == o.start(j), v.stop(j) == o.stop(j)),
                 z3.And(v.start(j) == o.start(j), o.stop(j) == start, v.stop(j) == start + 1),
                 z3.And(o.start(j) == start + 1, v.start(j) == start, v.stop(j) == o.stop(j))))))))),
        ('exactly the slot start becomes dead: every other slot is dead afterwards iff it was before',
         z3.ForAll([x], covered(v, x) == z3.Or(covered(o, x), x == start))),
        ('the list object is kept', v.dl.t == o.dl.t)]


add_dead = Contract('IndexedSet._add_dead', setup=ad_setup, requires=ad_requires, ensures=ad_ensures,
                    modifies=lambda c: [('DeadList', 'elems'), ('DeadList', 'len'), ('DeadInterval', '0'), ('DeadInterval', '1')],
                    local_types=dict(cand_int=REF(Iv), dint=REF(Iv)))
add_dead.chain = True                         # the dead-set equality is proved from the representation lemma stated before it
add_dead.aux = ('representation lemma', 'wf.', 'the list object is kept')     # ... which is tied to the current representation: refuted => proof lost, not a violation
CONTRACTS['IndexedSet._add_dead'] = add_dead
FUNCS.append('IndexedSet._add_dead')
EXTERNALS = {'bisect_left': ext_bisect_left}
CONSTS = {'bisect_left': SFunc('extfunc', 'bisect_left')}
