"""Contracts for boltons.cacheutils.LRI / LRU (properties C02, C03).

Heap model: links are 4-slot cells [PREV, NEXT, KEY, VALUE]; `_link_lookup` is a dict key -> link; the cache
itself is a dict subclass (dict part key -> value) with counters.  Ghost state: live : Ref -> Bool (links in
the ring other than the anchor), t : Ref -> Int (recency stamp of a live link), clock : Int.

Ring invariant (stamp-ordered ring, no inductive list predicate):
  R0  anchor is allocated, not live, and its KEY and VALUE are _MISSING
  R1  for every node r (live or anchor): next/prev are nodes and next(prev(r)) = r = prev(next(r))
  R2  live r, live next(r)  =>  t[next r] > t[r]
  R3  live r, q with t[r] < t[q]  =>  next(r) is live and t[next r] <= t[q]          (next = stamp successor)
  R4  distinct live links have distinct stamps
  R5  every live r: anchor.next and anchor.prev are live, t[anchor.next] <= t[r] <= t[anchor.prev]
  R6  stamps of live links are below the clock; live links are allocated (below alloc)
  L1  k in lookup => lookup[k] is live and holds key k;   L2  live r => lookup[key r] = r
Dict-level invariant:
  D1  dom(dict) = dom(lookup) and dict[k] = VALUE of lookup[k];  D2  len(dict) = len(lookup) <= max_size, max_size >= 1
  C1  0 <= soft_miss <= miss, hit >= 0
"""
import z3

from pyvc.values import (HeapClass, INT, REAL, VAL, REF, SRef, SVal, SInt, SBool, SNone, Val, NONE, STuple, Ty)
from pyvc.contract import Contract, Ctx, Loop

FILE = 'boltons/cacheutils.py'
MISSING = z3.Const('_MISSING', Val)

Link = HeapClass('Link', 'record', ncells=4)
Link.fields.update({'0': REF(Link), '1': REF(Link), '2': VAL, '3': VAL})
Lookup = HeapClass('LinkLookup', 'dict', k=VAL, v=REF(Link))
Lock = HeapClass('RLock', 'record', fields={})
_fields = dict(hit_count=INT, miss_count=INT, soft_miss_count=INT, max_size=INT, _lock=REF(Lock), on_miss=VAL,
               _link_lookup=REF(Lookup), _anchor=REF(Link))
LRI = HeapClass('LRI', 'record', pyclass='LRI', fields=_fields, dict_k=VAL, dict_v=VAL)
LRU = HeapClass('LRI', 'record', pyclass='LRU', fields=_fields, dict_k=VAL, dict_v=VAL)   # same layout, same maps
CLASSES = {'LRI': LRI, 'LRU': LRU}
ALL = [Link, Lookup, Lock, LRI]
PREV, NEXT, KEY, VALUE = '0', '1', '2', '3'
BoolArr = z3.ArraySort(z3.IntSort(), z3.BoolSort())
IntArr = z3.ArraySort(z3.IntSort(), z3.IntSort())

RING_KEYS = [('Link', '0'), ('Link', '1'), ('Link', '2'), ('Link', '3'), ('LinkLookup', 'dom'), ('LinkLookup', 'val'),
             ('LinkLookup', 'size'), ('LRI', '_anchor')]
DICT_KEYS = [('LRI', 'dom'), ('LRI', 'val'), ('LRI', 'size')]
COUNTER_KEYS = [('LRI', 'hit_count'), ('LRI', 'miss_count'), ('LRI', 'soft_miss_count')]


def cls_of(variant):
    return LRU if variant == 'LRU' else LRI


class V:
    """view of the cache state in one State"""

    def __init__(self, c, st=None):
        st = st or c.st
        self.c, self.st = c, st
        s = c.sv('self')
        self.self = s
        self.anchor = c.f(s, '_anchor', st)
        self.lkref = SRef(Lookup, c.f(s, '_link_lookup', st))
        self.lkdom = c.f(self.lkref, 'dom', st)
        self.lkval = c.f(self.lkref, 'val', st)
        self.lksize = c.f(self.lkref, 'size', st)
        self.nxt = c.arr(Link, NEXT, st)
        self.prv = c.arr(Link, PREV, st)
        self.key = c.arr(Link, KEY, st)
        self.val = c.arr(Link, VALUE, st)
        self.ddom = c.f(s, 'dom', st)
        self.dval = c.f(s, 'val', st)
        self.dsize = c.f(s, 'size', st)
        self.max_size = c.f(s, 'max_size', st)
        self.hit = c.f(s, 'hit_count', st)
        self.miss = c.f(s, 'miss_count', st)
        self.soft = c.f(s, 'soft_miss_count', st)
        self.on_miss = c.f(s, 'on_miss', st)
        self.live = st.ghost['live']
        self.t = st.ghost['t']
        self.clock = st.ghost['clock']
        self.alloc = st.alloc

    def node(self, r):
        return z3.Or(z3.Select(self.live, r), r == self.anchor)

    def stamp(self, k):
        return z3.Select(self.t, z3.Select(self.lkval, k))


def ring_wf(v):
    r, q = z3.Ints('r q')
    k = z3.Const('k', Val)
    live, t, nxt, prv, key, val, a = v.live, v.t, v.nxt, v.prv, v.key, v.val, v.anchor
    L = lambda x: z3.Select(live, x)  # noqa: E731
    T = lambda x: z3.Select(t, x)  # noqa: E731
    N = lambda x: z3.Select(nxt, x)  # noqa: E731
    P = lambda x: z3.Select(prv, x)  # noqa: E731
    return [
        ('R0', z3.And(a >= 1, a < v.alloc, z3.Not(L(a)), z3.Select(key, a) == MISSING, z3.Select(val, a) == MISSING,
                      v.self.t >= 1, v.self.t < v.alloc, v.lkref.t >= 1, v.lkref.t < v.alloc)),
        ('R1', z3.ForAll([r], z3.Implies(v.node(r), z3.And(v.node(N(r)), v.node(P(r)), N(P(r)) == r, P(N(r)) == r)))),
        ('R2', z3.ForAll([r], z3.Implies(z3.And(L(r), L(N(r))), T(N(r)) > T(r)))),
        ('R3', z3.ForAll([r, q], z3.Implies(z3.And(L(r), L(q), T(r) < T(q)), z3.And(L(N(r)), T(N(r)) <= T(q))))),
        ('R4', z3.ForAll([r, q], z3.Implies(z3.And(L(r), L(q), r != q), T(r) != T(q)))),
        ('R5', z3.ForAll([r], z3.Implies(L(r), z3.And(L(N(a)), T(N(a)) <= T(r), L(P(a)), T(P(a)) >= T(r))))),
        ('R6', z3.ForAll([r], z3.Implies(L(r), z3.And(T(r) < v.clock, r >= 1, r < v.alloc)))),
        ('L1', z3.ForAll([k], z3.Implies(z3.Select(v.lkdom, k), z3.And(L(z3.Select(v.lkval, k)),
                                                                        z3.Select(key, z3.Select(v.lkval, k)) == k)))),
        ('L2', z3.ForAll([r], z3.Implies(L(r), z3.And(z3.Select(v.lkdom, z3.Select(key, r)),
                                                      z3.Select(v.lkval, z3.Select(key, r)) == r)))),
    ]


def dict_wf(v):
    k = z3.Const('k', Val)
    return [
        ('D1', z3.ForAll([k], z3.And(z3.Select(v.ddom, k) == z3.Select(v.lkdom, k),
                                     z3.Implies(z3.Select(v.ddom, k),
                                                z3.Select(v.dval, k) == z3.Select(v.val, z3.Select(v.lkval, k)))))),
        ('D2', z3.And(v.dsize == v.lksize, v.dsize <= v.max_size, v.max_size >= 1, v.dsize >= 0)),
        ('C1', z3.And(0 <= v.soft, v.soft <= v.miss, v.hit >= 0)),
    ]


def dict_facts(dom, size):
    """facts true of every real dict (trusted): len is 0 exactly when there is no key"""
    k = z3.Const('kf', Val)
    return z3.And(size >= 0, (size == 0) == z3.ForAll([k], z3.Not(z3.Select(dom, k))))


def full_wf(v):
    return ring_wf(v) + dict_wf(v)


# ---- setup -----------------------------------------------------------------------------------------------------------
def setup_self(eng, st, variant):
    st.ghost['live'] = z3.Const('live0', BoolArr)
    st.ghost['t'] = z3.Const('t0', IntArr)
    st.ghost['clock'] = z3.Int('clock0')
    return SRef(cls_of(variant), z3.Int('self'))


def S(*names):
    def setup(eng, st, variant='LRI'):
        d = dict(self=setup_self(eng, st, variant))
        for n in names:
            d[n] = SVal(z3.Const(n, Val))
        return d
    return setup


def same(c, keys):
    return z3.And(*[c.eng.heap_arr(c.st, c.eng.classes_by_name[k[0]], k[1]) ==
                    c.eng.heap_arr(c.old, c.eng.classes_by_name[k[0]], k[1]) for k in keys])


def ghost_same(c, names=('live', 't', 'clock')):
    return z3.And(*[c.g(n) == c.og(n) for n in names])


def not_missing(c, *names):
    return []


# ---- _get_link_and_move_to_front_of_ll ---------------------------------------------------------------------------------
def mtf_requires(c):
    return ring_wf(V(c)) + not_missing(c, 'key')


def mtf_ghost_exit(c, outcome):
    if outcome != 'return':
        return {}
    v = V(c, c.old)
    link = z3.Select(v.lkval, c.a('key'))
    return dict(t=z3.Store(c.og('t'), link, c.og('clock')), clock=c.og('clock') + 1)


def mtf_ensures(c):
    o, n = V(c, c.old), V(c)
    key = c.a('key')
    link = z3.Select(o.lkval, key)
    out = [('found', z3.Select(o.lkdom, key)), ('returns the link of key', c.r() == link)]
    out += [('ring.' + l, f) for l, f in ring_wf(n)]
    out += [('stamp of key becomes the newest, all others unchanged',
             z3.And(n.t == z3.Store(o.t, link, o.clock), n.clock == o.clock + 1, n.live == o.live)),
            ('keys, values, lookup and anchor unchanged',
             z3.And(n.key == o.key, n.val == o.val, n.lkdom == o.lkdom, n.lkval == o.lkval, n.lksize == o.lksize,
                    n.anchor == o.anchor))]
    return out


def mtf_raises(c):
    o = V(c, c.old)
    return [('KeyError only for an absent key', z3.Not(z3.Select(o.lkdom, c.a('key')))),
            ('state unchanged', z3.And(same(c, RING_KEYS + DICT_KEYS + COUNTER_KEYS), ghost_same(c)))]


RING_MOD = lambda c: list(RING_KEYS)  # noqa: E731
mtf = Contract('LRI._get_link_and_move_to_front_of_ll', setup=S('key'), requires=mtf_requires, ensures=mtf_ensures,
               raises={'KeyError': mtf_raises}, modifies=RING_MOD,
               returns=lambda c: SRef(Link, c.st.fresh.const('link', z3.IntSort())),
               local_types=dict(), note='ghost: stamp[newest] := clock++')
mtf.ghost_exit = mtf_ghost_exit
mtf.ghost_mod = ['t', 'clock', 'live']


# ---- _set_key_and_add_to_front_of_ll -----------------------------------------------------------------------------------
def add_requires(c):
    v = V(c)
    return ring_wf(v) + not_missing(c, 'key') + [('key not in lookup', z3.Not(z3.Select(v.lkdom, c.a('key'))))]


def add_ghost_exit(c, outcome):
    new = c.old.alloc        # the link allocated by the body is the first fresh address
    return dict(live=z3.Store(c.og('live'), new, True), t=z3.Store(c.og('t'), new, c.og('clock')),
                clock=c.og('clock') + 1)


def add_ensures(c):
    o, n = V(c, c.old), V(c)
    key, value = c.a('key'), c.a('value')
    k = z3.Const('k', Val)
    newl = z3.Select(n.lkval, key)
    out = [('ring.' + l, f) for l, f in ring_wf(n)]
    out += [('lookup gains exactly key', z3.And(n.lkdom == z3.Store(o.lkdom, key, True), n.lksize == o.lksize + 1,
                                                z3.ForAll([k], z3.Implies(k != key, z3.Select(n.lkval, k) == z3.Select(o.lkval, k))))),
            ('new link is fresh, live, newest and holds (key, value)',
             z3.And(newl >= o.alloc, z3.Select(n.live, newl), z3.Select(n.t, newl) == o.clock, n.clock == o.clock + 1,
                    z3.Select(n.key, newl) == key, z3.Select(n.val, newl) == value))]
    r = z3.Int('r')
    out.append(('old links keep liveness, stamp, key, value',
                z3.ForAll([r], z3.Implies(r < o.alloc, z3.And(
                    z3.Select(n.live, r) == z3.Select(o.live, r), z3.Select(n.t, r) == z3.Select(o.t, r),
                    z3.Select(n.key, r) == z3.Select(o.key, r), z3.Select(n.val, r) == z3.Select(o.val, r))))))
    out.append(('anchor unchanged', n.anchor == o.anchor))
    return out


addf = Contract('LRI._set_key_and_add_to_front_of_ll', setup=S('key', 'value'), requires=add_requires,
                ensures=add_ensures, modifies=RING_MOD, local_types=dict(newest=REF(Link)))
addf.ghost_exit = add_ghost_exit
addf.ghost_mod = ['t', 'clock', 'live']


# ---- _set_key_and_evict_last_in_ll --------------------------------------------------------------------------------------
def evict_requires(c):
    v = V(c)
    return ring_wf(v) + not_missing(c, 'key') + [
        ('key not in lookup', z3.Not(z3.Select(v.lkdom, c.a('key')))),
        ('ring not empty', z3.Select(v.live, z3.Select(v.nxt, v.anchor)))]


def evict_ghost_exit(c, outcome):
    o = V(c, c.old)
    oldest = z3.Select(o.nxt, o.anchor)
    live = z3.Store(z3.Store(c.og('live'), o.anchor, True), oldest, False)
    return dict(live=live, t=z3.Store(c.og('t'), o.anchor, c.og('clock')), clock=c.og('clock') + 1)


def evict_ensures(c):
    o, n = V(c, c.old), V(c)
    key, value = c.a('key'), c.a('value')
    oldest = z3.Select(o.nxt, o.anchor)
    victim = z3.Select(o.key, oldest)
    k = z3.Const('k', Val)
    r = z3.Int('r')
    out = [('ring.' + l, f) for l, f in ring_wf(n)]
    out += [('returns the evicted key, which was in the lookup', z3.And(c.r() == victim, z3.Select(o.lkdom, victim), victim != key)),
            ('the evicted key had the oldest stamp',
             z3.ForAll([k], z3.Implies(z3.Select(o.lkdom, k), o.stamp(victim) <= o.stamp(k)))),
            ('lookup loses the victim and gains key',
             z3.And(n.lkdom == z3.Store(z3.Store(o.lkdom, victim, False), key, True), n.lksize == o.lksize,
                    z3.ForAll([k], z3.Implies(z3.And(k != key, k != victim), z3.Select(n.lkval, k) == z3.Select(o.lkval, k))))),
            ('key is held by a live link with the newest stamp and the value',
             z3.And(z3.Select(n.live, z3.Select(n.lkval, key)), z3.Select(n.t, z3.Select(n.lkval, key)) == o.clock,
                    n.clock == o.clock + 1, z3.Select(n.val, z3.Select(n.lkval, key)) == value)),
            ('surviving links keep stamp, key and value',
             z3.ForAll([r], z3.Implies(z3.And(z3.Select(o.live, r), r != oldest), z3.And(
                 z3.Select(n.live, r), z3.Select(n.t, r) == z3.Select(o.t, r), z3.Select(n.key, r) == z3.Select(o.key, r),
                 z3.Select(n.val, r) == z3.Select(o.val, r)))))]
    return out


evict = Contract('LRI._set_key_and_evict_last_in_ll', setup=S('key', 'value'), requires=evict_requires,
                 ensures=evict_ensures, modifies=RING_MOD, returns=lambda c: SVal(c.st.fresh.const('evicted', Val)),
                 local_types=dict())
evict.ghost_exit = evict_ghost_exit
evict.ghost_mod = ['t', 'clock', 'live']


# ---- _remove_from_ll ------------------------------------------------------------------------------------------------------
def rm_requires(c):
    return ring_wf(V(c)) + not_missing(c, 'key')


def rm_ghost_exit(c, outcome):
    if outcome != 'return':
        return {}
    o = V(c, c.old)
    return dict(live=z3.Store(c.og('live'), z3.Select(o.lkval, c.a('key')), False))


def rm_ensures(c):
    o, n = V(c, c.old), V(c)
    key = c.a('key')
    link = z3.Select(o.lkval, key)
    k = z3.Const('k', Val)
    out = [('key was in the lookup', z3.Select(o.lkdom, key))]
    out += [('ring.' + l, f) for l, f in ring_wf(n)]
    out += [('lookup loses exactly key', z3.And(n.lkdom == z3.Store(o.lkdom, key, False), n.lksize == o.lksize - 1,
                                                z3.ForAll([k], z3.Implies(k != key, z3.Select(n.lkval, k) == z3.Select(o.lkval, k))))),
            ('only that link dies; stamps, keys, values, anchor unchanged',
             z3.And(n.live == z3.Store(o.live, link, False), n.t == o.t, n.key == o.key, n.val == o.val,
                    n.anchor == o.anchor, n.clock == o.clock))]
    return out


def rm_raises(c):
    o = V(c, c.old)
    return [('KeyError only for an absent key', z3.Not(z3.Select(o.lkdom, c.a('key')))),
            ('state unchanged', z3.And(same(c, RING_KEYS + DICT_KEYS + COUNTER_KEYS), ghost_same(c)))]


rm = Contract('LRI._remove_from_ll', setup=S('key'), requires=rm_requires, ensures=rm_ensures,
              raises={'KeyError': rm_raises}, modifies=RING_MOD, local_types=dict())
rm.ghost_exit = rm_ghost_exit
rm.ghost_mod = ['t', 'clock', 'live']

CONTRACTS = {c.qualname: c for c in [mtf, addf, evict, rm]}
CONSTS = {'_MISSING': SVal(MISSING)}


class LockHooks:
    """`with self._lock:` — tracks the ghost `held` counter (used by the C03 guarded-by obligations)"""

    def __init__(self):
        self.guarded = None
        self.violations = []

    def is_lock(self, eng, cm):
        return isinstance(cm, SRef) and cm.cls.name == 'RLock'

    def acquire(self, eng, st, cm):
        st.held['lock'] = st.held.get('lock', 0) + 1
        st.events = st.events + (('acquire', st.held['lock']),)

    def release(self, eng, st, cm):
        st.held['lock'] = st.held.get('lock', 0) - 1
        st.events = st.events + (('release', st.held['lock']),)

    def field_access(self, eng, st, ref, field, mode, node):
        pass


def make_engine(repo, hooks=None):
    from pyvc.engine import Engine
    from .opaque_ext import EXTERNALS
    # on_miss is an arbitrary callable: every call of it may also raise an exception of unknown class
    eng = Engine(repo, FILE, classes=CLASSES, contracts=CONTRACTS, consts=CONSTS, hooks=hooks or LockHooks(),
                 externals=dict(EXTERNALS), opaque_may_raise=True)
    for c in ALL:
        eng.register_class(c)
    return eng


# =====================================================================================================================
# public methods: postconditions against the reference cache of the property statement
#   contents  = dict part;  recency order = keys by stamp(k) = t[lookup[k]];  counters
def pub_requires(c, *keys):
    v = V(c)
    out = full_wf(v) + [('on_miss is None or a (truthy) callable',
                         z3.Or(v.on_miss == NONE, z3.And(c.eng.f_truthy(v.on_miss), c.eng.f_callable(v.on_miss)))),
                        ('dict facts', z3.And(dict_facts(v.ddom, v.dsize), dict_facts(v.lkdom, v.lksize)))]
    if keys:
        out += not_missing(c, *keys)
    return out


def counters(o, n, hit=0, miss=0, soft=0):
    return z3.And(n.hit == o.hit + hit, n.miss == o.miss + miss, n.soft == o.soft + soft,
                  n.max_size == o.max_size, n.on_miss == o.on_miss)


def others_keep_stamp(o, n, *except_keys):
    k = z3.Const('k', Val)
    cond = z3.And(z3.Select(n.ddom, k), *[k != e for e in except_keys])
    return z3.ForAll([k], z3.Implies(cond, z3.And(z3.Select(o.ddom, k), n.stamp(k) == o.stamp(k))))


def others_keep_value(o, n, *except_keys):
    k = z3.Const('k', Val)
    cond = z3.And(z3.Select(n.ddom, k), *[k != e for e in except_keys])
    return z3.ForAll([k], z3.Implies(cond, z3.Select(n.dval, k) == z3.Select(o.dval, k)))


def view_unchanged(o, n):
    k = z3.Const('k', Val)
    return z3.And(n.ddom == o.ddom, n.dsize == o.dsize,
                  z3.ForAll([k], z3.Implies(z3.Select(o.ddom, k), z3.And(z3.Select(n.dval, k) == z3.Select(o.dval, k),
                                                                          n.stamp(k) == o.stamp(k)))))


def setitem_effect(o, n, key, value):
    """reference-cache semantics of `cache[key] = value` between views o and n"""
    k = z3.Const('k', Val)
    present = z3.Select(o.ddom, key)
    full = o.dsize >= o.max_size
    victim = z3.Select(o.key, z3.Select(o.nxt, o.anchor))
    return [
        ('capacity', z3.And(n.dsize <= n.max_size, n.max_size == o.max_size)),
        ('key now maps to value and is the most recent',
         z3.And(z3.Select(n.ddom, key), z3.Select(n.dval, key) == value, n.stamp(key) == o.clock, n.clock == o.clock + 1)),
        ('present key: same key set', z3.Implies(present, z3.And(n.ddom == o.ddom, n.dsize == o.dsize))),
        ('new key, room left: key set grows by key', z3.Implies(z3.And(z3.Not(present), z3.Not(full)), z3.And(
            n.ddom == z3.Store(o.ddom, key, True), n.dsize == o.dsize + 1))),
        ('new key, full: exactly the least recent key is evicted', z3.Implies(z3.And(z3.Not(present), full), z3.And(
            z3.Select(o.ddom, victim), victim != key,
            z3.ForAll([k], z3.Implies(z3.Select(o.ddom, k), o.stamp(victim) <= o.stamp(k))),
            n.ddom == z3.Store(z3.Store(o.ddom, victim, False), key, True), n.dsize == o.dsize))),
        ('all other keys keep value and recency', z3.And(others_keep_value(o, n, key), others_keep_stamp(o, n, key))),
    ]


PUB_MOD = lambda c: RING_KEYS + DICT_KEYS + COUNTER_KEYS  # noqa: E731


def wf_post(n):
    return [('wf.' + l, f) for l, f in full_wf(n)]


# ---- __setitem__ --------------------------------------------------------------------------------------------------------
def setitem_ensures(c):
    o, n = V(c, c.old), V(c)
    return wf_post(n) + setitem_effect(o, n, c.a('key'), c.a('value')) + [('counters unchanged', counters(o, n))]


setitem = Contract('LRI.__setitem__', setup=S('key', 'value'), requires=lambda c: pub_requires(c, 'key'),
                   ensures=setitem_ensures, modifies=PUB_MOD, variants=['LRI', 'LRU'], local_types=dict(link=REF(Link)))
setitem.ghost_mod = ['t', 'clock', 'live']


# ---- __getitem__ (LRI: no recency change on hit; LRU: hit makes the key most recent) --------------------------------------
def getitem_ensures_for(lru):
    def ens(c):
        o, n = V(c, c.old), V(c)
        key = c.a('key')
        hit = z3.Select(o.ddom, key)
        missv = c.eng.f_opaque_call(o.on_miss, key)
        k = z3.Const('k', Val)
        out = wf_post(n)
        if lru:
            hit_view = z3.And(n.ddom == o.ddom, n.dsize == o.dsize, n.stamp(key) == o.clock, n.clock == o.clock + 1,
                              others_keep_stamp(o, n, key), others_keep_value(o, n))
        else:
            hit_view = z3.And(view_unchanged(o, n), n.clock == o.clock)
        out.append(('hit: returns the cached value, counts a hit, %s' % ('key becomes most recent' if lru else 'view unchanged'),
                    z3.Implies(hit, z3.And(c.r() == z3.Select(o.dval, key), counters(o, n, hit=1), hit_view))))
        out.append(('miss returns only through on_miss', z3.Implies(z3.Not(hit), o.on_miss != NONE)))
        eff = setitem_effect(o, n, key, missv)
        out.append(('miss: on_miss(key) is returned and cached like an assignment, counts a miss',
                    z3.Implies(z3.Not(hit), z3.And(c.r() == missv, counters(o, n, miss=1), *[f for _, f in eff]))))
        return out
    return ens


def getitem_raises(c):
    o, n = V(c, c.old), V(c)
    return [('KeyError only for an absent key without on_miss', z3.And(z3.Not(z3.Select(o.ddom, c.a('key'))), o.on_miss == NONE)),
            ('counts a miss, view unchanged', z3.And(counters(o, n, miss=1), view_unchanged(o, n), n.clock == o.clock)),
            ] + wf_post(n)


def onmiss_raised(c):
    """an exception raised by on_miss itself passes through: the lookup still did not find the key"""
    o, n = V(c, c.old), V(c)
    return [('only a lookup of an absent key with on_miss set', z3.And(z3.Not(z3.Select(o.ddom, c.a('key'))), o.on_miss != NONE)),
            ('counts a miss, view unchanged', z3.And(counters(o, n, miss=1), view_unchanged(o, n), n.clock == o.clock)),
            ] + wf_post(n)


VALRET = lambda c: SVal(c.st.fresh.const('ret', Val))  # noqa: E731
getitem_lri = Contract('LRI.__getitem__', setup=S('key'), requires=lambda c: pub_requires(c, 'key'),
                       ensures=getitem_ensures_for(False), raises={'KeyError': getitem_raises, 'AnyException': onmiss_raised},
                       modifies=PUB_MOD,
                       returns=VALRET, variants=['LRI'], local_types=dict(link=REF(Link)))
getitem_lru = Contract('LRU.__getitem__', setup=S('key'), requires=lambda c: pub_requires(c, 'key'),
                       ensures=getitem_ensures_for(True), raises={'KeyError': getitem_raises, 'AnyException': onmiss_raised},
                       modifies=PUB_MOD,
                       returns=VALRET, variants=['LRU'], local_types=dict(link=REF(Link)))
getitem_lri.ghost_mod = getitem_lru.ghost_mod = ['t', 'clock', 'live']


# ---- __delitem__ / pop -------------------------------------------------------------------------------------------------------
def removed_effect(o, n, key):
    return z3.And(n.ddom == z3.Store(o.ddom, key, False), n.dsize == o.dsize - 1, others_keep_value(o, n),
                  others_keep_stamp(o, n), n.clock == o.clock, counters(o, n))


def delitem_ensures(c):
    o, n = V(c, c.old), V(c)
    return wf_post(n) + [('key was present and is removed; nothing else changes',
                          z3.And(z3.Select(o.ddom, c.a('key')), removed_effect(o, n, c.a('key'))))]


def absent_unchanged(c):
    o, n = V(c, c.old), V(c)
    return [('KeyError only for an absent key', z3.Not(z3.Select(o.ddom, c.a('key')))),
            ('nothing changes', z3.And(view_unchanged(o, n), counters(o, n), n.clock == o.clock))] + wf_post(n)


delitem = Contract('LRI.__delitem__', setup=S('key'), requires=lambda c: pub_requires(c, 'key'), ensures=delitem_ensures,
                   raises={'KeyError': absent_unchanged}, modifies=PUB_MOD, variants=['LRI', 'LRU'])
delitem.ghost_mod = ['t', 'clock', 'live']


def pop_setup(eng, st, variant='LRI'):
    d = S('key')(eng, st, variant)
    d['default'] = SVal(z3.Const('default', Val))
    return d


def pop_ensures(c):
    o, n = V(c, c.old), V(c)
    key, default = c.a('key'), c.a('default')
    present = z3.Select(o.ddom, key)
    return wf_post(n) + [
        ('present: value returned, key removed', z3.Implies(present, z3.And(c.r() == z3.Select(o.dval, key), removed_effect(o, n, key)))),
        ('absent: default returned, nothing changes', z3.Implies(z3.Not(present), z3.And(
            default != MISSING, c.r() == default, view_unchanged(o, n), counters(o, n), n.clock == o.clock)))]


def pop_raises(c):
    o, n = V(c, c.old), V(c)
    return [('KeyError only for an absent key without default', z3.And(z3.Not(z3.Select(o.ddom, c.a('key'))), c.a('default') == MISSING)),
            ('nothing changes', z3.And(view_unchanged(o, n), counters(o, n), n.clock == o.clock))] + wf_post(n)


pop = Contract('LRI.pop', setup=pop_setup, requires=lambda c: pub_requires(c, 'key'), ensures=pop_ensures,
               raises={'KeyError': pop_raises}, modifies=PUB_MOD, returns=VALRET, variants=['LRI', 'LRU'])
pop.ghost_mod = ['t', 'clock', 'live']


# ---- popitem / clear ------------------------------------------------------------------------------------------------------------
def popitem_ensures(c):
    o, n = V(c, c.old), V(c)
    k, v = c.result.items[0].t, c.result.items[1].t
    return wf_post(n) + [('returns a present pair and removes it', z3.And(
        z3.Select(o.ddom, k), v == z3.Select(o.dval, k), removed_effect(o, n, k)))]


def popitem_raises(c):
    o, n = V(c, c.old), V(c)
    return [('KeyError only when empty', o.dsize == 0),
            ('nothing changes', z3.And(view_unchanged(o, n), counters(o, n), n.clock == o.clock))] + wf_post(n)


popitem = Contract('LRI.popitem', setup=S(), requires=lambda c: pub_requires(c), ensures=popitem_ensures,
                   raises={'KeyError': popitem_raises}, modifies=PUB_MOD, variants=['LRI', 'LRU'],
                   returns=lambda c: STuple([SVal(c.st.fresh.const('pk', Val)), SVal(c.st.fresh.const('pv', Val))]))
popitem.ghost_mod = ['t', 'clock', 'live']


def clear_ghost_exit(c, outcome):
    return dict(live=z3.K(z3.IntSort(), z3.BoolVal(False)))


def clear_ensures(c):
    o, n = V(c, c.old), V(c)
    k = z3.Const('k', Val)
    return wf_post(n) + [('empty afterwards, counters unchanged',
                          z3.And(z3.ForAll([k], z3.Not(z3.Select(n.ddom, k))), n.dsize == 0, counters(o, n)))]


clear = Contract('LRI.clear', setup=S(), requires=lambda c: pub_requires(c), ensures=clear_ensures,
                 modifies=lambda c: PUB_MOD(c) + [('LRI', '_link_lookup')],
                 variants=['LRI', 'LRU'])
clear.ghost_exit = clear_ghost_exit
clear.ghost_mod = ['t', 'clock', 'live']
initll = Contract('LRI._init_ll', inline=True, local_types=dict(anchor=REF(Link)))


# ---- get / setdefault -------------------------------------------------------------------------------------------------------------
def get_setup(eng, st, variant='LRI'):
    d = S('key')(eng, st, variant)
    d['default'] = SVal(z3.Const('default', Val))
    return d


def get_ensures_for(setdefault):
    def ens(c):
        o, n = V(c, c.old), V(c)
        key, default = c.a('key'), c.a('default')
        lru = c.sv('self').cls.pyclass == 'LRU'
        hit = z3.Select(o.ddom, key)
        has = o.on_miss != NONE
        missv = c.eng.f_opaque_call(o.on_miss, key)
        if lru:
            hit_view = z3.And(n.ddom == o.ddom, n.dsize == o.dsize, n.stamp(key) == o.clock, n.clock == o.clock + 1,
                              others_keep_stamp(o, n, key), others_keep_value(o, n))
        else:
            hit_view = z3.And(view_unchanged(o, n), n.clock == o.clock)
        out = wf_post(n)
        out.append(('hit: cached value, one hit', z3.Implies(hit, z3.And(c.r() == z3.Select(o.dval, key),
                                                                          counters(o, n, hit=1), hit_view))))
        # on_miss may itself raise; if what it raises is a KeyError, get()/setdefault() answer with the caller default
        if setdefault:
            dflt = z3.And(c.r() == default, counters(o, n, miss=1, soft=1), *[f for _, f in setitem_effect(o, n, key, default)])
        else:
            dflt = z3.And(c.r() == default, counters(o, n, miss=1, soft=1), view_unchanged(o, n), n.clock == o.clock)
        out.append(('miss with on_miss: its value is returned and cached, one (hard) miss '
                    '(or on_miss raised KeyError: caller default, one miss that is also a soft miss)',
                    z3.Implies(z3.And(z3.Not(hit), has),
                               z3.Or(z3.And(c.r() == missv, counters(o, n, miss=1), *[f for _, f in setitem_effect(o, n, key, missv)]),
                                     dflt))))
        if setdefault:
            out.append(('miss without on_miss: default is returned and cached, one miss that is also a soft miss',
                        z3.Implies(z3.And(z3.Not(hit), z3.Not(has)), z3.And(
                            c.r() == default, counters(o, n, miss=1, soft=1),
                            *[f for _, f in setitem_effect(o, n, key, default)]))))
        else:
            out.append(('miss without on_miss: default returned, one miss that is also a soft miss, view unchanged',
                        z3.Implies(z3.And(z3.Not(hit), z3.Not(has)), z3.And(
                            c.r() == default, counters(o, n, miss=1, soft=1), view_unchanged(o, n), n.clock == o.clock))))
        return out
    return ens


get = Contract('LRI.get', setup=get_setup, requires=lambda c: pub_requires(c, 'key'), ensures=get_ensures_for(False),
               raises={'AnyException': onmiss_raised}, modifies=PUB_MOD, returns=VALRET, variants=['LRI', 'LRU'])
setdefault = Contract('LRI.setdefault', setup=get_setup, requires=lambda c: pub_requires(c, 'key'),
                      ensures=get_ensures_for(True), raises={'AnyException': onmiss_raised}, modifies=PUB_MOD, returns=VALRET,
                      variants=['LRI', 'LRU'])
get.ghost_mod = setdefault.ghost_mod = ['t', 'clock', 'live']

# ---- __len__ (takes the lock; also called by __setitem__ in the middle of its update, so it requires nothing) -----------------
def len_ensures(c):
    return [('len = size of the dict part', c.r() == c.f(c.sv('self'), 'size')),
            ('nothing changes', z3.And(same(c, RING_KEYS + DICT_KEYS + COUNTER_KEYS), ghost_same(c)))]


length = Contract('LRI.__len__', setup=S(), requires=lambda c: [], ensures=len_ensures, modifies=lambda c: [],
                  returns=lambda c: SInt(c.st.fresh.const('len', z3.IntSort())), variants=['LRI', 'LRU'])

for _c in [setitem, getitem_lri, getitem_lru, delitem, pop, popitem, clear, initll, get, setdefault, length]:
    CONTRACTS[_c.qualname] = _c
PUBLIC = [('LRI.__setitem__', ['LRI', 'LRU']), ('LRI.__getitem__', ['LRI']), ('LRU.__getitem__', ['LRU']),
          ('LRI.__delitem__', ['LRI', 'LRU']), ('LRI.pop', ['LRI', 'LRU']), ('LRI.popitem', ['LRI', 'LRU']),
          ('LRI.clear', ['LRI', 'LRU']), ('LRI.get', ['LRI', 'LRU']), ('LRI.setdefault', ['LRI', 'LRU']),
          ('LRI.__len__', ['LRI'])]
HELPERS = ['LRI._get_link_and_move_to_front_of_ll', 'LRI._set_key_and_add_to_front_of_ll',
           'LRI._set_key_and_evict_last_in_ll', 'LRI._remove_from_ll']


# ---- update / __ior__ (any mapping or iterable of pairs, any keyword arguments) ----------------------------------------------
def upd_setup(eng, st, variant='LRI'):
    d = S()(eng, st, variant)
    d['E'] = SVal(z3.Const('arg_E', Val))
    d['F'] = SVal(z3.Const('arg_F', Val))
    return d


def upd_inv(c):
    o, n = V(c, c.old), V(c)
    return [('wf.' + l, f) for l, f in full_wf(n)] + [
        ('counters, capacity and on_miss unchanged', counters(o, n)),
        ('dict facts', z3.And(dict_facts(n.ddom, n.dsize), dict_facts(n.lkdom, n.lksize))),
        ('setitem alias', z3.BoolVal(True))]


def upd_ensures(c):
    o, n = V(c, c.old), V(c)
    return wf_post(n) + [('never more than max_size items', z3.And(n.dsize <= n.max_size, n.max_size == o.max_size)),
                         ('counters and on_miss unchanged', counters(o, n))]


update = Contract('LRI.update', setup=upd_setup, requires=lambda c: pub_requires(c), ensures=upd_ensures, modifies=PUB_MOD,
                  variants=['LRI', 'LRU'], loops={0: Loop(upd_inv, heap=RING_KEYS + DICT_KEYS + COUNTER_KEYS, ghost=['t', 'clock', 'live']),
                                                  1: Loop(upd_inv, heap=RING_KEYS + DICT_KEYS + COUNTER_KEYS, ghost=['t', 'clock', 'live']),
                                                  2: Loop(upd_inv, heap=RING_KEYS + DICT_KEYS + COUNTER_KEYS, ghost=['t', 'clock', 'live'])})
update.ghost_mod = ['t', 'clock', 'live']


def ior_setup(eng, st, variant='LRI'):
    d = S()(eng, st, variant)
    d['other'] = SVal(z3.Const('arg_other', Val))
    return d


def ior_ensures(c):
    return upd_ensures(c) + [('returns self', c.r() == c.sv('self').t)]


ior = Contract('LRI.__ior__', setup=ior_setup, requires=lambda c: pub_requires(c), ensures=ior_ensures, modifies=PUB_MOD,
               variants=['LRI', 'LRU'])
ior.ghost_mod = ['t', 'clock', 'live']
CONTRACTS['LRI.update'] = update
CONTRACTS['LRI.__ior__'] = ior
PUBLIC += [('LRI.update', ['LRI', 'LRU']), ('LRI.__ior__', ['LRI', 'LRU'])]
