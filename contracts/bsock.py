"""Contracts for boltons.socketutils.BufferedSocket.recv / recv_size (property C12) as conservation equations.

Ghost socket: `pending` = the bytes the peer has sent (or will send) that the socket has not delivered yet, `closed` = the
peer closed after them.  Assumed socket contract (every chunking and every timeout placement at once):
   sock.recv(n), n >= 1: returns a non-empty prefix of `pending` of length <= n and removes it from `pending`;
                 or returns b'' when `pending` is empty and the peer closed;  or raises socket.timeout (nothing consumed).
Conservation (the property): at every exit, normal or exceptional,
      returned ++ rbuf' ++ pending' == rbuf ++ pending        (no byte lost, duplicated or reordered)
and the returned value is determined by the stream alone: recv_size returns exactly `size` bytes (the first `size` bytes
of rbuf ++ pending, by prefix uniqueness), recv returns a non-empty prefix no longer than `size` (empty only at end of stream).
"""
import z3

from pyvc.values import (HeapClass, INT, REAL, VAL, STR, REF, SRef, SVal, SInt, SReal, SStr, SNone, SExc, SFunc, Val)
from pyvc.contract import Contract, Loop

FILE = 'boltons/socketutils.py'
Sock = HeapClass('RawSocket', 'record', fields={})
Lock = HeapClass('RLock', 'record', fields={})
Chunks = HeapClass('BytesList', 'list', e=STR)
Chunks.fields['cat'] = STR
BS = HeapClass('BufferedSocket', 'record', pyclass='BufferedSocket',
               fields=dict(sock=REF(Sock), rbuf=STR, _recvsize=INT, timeout=REAL, _recv_lock=REF(Lock),
                           sbuf=REF(Chunks), _send_lock=REF(Lock), maxsize=INT))
CLASSES = {'BufferedSocket': BS}
ALL = [Sock, Lock, Chunks, BS]
UNSET = z3.Const('_UNSET', Val)
CONSTS = {'_UNSET': SVal(UNSET), 'time': SFunc('module', 'time'), 'socket': SFunc('module', 'socket')}
E = z3.StringVal('')


def ext_recv(eng, args, kwargs, st, node):
    n = args[1]
    if not isinstance(n, SInt):
        raise Exception('recv size')
    pending, closed = st.ghost['pending'], st.ghost['closed']
    out = []
    # a chunk: some non-empty prefix of pending, no longer than n
    s1 = st.copy()
    chunk = s1.fresh.const('chunk', z3.StringSort())
    rest = s1.fresh.const('rest', z3.StringSort())
    s1 = s1.assume(z3.And(pending == z3.Concat(chunk, rest), z3.Length(chunk) >= 1, z3.Length(chunk) <= n.t))
    s1.ghost['pending'] = rest
    if eng.feasible(s1.pc):
        s1.note('recv delivers a chunk')
        out.append((SStr(chunk), s1))
    # end of stream
    s2 = st.assume(z3.And(pending == E, closed))
    if eng.feasible(s2.pc):
        s2.note('recv returns b"" (peer closed)')
        out.append((SStr(E), s2))
    # timeout: nothing consumed
    s3 = st.copy()
    s3.note('recv raises socket.timeout')
    out.append((SExc('timeout'), s3))
    eng.trusted.add('socket.recv(n): a non-empty prefix of the undelivered stream of length <= n, or b"" at end of stream, or socket.timeout')
    return out


def ext_send(eng, args, kwargs, st, node):
    """sock.send(data): some prefix of data (possibly all, possibly nothing) goes onto the wire, its length is returned;
    or socket.timeout / another socket error is raised and nothing was sent"""
    data = args[1]
    if not isinstance(data, SStr):
        raise Exception('send data')
    out = []
    s1 = st.copy()
    sent = s1.fresh.const('sent', z3.IntSort())
    s1 = s1.assume(z3.And(sent >= 0, sent <= z3.Length(data.t)))
    s1.ghost['wire'] = z3.Concat(st.ghost['wire'], z3.SubString(data.t, 0, sent))
    s1.note('send puts a prefix on the wire')
    out.append((SInt(sent), s1))
    s2 = st.copy()
    s2.note('send raises socket.timeout')
    out.append((SExc('timeout'), s2))
    s3 = st.copy()
    s3.note('send raises a socket error')
    out.append((SExc('OSError'), s3))
    eng.trusted.add('socket.send(data): returns k with 0 <= k <= len(data) after putting data[:k] on the wire, or raises '
                    'socket.timeout / OSError having sent nothing')
    return out


def ext_settimeout(eng, args, kwargs, st, node):
    return [(SNone(), st)]


def ext_time(eng, args, kwargs, st, node):
    return [(SReal(st.fresh.const('now', z3.RealSort())), st)]


def ext_sock_timeout(eng, args, kwargs, st, node):
    return [(SExc('timeout'), st)]


def ext_join(eng, args, kwargs, st, node):
    sep, lst = args[0], args[1]
    if not (z3.is_string_value(sep.t) and sep.t.as_string() == '' and isinstance(lst, SRef) and 'cat' in lst.cls.fields):
        raise Exception('join')
    return [(SStr(eng.hload(st, lst, 'cat')), st)]


EXTERNALS = {'method:RawSocket.recv': ext_recv, 'method:RawSocket.send': ext_send, 'method:RawSocket.settimeout': ext_settimeout, 'time.time': ext_time,
             'socket.timeout': ext_sock_timeout, 'strmethod:join': ext_join}


class NoLock:
    def is_lock(self, eng, cm):
        return isinstance(cm, SRef) and cm.cls.name == 'RLock'

    def acquire(self, eng, st, cm):
        pass

    def release(self, eng, st, cm):
        pass

    def field_access(self, *a):
        pass


def setup(eng, st, variant):
    st.ghost['pending'] = z3.String('pending0')
    st.ghost['closed'] = z3.Bool('closed0')
    d = dict(self=SRef(BS, z3.Int('self')), size=SInt(z3.Int('arg_size')), timeout=SVal(UNSET))
    eng.field_consts = {}
    if variant == 'notimeout':
        eng.field_consts[('BufferedSocket', 'timeout')] = SNone()
    return d


def stream(c, st=None):
    st = st or c.st
    return z3.Concat(c.f(c.sv('self'), 'rbuf', st), st.ghost['pending'])


def base_req(c):
    s = c.sv('self')
    return [('size >= 1, recvsize >= 1', z3.And(c.a('size') >= 1, c.f(s, '_recvsize') >= 1)),
            ('objects', z3.And(s.t >= 1, s.t < c.st.alloc))]


# ---- recv_size -----------------------------------------------------------------------------------------------------------
def rs_inv(c):
    chunks = c.Lsv('chunks')
    cat = c.f(chunks, 'cat')
    nxt = c.L('nxt')
    s = c.sv('self')
    e = c.x['loop_entry']
    first = c.f(s, 'rbuf') != E   # while the old buffer is being consumed it is still referenced by self.rbuf
    return [('chunks is the list allocated by this call', z3.And(chunks.t >= z3.Int('alloc0'), chunks.t == e.locals['chunks'].t)),
            ('conservation: joined chunks ++ nxt ++ undelivered == original stream',
             z3.Concat(cat, nxt, c.g('pending')) == stream(c, c.old)),
            ('total_bytes counts the joined chunks', z3.And(c.L('total_bytes') == z3.Length(cat), c.L('total_bytes') < c.a('size'))),
            ('rbuf is untouched so far', c.f(s, 'rbuf') == c.f(s, 'rbuf', c.old)),
            ('an empty nxt means end of stream', z3.Implies(nxt == E, z3.And(c.g('closed'), c.g('pending') == E))),
            ('the peer-closed flag never changes', c.g('closed') == c.og('closed'))]


def rs_ensures(c):
    s = c.sv('self')
    return [('exactly size bytes are returned', z3.Length(c.r()) == c.a('size')),
            ('conservation: returned ++ rbuf ++ undelivered == original stream',
             z3.Concat(c.r(), c.f(s, 'rbuf'), c.g('pending')) == stream(c, c.old))]


def rs_raises_nothing_lost(c):
    return [('conservation on the exception path: rbuf ++ undelivered == original stream', stream(c) == stream(c, c.old))]


def rs_closed(c):
    return rs_raises_nothing_lost(c) + [
        ('ConnectionClosed only when the whole stream is shorter than size and the peer closed',
         z3.And(c.g('closed'), c.g('pending') == E, z3.Length(stream(c, c.old)) < c.a('size')))]


recv_size = Contract('BufferedSocket.recv_size', setup=setup, requires=base_req, ensures=rs_ensures,
                     raises={'Timeout': rs_raises_nothing_lost, 'ConnectionClosed': rs_closed},
                     modifies=lambda c: [('BufferedSocket', 'rbuf'), ('BytesList', 'elems'), ('BytesList', 'len'), ('BytesList', 'cat')],
                     loops={0: Loop(rs_inv, heap=[('BytesList', 'elems'), ('BytesList', 'len'), ('BytesList', 'cat')],
                                    ghost=['pending'])},
                     local_types=dict(chunks=REF(Chunks)), variants=['timeout', 'notimeout'])


# ---- recv ---------------------------------------------------------------------------------------------------------------------
def recv_setup(eng, st, variant):
    d = setup(eng, st, variant)
    d['flags'] = SInt(0)
    return d


def recv_ensures(c):
    s = c.sv('self')
    return [('conservation: returned ++ rbuf ++ undelivered == original stream',
             z3.Concat(c.r(), c.f(s, 'rbuf'), c.g('pending')) == stream(c, c.old)),
            ('no longer than requested', z3.Length(c.r()) <= c.a('size')),
            ('empty only at end of stream', z3.Implies(c.r() == E, z3.And(stream(c, c.old) == E, c.g('closed'))))]


recv = Contract('BufferedSocket.recv', setup=recv_setup, requires=base_req, ensures=recv_ensures,
                raises={'Timeout': rs_raises_nothing_lost}, modifies=lambda c: [('BufferedSocket', 'rbuf')],
                variants=['timeout', 'notimeout'])
CONTRACTS = {c.qualname: c for c in [recv_size, recv]}
FUNCS = [('BufferedSocket.recv_size', ['timeout', 'notimeout']), ('BufferedSocket.recv', ['timeout', 'notimeout'])]


def make_engine(repo):
    from pyvc.engine import Engine
    eng = Engine(repo, FILE, classes=CLASSES, contracts=CONTRACTS, consts=dict(CONSTS), externals=dict(EXTERNALS),
                 hooks=NoLock(), exc_classes=('Timeout', 'ConnectionClosed', 'MessageTooLong'))
    for c in ALL:
        eng.register_class(c)
    eng.cvc5_mode = 'first'
    eng.feas_ms = 250      # string path conditions: an undecided feasibility test keeps the path (sound, only slower)
    return eng


# ---- peek / recv_close (built on the recv_size contract) ------------------------------------------------------------------------
recv_size.returns = lambda c: SStr(c.st.fresh.const('recvd', z3.StringSort()))
recv_size.ghost_mod = ['pending']
recv.ghost_mod = ['pending']


def peek_ensures(c):
    s = c.sv('self')
    return [('exactly size bytes are returned', z3.Length(c.r()) == c.a('size')),
            ('nothing is consumed: rbuf ++ undelivered == original stream', stream(c) == stream(c, c.old)),
            ('the returned bytes are the head of the buffer', z3.PrefixOf(c.r(), c.f(s, 'rbuf')))]


peek = Contract('BufferedSocket.peek', setup=setup, requires=base_req, ensures=peek_ensures,
                raises={'Timeout': rs_raises_nothing_lost, 'ConnectionClosed': rs_closed},
                modifies=lambda c: [('BufferedSocket', 'rbuf'), ('BytesList', 'elems'), ('BytesList', 'len'), ('BytesList', 'cat')],
                variants=['timeout'])


def large_maxsize(eng):
    """_RECV_LARGE_MAXSIZE as written in the module text (whatever its value: the property does not fix it)"""
    import ast
    node = eng.src.consts['_RECV_LARGE_MAXSIZE']
    return int(eval(compile(ast.Expression(node), '<const>', 'eval'), {'__builtins__': {}}, {}))


def rc_setup(eng, st, variant):
    d = setup(eng, st, 'timeout')
    del d['size']
    # variants: an explicit integer maxsize | the default (_UNSET -> self.maxsize, an integer) | self.maxsize is None (-> 1 PB)
    d['maxsize'] = SInt(z3.Int('arg_maxsize')) if variant == 'timeout' else SVal(UNSET)
    if variant == 'maxsize-none':
        eng.field_consts[('BufferedSocket', 'maxsize')] = SNone()
    return d


def rc_max(c):
    """the effective maxsize"""
    if c.eng.variant == 'timeout':
        return c.a('maxsize')
    if c.eng.variant == 'maxsize-none':
        return z3.IntVal(large_maxsize(c.eng))
    return c.f(c.sv('self'), 'maxsize', c.old)


def rc_requires(c):
    s = c.sv('self')
    return [('maxsize >= 0, recvsize >= 1', z3.And(rc_max(c) >= 0, c.f(s, '_recvsize') >= 1)),
            ('objects', z3.And(s.t >= 1, s.t < c.st.alloc))]


def rc_ensures(c):
    s = c.sv('self')
    return [('everything up to the close is returned: returned == original stream, nothing is left',
             z3.And(c.r() == stream(c, c.old), c.f(s, 'rbuf') == E, c.g('pending') == E, c.g('closed'))),
            ('within maxsize', z3.Length(c.r()) <= rc_max(c))]


def rc_toolong(c):
    return rs_raises_nothing_lost(c) + [('MessageTooLong only when more than maxsize bytes arrive before the close',
                                         z3.Length(stream(c, c.old)) > rc_max(c))]


recv_close = Contract('BufferedSocket.recv_close', setup=rc_setup, requires=rc_requires, ensures=rc_ensures,
                      raises={'Timeout': rs_raises_nothing_lost, 'MessageTooLong': rc_toolong},
                      modifies=lambda c: [('BufferedSocket', 'rbuf'), ('BytesList', 'elems'), ('BytesList', 'len'), ('BytesList', 'cat')],
                      variants=['timeout', 'maxsize-default', 'maxsize-none'])
for _c in [peek, recv_close]:
    _c.ghost_mod = ['pending']
    CONTRACTS[_c.qualname] = _c
FUNCS += [('BufferedSocket.peek', ['timeout']), ('BufferedSocket.recv_close', ['timeout', 'maxsize-default', 'maxsize-none'])]


# ---- send side: send / sendall / flush / buffer -----------------------------------------------------------------------------
# Ghost `wire` = every byte handed to the operating system so far, in order.  The send buffer is a Python list of byte
# strings; its ghost field `cat` is the concatenation of its items, maintained by the engine on append / lst[:] = [...] /
# one-element item store, and `b''.join([s for s in lst if s])` evaluates to it.
# Conservation (the property): at every exit, normal or exceptional,   wire' ++ cat(sbuf') == wire ++ cat(sbuf) ++ data.
def send_setup(eng, st, variant):
    st.ghost['wire'] = z3.String('wire0')
    d = dict(self=SRef(BS, z3.Int('self')), data=SStr(z3.String('arg_data')), flags=SInt(z3.Int('arg_flags')), timeout=SVal(UNSET))
    eng.field_consts = {}
    if variant == 'notimeout':
        eng.field_consts[('BufferedSocket', 'timeout')] = SNone()
    return d


def sbuf_of(c, st=None):
    return SRef(Chunks, c.f(c.sv('self'), 'sbuf', st or c.st))


def sbuf_rep(c, st=None):
    """what is known of a concatenation-tracked list without unfolding the concatenation"""
    st = st or c.st
    b = sbuf_of(c, st)
    n, cat, el = c.f(b, 'len', st), c.f(b, 'cat', st), c.f(b, 'elems', st)
    return z3.And(n >= 0, z3.Implies(n == 0, cat == E), z3.Implies(n == 1, z3.Select(el, 0) == cat))


def send_req(c):
    s, b = c.sv('self'), sbuf_of(c)
    return [('objects', z3.And(s.t >= 1, s.t < c.st.alloc, b.t >= 1, b.t < c.st.alloc)),
            ('send buffer representation', sbuf_rep(c))]


def owed(c, with_data=True):
    """everything that has to reach the peer: what was on the wire, what was buffered, and the new data"""
    parts = [c.og('wire'), c.f(sbuf_of(c, c.old), 'cat', c.old)]
    if with_data:
        parts.append(c.a('data'))
    return z3.Concat(*parts)


def send_inv(c):
    b = c.Lsv('sbuf')
    return [('sbuf is the send buffer of self, holding one item', z3.And(b.t == sbuf_of(c).t, b.t == sbuf_of(c, c.old).t, c.f(b, 'len') == 1,
                                                                      z3.Select(c.f(b, 'elems'), 0) == c.f(b, 'cat'))),
            ('conservation: wire ++ unsent == wire0 ++ buffered0 ++ data', z3.Concat(c.g('wire'), c.f(b, 'cat')) == owed(c))]


def send_ensures(c):
    b = sbuf_of(c)
    return [('everything owed is on the wire, in order', c.g('wire') == owed(c)),
            ('the send buffer is empty', c.f(b, 'cat') == E),
            ('representation: the buffer list and its ghost concatenation agree', sbuf_rep(c))]
    # (the returned byte count is not part of the property statement and is left unconstrained)


def send_interrupted(c):
    b = sbuf_of(c)
    return [('conservation on the exception path: wire ++ still buffered == wire0 ++ buffered0 ++ data',
             z3.Concat(c.g('wire'), c.f(b, 'cat')) == owed(c)),
            ('representation: the buffer list and its ghost concatenation agree', sbuf_rep(c))]


def send_refused(c):
    b = sbuf_of(c)
    return [('ValueError only for non-zero flags', c.a('flags') != 0),
            ('nothing sent, nothing buffered', z3.And(c.g('wire') == c.og('wire'),
                                                      c.f(b, 'cat') == c.f(sbuf_of(c, c.old), 'cat', c.old))),
            ('representation: the buffer list and its ghost concatenation agree', sbuf_rep(c))]


SEND_MOD = lambda c: [('BytesList', 'elems'), ('BytesList', 'len'), ('BytesList', 'cat'), ('BufferedSocket', 'sbuf')]  # noqa: E731
send = Contract('BufferedSocket.send', setup=send_setup, requires=send_req, ensures=send_ensures,
                raises={'Timeout': send_interrupted, 'OSError': send_interrupted, 'ValueError': send_refused},
                modifies=SEND_MOD, loops={0: Loop(send_inv, heap=[('BytesList', 'elems'), ('BytesList', 'cat')], ghost=['wire'])},
                returns=lambda c: SInt(c.st.fresh.const('nsent', z3.IntSort())), variants=['timeout', 'notimeout'])
send.ghost_mod = ['wire']


def flush_setup(eng, st, variant):
    d = send_setup(eng, st, variant)
    return dict(self=d['self'])


def flush_ensures(c):
    b = sbuf_of(c)
    return [('everything buffered is on the wire, in order', c.g('wire') == owed(c, False)),
            ('the send buffer is empty', c.f(b, 'cat') == E),
            ('representation: the buffer list and its ghost concatenation agree', sbuf_rep(c))]


def flush_interrupted(c):
    b = sbuf_of(c)
    return [('conservation on the exception path: wire ++ still buffered == wire0 ++ buffered0',
             z3.Concat(c.g('wire'), c.f(b, 'cat')) == owed(c, False)),
            ('representation: the buffer list and its ghost concatenation agree', sbuf_rep(c))]


flush = Contract('BufferedSocket.flush', setup=flush_setup, requires=send_req, ensures=flush_ensures,
                 raises={'Timeout': flush_interrupted, 'OSError': flush_interrupted}, modifies=SEND_MOD, variants=['timeout'])
flush.ghost_mod = ['wire']


def buffer_setup(eng, st, variant):
    d = send_setup(eng, st, variant)
    return dict(self=d['self'], data=d['data'])


def buffer_ensures(c):
    b = sbuf_of(c)
    return [('data is appended to what is buffered', c.f(b, 'cat') == z3.Concat(c.f(sbuf_of(c, c.old), 'cat', c.old), c.a('data'))),
            ('nothing is sent', c.g('wire') == c.og('wire'))]


buffer = Contract('BufferedSocket.buffer', setup=buffer_setup, requires=send_req, ensures=buffer_ensures, modifies=SEND_MOD,
                  variants=['timeout'])
sendall = Contract('BufferedSocket.sendall', setup=send_setup, requires=send_req, ensures=send_ensures,
                   raises={'Timeout': send_interrupted, 'OSError': send_interrupted, 'ValueError': send_refused},
                   modifies=SEND_MOD, returns=lambda c: SInt(c.st.fresh.const('nsent', z3.IntSort())), variants=['timeout'])
sendall.ghost_mod = ['wire']
for _c in [send, flush, buffer, sendall]:
    _c.aux = ('representation:',)         # consistency of the ghost concatenation: a proof device, not part of the property
    CONTRACTS[_c.qualname] = _c
FUNCS += [('BufferedSocket.send', ['timeout', 'notimeout']), ('BufferedSocket.flush', ['timeout']),
          ('BufferedSocket.buffer', ['timeout']), ('BufferedSocket.sendall', ['timeout'])]
