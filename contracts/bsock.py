"""Contracts for boltons.socketutils.BufferedSocket.recv / recv_size (property C12) as conservation equations.

Ghost socket: `pending` = the bytes the peer has sent (or will send) that the socket has not delivered yet, `closed` = the
peer closed after them.  Assumed socket contract (every chunking and every timeout placement at once):
   sock.recv(n), n >= 1: returns a non-empty prefix of `pending` of length <= n and removes it from `pending`;
                 or returns b'' when `pending` is empty and the peer closed;  or raises socket.timeout (nothing consumed).
Conservation (the property): at every exit, normal or exceptional,
      returned ++ rbuf' ++ pending' == rbuf ++ pending        (no byte lost, duplicated or reordered)
and the returned value is determined by the stream alone: recv_size returns exactly `size` bytes (the first `size` bytes
of rbuf ++ pending, by prefix uniqueness), recv returns a non-empty prefix no longer than `size` (empty only at end of stream).
"""
import z3

from pyvc.values import (HeapClass, INT, REAL, VAL, STR, REF, SRef, SVal, SInt, SReal, SStr, SNone, SExc, SFunc, Val)
from pyvc.contract import Contract, Loop

FILE = 'boltons/socketutils.py'
Sock = HeapClass('RawSocket', 'record', fields={})
Lock = HeapClass('RLock', 'record', fields={})
Chunks = HeapClass('BytesList', 'list', e=STR)
Chunks.fields['cat'] = STR
BS = HeapClass('BufferedSocket', 'record', pyclass='BufferedSocket',
               fields=dict(sock=REF(Sock), rbuf=STR, _recvsize=INT, timeout=REAL, _recv_lock=REF(Lock)))
CLASSES = {'BufferedSocket': BS}
ALL = [Sock, Lock, Chunks, BS]
UNSET = z3.Const('_UNSET', Val)
CONSTS = {'_UNSET': SVal(UNSET), 'time': SFunc('module', 'time'), 'socket': SFunc('module', 'socket')}
E = z3.StringVal('')


def ext_recv(eng, args, kwargs, st, node):
    n = args[1]
    if not isinstance(n, SInt):
        raise Exception('recv size')
    pending, closed = st.ghost['pending'], st.ghost['closed']
    out = []
    # a chunk: some non-empty prefix of pending, no longer than n
    s1 = st.copy()
    chunk = s1.fresh.const('chunk', z3.StringSort())
    rest = s1.fresh.const('rest', z3.StringSort())
    s1 = s1.assume(z3.And(pending == z3.Concat(chunk, rest), z3.Length(chunk) >= 1, z3.Length(chunk) <= n.t))
    s1.ghost['pending'] = rest
    if eng.feasible(s1.pc):
        s1.note('recv delivers a chunk')
        out.append((SStr(chunk), s1))
    # end of stream
    s2 = st.assume(z3.And(pending == E, closed))
    if eng.feasible(s2.pc):
        s2.note('recv returns b"" (peer closed)')
        out.append((SStr(E), s2))
    # timeout: nothing consumed
    s3 = st.copy()
    s3.note('recv raises socket.timeout')
    out.append((SExc('timeout'), s3))
    eng.trusted.add('socket.recv(n): a non-empty prefix of the undelivered stream of length <= n, or b"" at end of stream, or socket.timeout')
    return out


def ext_settimeout(eng, args, kwargs, st, node):
    return [(SNone(), st)]


def ext_time(eng, args, kwargs, st, node):
    return [(SReal(st.fresh.const('now', z3.RealSort())), st)]


def ext_sock_timeout(eng, args, kwargs, st, node):
    return [(SExc('timeout'), st)]


def ext_join(eng, args, kwargs, st, node):
    sep, lst = args[0], args[1]
    if not (z3.is_string_value(sep.t) and sep.t.as_string() == '' and isinstance(lst, SRef) and 'cat' in lst.cls.fields):
        raise Exception('join')
    return [(SStr(eng.hload(st, lst, 'cat')), st)]


EXTERNALS = {'method:RawSocket.recv': ext_recv, 'method:RawSocket.settimeout': ext_settimeout, 'time.time': ext_time,
             'socket.timeout': ext_sock_timeout, 'strmethod:join': ext_join}


class NoLock:
    def is_lock(self, eng, cm):
        return isinstance(cm, SRef) and cm.cls.name == 'RLock'

    def acquire(self, eng, st, cm):
        pass

    def release(self, eng, st, cm):
        pass

    def field_access(self, *a):
        pass


def setup(eng, st, variant):
    st.ghost['pending'] = z3.String('pending0')
    st.ghost['closed'] = z3.Bool('closed0')
    d = dict(self=SRef(BS, z3.Int('self')), size=SInt(z3.Int('arg_size')), timeout=SVal(UNSET))
    eng.field_consts = {}
    if variant == 'notimeout':
        eng.field_consts[('BufferedSocket', 'timeout')] = SNone()
    return d


def stream(c, st=None):
    st = st or c.st
    return z3.Concat(c.f(c.sv('self'), 'rbuf', st), st.ghost['pending'])


def base_req(c):
    s = c.sv('self')
    return [('size >= 1, recvsize >= 1', z3.And(c.a('size') >= 1, c.f(s, '_recvsize') >= 1)),
            ('objects', z3.And(s.t >= 1, s.t < c.st.alloc))]


# ---- recv_size -----------------------------------------------------------------------------------------------------------
def rs_inv(c):
    chunks = c.Lsv('chunks')
    cat = c.f(chunks, 'cat')
    nxt = c.L('nxt')
    s = c.sv('self')
    e = c.x['loop_entry']
    first = c.f(s, 'rbuf') != E   # while the old buffer is being consumed it is still referenced by self.rbuf
    return [('chunks is the list allocated by this call', z3.And(chunks.t >= z3.Int('alloc0'), chunks.t == e.locals['chunks'].t)),
            ('conservation: joined chunks ++ nxt ++ undelivered == original stream',
             z3.Concat(cat, nxt, c.g('pending')) == stream(c, c.old)),
            ('total_bytes counts the joined chunks', z3.And(c.L('total_bytes') == z3.Length(cat), c.L('total_bytes') < c.a('size'))),
            ('rbuf is untouched so far', c.f(s, 'rbuf') == c.f(s, 'rbuf', c.old)),
            ('an empty nxt means end of stream', z3.Implies(nxt == E, z3.And(c.g('closed'), c.g('pending') == E))),
            ('the peer-closed flag never changes', c.g('closed') == c.og('closed'))]


def rs_ensures(c):
    s = c.sv('self')
    return [('exactly size bytes are returned', z3.Length(c.r()) == c.a('size')),
            ('conservation: returned ++ rbuf ++ undelivered == original stream',
             z3.Concat(c.r(), c.f(s, 'rbuf'), c.g('pending')) == stream(c, c.old))]


def rs_raises_nothing_lost(c):
    return [('conservation on the exception path: rbuf ++ undelivered == original stream', stream(c) == stream(c, c.old))]


def rs_closed(c):
    return rs_raises_nothing_lost(c) + [
        ('ConnectionClosed only when the whole stream is shorter than size and the peer closed',
         z3.And(c.g('closed'), c.g('pending') == E, z3.Length(stream(c, c.old)) < c.a('size')))]


recv_size = Contract('BufferedSocket.recv_size', setup=setup, requires=base_req, ensures=rs_ensures,
                     raises={'Timeout': rs_raises_nothing_lost, 'ConnectionClosed': rs_closed},
                     modifies=lambda c: [('BufferedSocket', 'rbuf'), ('BytesList', 'elems'), ('BytesList', 'len'), ('BytesList', 'cat')],
                     loops={0: Loop(rs_inv, heap=[('BytesList', 'elems'), ('BytesList', 'len'), ('BytesList', 'cat')],
                                    ghost=['pending'])},
                     local_types=dict(chunks=REF(Chunks)), variants=['timeout', 'notimeout'])


# ---- recv ---------------------------------------------------------------------------------------------------------------------
def recv_setup(eng, st, variant):
    d = setup(eng, st, variant)
    d['flags'] = SInt(0)
    return d


def recv_ensures(c):
    s = c.sv('self')
    return [('conservation: returned ++ rbuf ++ undelivered == original stream',
             z3.Concat(c.r(), c.f(s, 'rbuf'), c.g('pending')) == stream(c, c.old)),
            ('no longer than requested', z3.Length(c.r()) <= c.a('size')),
            ('empty only at end of stream', z3.Implies(c.r() == E, z3.And(stream(c, c.old) == E, c.g('closed'))))]


recv = Contract('BufferedSocket.recv', setup=recv_setup, requires=base_req, ensures=recv_ensures,
                raises={'Timeout': rs_raises_nothing_lost}, modifies=lambda c: [('BufferedSocket', 'rbuf')],
                variants=['timeout', 'notimeout'])
CONTRACTS = {c.qualname: c for c in [recv_size, recv]}
FUNCS = [('BufferedSocket.recv_size', ['timeout', 'notimeout']), ('BufferedSocket.recv', ['timeout', 'notimeout'])]


def make_engine(repo):
    from pyvc.engine import Engine
    eng = Engine(repo, FILE, classes=CLASSES, contracts=CONTRACTS, consts=dict(CONSTS), externals=dict(EXTERNALS),
                 hooks=NoLock(), exc_classes=('Timeout', 'ConnectionClosed', 'MessageTooLong'))
    for c in ALL:
        eng.register_class(c)
    eng.cvc5_mode = 'first'
    eng.feas_ms = 250      # string path conditions: an undecided feasibility test keeps the path (sound, only slower)
    return eng


# ---- peek / recv_close (built on the recv_size contract) ------------------------------------------------------------------------
recv_size.returns = lambda c: SStr(c.st.fresh.const('recvd', z3.StringSort()))
recv_size.ghost_mod = ['pending']
recv.ghost_mod = ['pending']


def peek_ensures(c):
    s = c.sv('self')
    return [('exactly size bytes are returned', z3.Length(c.r()) == c.a('size')),
            ('nothing is consumed: rbuf ++ undelivered == original stream', stream(c) == stream(c, c.old)),
            ('the returned bytes are the head of the buffer', z3.PrefixOf(c.r(), c.f(s, 'rbuf')))]


peek = Contract('BufferedSocket.peek', setup=setup, requires=base_req, ensures=peek_ensures,
                raises={'Timeout': rs_raises_nothing_lost, 'ConnectionClosed': rs_closed},
                modifies=lambda c: [('BufferedSocket', 'rbuf'), ('BytesList', 'elems'), ('BytesList', 'len'), ('BytesList', 'cat')],
                variants=['timeout'])


def rc_setup(eng, st, variant):
    d = setup(eng, st, variant)
    del d['size']
    d['maxsize'] = SInt(z3.Int('arg_maxsize'))
    return d


def rc_requires(c):
    s = c.sv('self')
    return [('maxsize >= 0, recvsize >= 1', z3.And(c.a('maxsize') >= 0, c.f(s, '_recvsize') >= 1)),
            ('objects', z3.And(s.t >= 1, s.t < c.st.alloc))]


def rc_ensures(c):
    s = c.sv('self')
    return [('everything up to the close is returned: returned == original stream, nothing is left',
             z3.And(c.r() == stream(c, c.old), c.f(s, 'rbuf') == E, c.g('pending') == E, c.g('closed'))),
            ('within maxsize', z3.Length(c.r()) <= c.a('maxsize'))]


def rc_toolong(c):
    return rs_raises_nothing_lost(c) + [('MessageTooLong only when more than maxsize bytes arrive before the close',
                                         z3.Length(stream(c, c.old)) > c.a('maxsize'))]


recv_close = Contract('BufferedSocket.recv_close', setup=rc_setup, requires=rc_requires, ensures=rc_ensures,
                      raises={'Timeout': rs_raises_nothing_lost, 'MessageTooLong': rc_toolong},
                      modifies=lambda c: [('BufferedSocket', 'rbuf'), ('BytesList', 'elems'), ('BytesList', 'len'), ('BytesList', 'cat')],
                      variants=['timeout'])
for _c in [peek, recv_close]:
    _c.ghost_mod = ['pending']
    CONTRACTS[_c.qualname] = _c
FUNCS += [('BufferedSocket.peek', ['timeout']), ('BufferedSocket.recv_close', ['timeout'])]
