"""Contracts for boltons.dictutils.OneToOne (property C17): a OneToOne and its .inv are exact inverses.

Invariant INV(self):  self.inv.inv is self, self.inv is another object, and
   forall k in self:      self[k] in inv  and inv[self[k]] == k
   forall v in self.inv:  inv[v] in self  and self[inv[v]] == v          (hence no value under two keys)
   len(self) == len(self.inv)
"""
import z3

from pyvc.values import HeapClass, INT, VAL, REF, SRef, SVal, SInt, SBool, SNone, STuple, Val, NONE, Ty
from pyvc.contract import Contract

FILE = 'boltons/dictutils.py'
MISSING = z3.Const('_MISSING_dictutils', Val)
OTO = HeapClass('OneToOne', 'record', pyclass='OneToOne', fields={}, dict_k=VAL, dict_v=VAL)
OTO.fields['inv'] = REF(OTO)
CLASSES = {'OneToOne': OTO}
ALL = [OTO]
CONSTS = {'_MISSING': SVal(MISSING)}
KEYS = [('OneToOne', 'dom'), ('OneToOne', 'val'), ('OneToOne', 'size')]


class V:
    def __init__(self, c, st=None, who='self'):
        st = st or c.st
        s = c.sv(who) if isinstance(who, str) else who
        self.s = s
        self.i = SRef(OTO, c.f(s, 'inv', st))
        self.dom, self.val, self.size = c.f(s, 'dom', st), c.f(s, 'val', st), c.f(s, 'size', st)
        self.idom, self.ival, self.isize = c.f(self.i, 'dom', st), c.f(self.i, 'val', st), c.f(self.i, 'size', st)
        self.iinv = c.f(self.i, 'inv', st)
        self.alloc = st.alloc


def inv_wf(v):
    k = z3.Const('k', Val)
    x = z3.Const('x', Val)
    fk = z3.Select(v.val, k)
    bx = z3.Select(v.ival, x)
    return [
        ('objects', z3.And(v.s.t >= 1, v.i.t >= 1, v.s.t < v.alloc, v.i.t < v.alloc, v.s.t != v.i.t, v.iinv == v.s.t)),
        ('forward pairs are mirrored', z3.ForAll([k], z3.Implies(z3.Select(v.dom, k), z3.And(
            z3.Select(v.idom, fk), z3.Select(v.ival, fk) == k)))),
        ('inverse pairs are mirrored', z3.ForAll([x], z3.Implies(z3.Select(v.idom, x), z3.And(
            z3.Select(v.dom, bx), z3.Select(v.val, bx) == x)))),
        ('same length', v.size == v.isize),
    ]


def S(*names):
    def setup(eng, st, variant=None):
        d = dict(self=SRef(OTO, z3.Int('self')))
        for n in names:
            d[n] = SVal(z3.Const(n, Val))
        return d
    return setup


def req(c):
    return inv_wf(V(c))


def size_facts(c):
    """true of every real dict (trusted): len >= 0"""
    v = V(c)
    return [('dict facts (len >= 0)', z3.And(v.size >= 0, v.isize >= 0))]


def post_wf(c):
    return [('inv.' + l, f) for l, f in inv_wf(V(c))]


MOD = lambda c: list(KEYS)  # noqa: E731


def same_state(c):
    return z3.And(*[c.eng.heap_arr(c.st, OTO, f) == c.eng.heap_arr(c.old, OTO, f) for f in ('dom', 'val', 'size', 'inv')])


# ---- __setitem__ --------------------------------------------------------------------------------------------------------
def setitem_ens(c):
    o, n = V(c, c.old), V(c)
    key, val = c.a('key'), c.a('val')
    k = z3.Const('k', Val)
    return post_wf(c) + [
        ('key maps to val', z3.And(z3.Select(n.dom, key), z3.Select(n.val, key) == val)),
        ('exactly the previous partners of key and of val are evicted; everything else is kept',
         z3.ForAll([k], z3.Implies(k != key, z3.And(
             z3.Select(n.dom, k) == z3.And(z3.Select(o.dom, k), z3.Select(o.val, k) != val),
             z3.Implies(z3.Select(n.dom, k), z3.Select(n.val, k) == z3.Select(o.val, k)))))),
        ('inv objects unchanged', z3.And(n.i.t == o.i.t, n.iinv == o.iinv))]


setitem = Contract('OneToOne.__setitem__', setup=S('key', 'val'), requires=req, ensures=setitem_ens, modifies=MOD)


# ---- __delitem__ -----------------------------------------------------------------------------------------------------------
def removed(o, n, key):
    k = z3.Const('k', Val)
    return z3.And(n.dom == z3.Store(o.dom, key, False), n.size == o.size - 1,
                  z3.ForAll([k], z3.Implies(z3.Select(n.dom, k), z3.Select(n.val, k) == z3.Select(o.val, k))),
                  n.idom == z3.Store(o.idom, z3.Select(o.val, key), False), n.isize == o.isize - 1,
                  z3.ForAll([k], z3.Implies(z3.Select(n.idom, k), z3.Select(n.ival, k) == z3.Select(o.ival, k))))


def delitem_req(c):
    # __setitem__ calls `del self.inv[val]` in the middle of its update, when the pairing is momentarily incomplete:
    # the precondition is therefore only the object shape; the full invariant is preserved *if* it held (see ensures)
    return [inv_wf(V(c))[0]]


def delitem_ens(c):
    o, n = V(c, c.old), V(c)
    key = c.a('key')
    pre = z3.And(*[f for _, f in inv_wf(o)])
    return [('key was present with a mirrored partner; its pair is removed on both sides, nothing else changes',
             z3.And(z3.Select(o.dom, key), z3.Select(o.idom, z3.Select(o.val, key)), removed(o, n, key))),
            ('inv objects unchanged', z3.And(n.i.t == o.i.t, n.iinv == o.iinv))] + \
           [('invariant preserved: ' + l, z3.Implies(pre, f)) for l, f in inv_wf(n)]


def absent(c):
    o = V(c, c.old)
    key = c.a('key')
    return [('KeyError only for an absent key (or a key whose partner is missing on the other side)',
             z3.Or(z3.Not(z3.Select(o.dom, key)), z3.Not(z3.Select(o.idom, z3.Select(o.val, key))))),
            ('KeyError for a present key only when the invariant was already broken',
             z3.Implies(z3.And(*[f for _, f in inv_wf(o)]), z3.Not(z3.Select(o.dom, key)))),
            ('state unchanged', same_state(c))]


delitem = Contract('OneToOne.__delitem__', setup=S('key'), requires=delitem_req, ensures=delitem_ens,
                   raises={'KeyError': absent}, modifies=MOD)


# ---- pop / popitem / clear / setdefault ----------------------------------------------------------------------------------------
def pop_ens(c):
    o, n = V(c, c.old), V(c)
    key, default = c.a('key'), c.a('default')
    present = z3.Select(o.dom, key)
    return post_wf(c) + [
        ('present: value returned and pair removed on both sides', z3.Implies(present, z3.And(
            c.r() == z3.Select(o.val, key), removed(o, n, key)))),
        ('absent: default returned, state unchanged', z3.Implies(z3.Not(present), z3.And(
            default != MISSING, c.r() == default, same_state(c))))]


def pop_raises(c):
    o = V(c, c.old)
    return [('KeyError only for an absent key without default', z3.And(z3.Not(z3.Select(o.dom, c.a('key'))), c.a('default') == MISSING)),
            ('state unchanged', same_state(c))]


pop = Contract('OneToOne.pop', setup=S('key', 'default'), requires=req, ensures=pop_ens, raises={'KeyError': pop_raises},
               modifies=MOD, returns=lambda c: SVal(c.st.fresh.const('ret', Val)))


def popitem_ens(c):
    o, n = V(c, c.old), V(c)
    k, v = c.result.items[0].t, c.result.items[1].t
    return post_wf(c) + [('returns a present pair and removes it on both sides',
                          z3.And(z3.Select(o.dom, k), v == z3.Select(o.val, k), removed(o, n, k)))]


def popitem_raises(c):
    o = V(c, c.old)
    return [('KeyError only when empty', o.size == 0), ('state unchanged', same_state(c))]


popitem = Contract('OneToOne.popitem', setup=S(), requires=req, ensures=popitem_ens, raises={'KeyError': popitem_raises},
                   modifies=MOD)


def clear_ens(c):
    n = V(c)
    k = z3.Const('k', Val)
    return post_wf(c) + [('both sides empty', z3.And(n.size == 0, n.isize == 0, z3.ForAll([k], z3.And(
        z3.Not(z3.Select(n.dom, k)), z3.Not(z3.Select(n.idom, k))))))]


clear = Contract('OneToOne.clear', setup=S(), requires=req, ensures=clear_ens, modifies=MOD)


def setdefault_ens(c):
    o, n = V(c, c.old), V(c)
    key, default = c.a('key'), c.a('default')
    present = z3.Select(o.dom, key)
    k = z3.Const('k', Val)
    return post_wf(c) + [
        ('present: value returned, state unchanged', z3.Implies(present, z3.And(c.r() == z3.Select(o.val, key), same_state(c)))),
        ('absent: default is set like an assignment and returned', z3.Implies(z3.Not(present), z3.And(
            c.r() == default, z3.Select(n.dom, key), z3.Select(n.val, key) == default,
            z3.ForAll([k], z3.Implies(k != key, z3.And(
                z3.Select(n.dom, k) == z3.And(z3.Select(o.dom, k), z3.Select(o.val, k) != default),
                z3.Implies(z3.Select(n.dom, k), z3.Select(n.val, k) == z3.Select(o.val, k))))))))]


setdefault = Contract('OneToOne.setdefault', setup=S('key', 'default'), requires=req, ensures=setdefault_ens, modifies=MOD,
                      returns=lambda c: SVal(c.st.fresh.const('ret', Val)))

CONTRACTS = {c.qualname: c for c in [setitem, delitem, pop, popitem, clear, setdefault]}
FUNCS = list(CONTRACTS)


def make_engine(repo):
    from pyvc.engine import Engine
    from .opaque_ext import EXTERNALS
    eng = Engine(repo, FILE, classes=CLASSES, contracts=CONTRACTS, consts=dict(CONSTS), externals=dict(EXTERNALS))
    for c in ALL:
        eng.register_class(c)
    return eng


# ---- update / __ior__ (any dict, iterable of pairs, keyword arguments) ---------------------------------------------------------
from pyvc.contract import Loop  # noqa: E402


def upd_setup(eng, st, variant=None):
    d = S()(eng, st)
    d['dict_or_iterable'] = SVal(z3.Const('arg_source', Val))
    d['kw'] = SVal(z3.Const('arg_kw', Val))
    return d


def upd_inv(c):
    o, n = V(c, c.old), V(c)
    return [('inv.' + l, f) for l, f in inv_wf(n)] + [('inv objects unchanged', z3.And(n.i.t == o.i.t, n.iinv == o.iinv)),
                                                      ]


TRIVL = Loop(lambda c: [], heap=[])
update = Contract('OneToOne.update', setup=upd_setup, requires=req,
                  ensures=lambda c: post_wf(c) + [('inv objects unchanged', z3.And(V(c).i.t == V(c, c.old).i.t))], modifies=MOD,
                  local_types=dict(keys_vals=Ty('val')),
                  loops={'for val in dict_or_iterable.values()': TRIVL, 'for val in kw.values()': TRIVL,
                         'for key, val in keys_vals': Loop(upd_inv, heap=list(KEYS))})


def ior_setup(eng, st, variant=None):
    d = S()(eng, st)
    d['other'] = SVal(z3.Const('arg_other', Val))
    return d


ior = Contract('OneToOne.__ior__', setup=ior_setup, requires=req,
               ensures=lambda c: post_wf(c) + [('returns self', c.r() == c.sv('self').t)], modifies=MOD)
CONTRACTS['OneToOne.update'] = update
CONTRACTS['OneToOne.__ior__'] = ior
FUNCS += ['OneToOne.update', 'OneToOne.__ior__']
for _c in CONTRACTS.values():
    _c.facts = size_facts
