"""Contracts for the item/index representation of boltons.setutils.IndexedSet (property C11): the list of slots and the
item -> slot map are two structures every operation must keep in step.

Representation invariant (the part that does not mention the dead-interval list, which contracts/iset.py covers):
  I1  every key of item_index_map points at a slot of item_list that holds that key, and no key is the _MISSING sentinel
  I2  every slot of item_list that is not _MISSING holds a key of the map, and the map sends that key back to this slot
  OWN the map, the slot list and the dead-interval list are distinct allocated objects; sizes are non-negative
Abstract view ("insertion-ordered list of unique items that is also a set"): the non-_MISSING slots in slot order; by I1/I2
the map's key set is exactly the set of items in the view and every item occurs in exactly one slot.

Under contract here: add (append at the end iff absent, otherwise nothing changes), __contains__, __len__, count, clear,
index (value -> apparent index through the proved contract of _get_apparent_index; ValueError exactly for an absent value).
"""
import z3

from pyvc.values import HeapClass, INT, VAL, REF, SRef, SVal, SInt, Val
from pyvc.contract import Contract
from contracts import iset as base

FILE = 'boltons/setutils.py'
MISSING = z3.Const('_MISSING_setutils', Val)
IMap = HeapClass('ISIndexMap', 'dict', k=VAL, v=INT)
IList = HeapClass('ISItemList', 'list', e=VAL)
IS = HeapClass('IndexedSet', 'record', pyclass='IndexedSet',
               fields=dict(item_index_map=REF(IMap), item_list=REF(IList), dead_indices=REF(base.DL),
                           _compactions=INT, _c_max_size=INT))
CLASSES = {'IndexedSet': IS}
ALL = [base.Iv, base.DL, IMap, IList, IS]
CONSTS = {'_MISSING': SVal(MISSING)}


class P:
    def __init__(self, c, st=None):
        st = st or c.st
        s = c.sv('self')
        self.self = s
        self.m = SRef(IMap, c.f(s, 'item_index_map', st))
        self.l = SRef(IList, c.f(s, 'item_list', st))
        self.d = SRef(base.DL, c.f(s, 'dead_indices', st))
        self.dom, self.val, self.size = c.f(self.m, 'dom', st), c.f(self.m, 'val', st), c.f(self.m, 'size', st)
        self.elems, self.len = c.f(self.l, 'elems', st), c.f(self.l, 'len', st)
        self.dlen = c.f(self.d, 'len', st)
        self.alloc = st.alloc


def wf(p):
    k = z3.Const('k', Val)
    i = z3.Int('i')
    at = z3.Select(p.elems, i)
    return [
        ('I1 every key points at the slot that holds it', z3.ForAll([k], z3.Implies(z3.Select(p.dom, k), z3.And(
            0 <= z3.Select(p.val, k), z3.Select(p.val, k) < p.len, z3.Select(p.elems, z3.Select(p.val, k)) == k, k != MISSING)))),
        ('I2 every live slot holds a key that points back at it', z3.ForAll([i], z3.Implies(
            z3.And(0 <= i, i < p.len, at != MISSING), z3.And(z3.Select(p.dom, at), z3.Select(p.val, at) == i)))),
        ('OWN distinct allocated parts', z3.And(
            p.self.t >= 1, p.self.t < p.alloc, p.m.t >= 1, p.m.t < p.alloc, p.l.t >= 1, p.l.t < p.alloc, p.d.t >= 1, p.d.t < p.alloc,
            p.size >= 0, p.len >= 0, p.dlen >= 0)),
    ]


def facts(c):
    """true of every real dict: len(d) == 0 iff d has no key"""
    p = P(c)
    k = z3.Const('kf', Val)
    return [('len(dict) == 0 iff no key', (p.size == 0) == z3.ForAll([k], z3.Not(z3.Select(p.dom, k))))]


def setup_self(eng, st, variant=None):
    return dict(self=SRef(IS, z3.Int('self')))


def setup_item(name):
    def setup(eng, st, variant=None):
        return dict(self=SRef(IS, z3.Int('self')), **{name: SVal(z3.Const('arg_' + name, Val))})
    return setup


def req(c):
    return wf(P(c))


def req_item(name):
    return lambda c: wf(P(c)) + [('the argument is not the private sentinel', c.a(name) != MISSING)]


def post_wf(c):
    return [('wf.' + l, f) for l, f in wf(P(c))]


def same_parts(o, n):
    return z3.And(n.m.t == o.m.t, n.l.t == o.l.t, n.d.t == o.d.t)


def add_ensures(c):
    o, n = P(c, c.old), P(c)
    item = c.a('item')
    present = z3.Select(o.dom, item)
    i = z3.Int('i')
    k = z3.Const('k', Val)
    return post_wf(c) + [
        ('the three parts stay the same objects', same_parts(o, n)),
        ('present: nothing changes', z3.Implies(present, z3.And(
            n.len == o.len, n.size == o.size, n.dom == o.dom, n.val == o.val,
            z3.ForAll([i], z3.Implies(z3.And(0 <= i, i < o.len), z3.Select(n.elems, i) == z3.Select(o.elems, i)))))),
        ('absent: the item is appended as the new last slot, every old slot and every old key unchanged', z3.Implies(z3.Not(present), z3.And(
            n.len == o.len + 1, z3.Select(n.elems, o.len) == item, n.size == o.size + 1,
            z3.ForAll([i], z3.Implies(z3.And(0 <= i, i < o.len), z3.Select(n.elems, i) == z3.Select(o.elems, i))),
            z3.Select(n.dom, item), z3.Select(n.val, item) == o.len,
            z3.ForAll([k], z3.Implies(k != item, z3.And(z3.Select(n.dom, k) == z3.Select(o.dom, k),
                                                         z3.Select(n.val, k) == z3.Select(o.val, k))))))),
        ('the dead-interval list is not touched', n.dlen == o.dlen),
    ]


CORE_MOD = [('ISIndexMap', 'dom'), ('ISIndexMap', 'val'), ('ISIndexMap', 'size'), ('ISItemList', 'elems'), ('ISItemList', 'len')]
NO_MOD = lambda c: []  # noqa: E731

add = Contract('IndexedSet.add', setup=setup_item('item'), requires=req_item('item'), ensures=add_ensures,
               modifies=lambda c: list(CORE_MOD), facts=facts)
contains = Contract('IndexedSet.__contains__', setup=setup_item('item'), requires=req,
                    ensures=lambda c: [('membership = key of the map = item of the view', c.r() == z3.Select(P(c).dom, c.a('item')))],
                    modifies=NO_MOD)
length = Contract('IndexedSet.__len__', setup=setup_self, requires=req,
                  ensures=lambda c: [('len = number of keys (ghost size of the map)', c.r() == P(c).size)], modifies=NO_MOD)
count = Contract('IndexedSet.count', setup=setup_item('val'), requires=req,
                 ensures=lambda c: [('count is 1 for a member, 0 otherwise', c.r() == z3.If(z3.Select(P(c).dom, c.a('val')), 1, 0))],
                 modifies=NO_MOD)


def clear_ensures(c):
    o, n = P(c, c.old), P(c)
    k = z3.Const('k', Val)
    return post_wf(c) + [
        ('the three parts stay the same objects', same_parts(o, n)),
        ('no slot, no key, no dead interval is left', z3.And(n.len == 0, n.dlen == 0, n.size == 0,
                                                            z3.ForAll([k], z3.Not(z3.Select(n.dom, k)))))]


clear = Contract('IndexedSet.clear', setup=setup_self, requires=req, ensures=clear_ensures,
                 modifies=lambda c: list(CORE_MOD) + [('DeadList', 'len')])


# ---- index(val): the apparent index of the slot the map gives, through the contract of _get_apparent_index -------------------------
def index_requires(c):
    v = base.V(c)
    return wf(P(c)) + base.wf(v)


def index_ensures(c):
    p = P(c)
    v = base.V(c)
    val = c.a('val')
    slot = z3.Select(p.val, val)
    kk = z3.Int('kw')
    return [('the value is a member', z3.Select(p.dom, val)),
            ('result = slot of the value minus the total length of the k dead intervals that start at or before the slot; the next one starts after it',
             z3.Exists([kk], z3.And(0 <= kk, kk <= v.n, c.r() == slot - v.ds(kk), z3.Implies(kk >= 1, slot >= v.start(kk - 1)),
                                    z3.Implies(kk < v.n, slot < v.start(kk)))))]


def index_raises(c):
    return [('ValueError only for a value that is not a member', z3.Not(z3.Select(P(c).dom, c.a('val'))))]


index = Contract('IndexedSet.index', setup=setup_item('val'), requires=index_requires, ensures=index_ensures,
                 raises={'ValueError': index_raises}, modifies=NO_MOD)


def app_returns(c):
    return SInt(c.st.fresh.const('apparent', z3.IntSort()))


# the callee contract, restated so that a caller sees the witness existentially (the proof of the callee exposes the loop index)
def app_ensures_call(c):
    v = base.V(c)
    a = c.r()
    kk = z3.Int('kw')
    idx = c.a('index')
    return [('apparent index (proved in contracts/iset.py)', z3.Exists([kk], z3.And(
        0 <= kk, kk <= v.n, a == idx - v.ds(kk), z3.Implies(kk >= 1, idx >= v.start(kk - 1)), z3.Implies(kk < v.n, idx < v.start(kk)))))]


apparent_call = Contract('IndexedSet._get_apparent_index', setup=base.setup, requires=base.req, ensures=app_ensures_call,
                         modifies=NO_MOD, returns=app_returns)

CONTRACTS = {c.qualname: c for c in [add, contains, length, count, clear, index, apparent_call]}
FUNCS = ['IndexedSet.add', 'IndexedSet.__contains__', 'IndexedSet.__len__', 'IndexedSet.count', 'IndexedSet.clear', 'IndexedSet.index']


def make_engine(repo):
    from pyvc.engine import Engine
    eng = Engine(repo, FILE, classes=CLASSES, contracts=CONTRACTS, consts=dict(CONSTS))
    for c in ALL:
        eng.register_class(c)
    return eng
