"""_get_real_index once more (property C11), now with the all-pairs form of the dead-interval invariant in the precondition and
one more postcondition that callers (pop) need: the result lies inside no dead interval.  Verified here from the source; used
at call sites (contracts/iset_rm.py) with the loop-index witness existentially quantified."""
import z3

from pyvc.values import SInt
from pyvc.contract import Contract, Loop
from contracts import iset as base
from contracts.iset import FILE, CLASSES, ALL  # noqa: F401


def req(c):
    return base.req(c) + base.wf_all_pairs(base.V(c))


def not_covered(c):
    v = base.V(c)
    j = z3.Int('jn')
    return ('the result is inside no dead interval', z3.ForAll([j], z3.Implies(z3.And(0 <= j, j < v.n), z3.Or(c.r() < v.start(j), v.stop(j) <= c.r()))))


def witness(v, idx, r):
    kk = z3.Int('kw')
    return z3.Exists([kk], z3.And(0 <= kk, kk <= v.n, r == idx + v.ds(kk), z3.Implies(kk >= 1, r >= v.stop(kk - 1)),
                                  z3.Implies(kk < v.n, r < v.start(kk))))


def real_inv(c):
    v = base.V(c)
    j = z3.Int('jp')
    return base.real_inv(c) + [('all intervals passed end at or before real_index',
                                z3.ForAll([j], z3.Implies(z3.And(0 <= j, j < c.x['i']), v.stop(j) <= c.L('real_index'))))]


real = Contract('IndexedSet._get_real_index', setup=base.setup, requires=req,
                ensures=lambda c: base.real_ensures(c) + [not_covered(c), ('the result is not below the index', c.r() >= c.a('index'))],
                modifies=lambda c: [], loops={0: Loop(real_inv, heap=[])})
# the same postcondition as a caller sees it: the loop index that witnesses the first clauses is existentially quantified
real_call = Contract('IndexedSet._get_real_index', setup=base.setup, requires=req,
                     ensures=lambda c: [('real index: index + the length of the k dead intervals to its left', witness(base.V(c), c.a('index'), c.r())),
                                        not_covered(c), ('the result is not below the index', c.r() >= c.a('index'))],
                     modifies=lambda c: [], returns=lambda c: SInt(c.st.fresh.const('real', z3.IntSort())))
CONTRACTS = {real.qualname: real}
FUNCS = ['IndexedSet._get_real_index']


def make_engine(repo):
    from pyvc.engine import Engine
    eng = Engine(repo, FILE, classes=CLASSES, contracts=CONTRACTS)
    for c in ALL:
        eng.register_class(c)
    return eng
