"""Contracts for the readers of boltons.dictutils.ManyToMany (property C17) over the invariant of contracts/m2m.py:
`key in m` holds exactly when key has at least one pair (no empty entries), len(m) is the number of keys of the forward dict.
A separate module (own contract table) so that the mutators in contracts/m2m.py keep inlining __contains__."""
import z3

from pyvc.values import SRef, SVal, Val
from pyvc.contract import Contract
from contracts.m2m import FILE, CLASSES, ALL, M2M, V, wf, set_facts


def setup_key(eng, st, variant=None):
    return dict(self=SRef(M2M, z3.Int('self')), key=SVal(z3.Const('arg_key', Val)))


def setup_self(eng, st, variant=None):
    return dict(self=SRef(M2M, z3.Int('self')))


def contains_ensures(c):
    v = V(c)
    x = z3.Const('xw', Val)
    key = c.a('key')
    return [('membership = key of the forward dict', c.r() == z3.Select(v.ddom, key)),
            ('a member has at least one pair, a non-member has none', z3.And(
                z3.Implies(c.r(), z3.Exists([x], v.P(key, x))), z3.Implies(z3.Not(c.r()), z3.ForAll([x], z3.Not(v.P(key, x))))))]


NO_MOD = lambda c: []  # noqa: E731
contains = Contract('ManyToMany.__contains__', setup=setup_key, requires=lambda c: wf(V(c)), ensures=contains_ensures,
                    modifies=NO_MOD, facts=set_facts)
length = Contract('ManyToMany.__len__', setup=setup_self, requires=lambda c: wf(V(c)),
                  ensures=lambda c: [('len = number of keys of the forward dict (ghost size)', c.r() == c.f(V(c).d, 'size'))],
                  modifies=NO_MOD, facts=set_facts)
CONTRACTS = {c.qualname: c for c in [contains, length]}
FUNCS = ['ManyToMany.__contains__', 'ManyToMany.__len__']


def make_engine(repo):
    from pyvc.engine import Engine
    from .opaque_ext import EXTERNALS
    eng = Engine(repo, FILE, classes=CLASSES, contracts=CONTRACTS, externals=dict(EXTERNALS))
    for c in ALL:
        eng.register_class(c)
    return eng


# ---- iteritems(): every yielded item is a pair of the relation (soundness half; completeness and no repetition are bounded only) --
from pyvc.contract import Loop  # noqa: E402



def gen_setup(eng, st, variant=None):
    st.ghost['out_n'] = z3.IntVal(0)
    st.ghost['out_0'] = z3.Const('m2m_out0_init', z3.ArraySort(z3.IntSort(), Val))
    st.ghost['out_1'] = z3.Const('m2m_out1_init', z3.ArraySort(z3.IntSort(), Val))
    return dict(self=SRef(M2M, z3.Int('self')))


def gen_facts(c):
    v = V(c)
    m = z3.Int('m')
    n = c.g('out_n')
    return [('every item yielded so far is a pair of the relation', z3.And(n >= 0, z3.ForAll([m], z3.Implies(
        z3.And(0 <= m, m < n), v.P(z3.Select(c.g('out_0'), m), z3.Select(c.g('out_1'), m))))))]


def inner_inv(c):
    v = V(c)
    return gen_facts(c) + [('the key of the outer loop is a key of the forward dict', z3.Select(v.ddom, c.L('key')))]


iteritems = Contract('ManyToMany.iteritems', setup=gen_setup, requires=lambda c: wf(V(c)),
                     ensures=lambda c: gen_facts(c) + [('nothing is modified', z3.BoolVal(True))], modifies=NO_MOD,
                     loops={0: Loop(gen_facts, heap=[], ghost=[]), 1: Loop(inner_inv, heap=[], ghost=[])},
                     generator=True, facts=set_facts)
iteritems.yields = 2
CONTRACTS[iteritems.qualname] = iteritems
FUNCS.append('ManyToMany.iteritems')


# ---- __getitem__ / get: a fresh copy of the key's value set -----------------------------------------------------------------------
from contracts.m2m import VSet  # noqa: E402


def getitem_ensures(c):
    v = V(c)
    r = c.result
    if not isinstance(r, SRef) or r.cls is not VSet:
        return [('returns a set', z3.BoolVal(False))]
    x = z3.Const('xg', Val)
    rr = z3.Int('rg')
    key = c.a('key')
    return [('the key is present', z3.Select(v.ddom, key)),
            ('a fresh set object holding exactly the values paired with key', z3.And(
                r.t >= c.old.alloc, z3.ForAll([x], z3.Select(z3.Select(v.sdom, r.t), x) == v.P(key, x)),
                z3.Select(v.ssize, r.t) == z3.Select(v.ssize, z3.Select(v.dval, key)))),
            ('the relation is untouched', z3.And(*[z3.ForAll([rr], z3.Implies(rr < c.old.alloc, z3.Select(c.arr(VSet, f), rr) == z3.Select(c.oarr(VSet, f), rr)))
                                                   for f in ('dom', 'size')]))]


def getitem_raises(c):
    return [('KeyError only for a key without pairs', z3.Not(z3.Select(V(c, c.old).ddom, c.a('key')))),
            ('state unchanged', z3.And(c.arr(VSet, 'dom') == c.oarr(VSet, 'dom'), c.arr(VSet, 'size') == c.oarr(VSet, 'size')))]


getitem = Contract('ManyToMany.__getitem__', setup=setup_key, requires=lambda c: wf(V(c)), ensures=getitem_ensures,
                   raises={'KeyError': getitem_raises}, modifies=lambda c: [('M2MSet', 'dom'), ('M2MSet', 'size')], facts=set_facts)
CONTRACTS[getitem.qualname] = getitem
FUNCS.append('ManyToMany.__getitem__')


def get_setup(eng, st, variant=None):
    return dict(self=SRef(M2M, z3.Int('self')), key=SVal(z3.Const('arg_key', Val)), default=SVal(z3.Const('arg_default', Val)))


def get_ensures(c):
    r = c.result
    if isinstance(r, SRef):
        return getitem_ensures(c)
    return [('absent key: the default is returned and nothing is touched', z3.And(
        z3.Not(z3.Select(V(c).ddom, c.a('key'))), c.r() == c.a('default'),
        c.arr(VSet, 'dom') == c.oarr(VSet, 'dom'), c.arr(VSet, 'size') == c.oarr(VSet, 'size')))]


get = Contract('ManyToMany.get', setup=get_setup, requires=lambda c: wf(V(c)), ensures=get_ensures,
               modifies=lambda c: [('M2MSet', 'dom'), ('M2MSet', 'size')], facts=set_facts)
CONTRACTS[get.qualname] = get
FUNCS.append('ManyToMany.get')
