"""backoff_iter with the default count (count=None, factor > 1): engine with the log/ceil/power model of contracts/iterutils_c.py"""
from .iterutils_c import make_engine_default as make_engine, CONTRACTS_DEFAULT as CONTRACTS, FILE, CLASSES, ALL  # noqa: F401
