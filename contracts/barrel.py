"""Contract for boltons.listutils.BarrelList._translate_index (property C10): for 0 <= index < len the returned
(list_idx, rel_idx) addresses exactly the index-th element of the concatenation of the sub-lists
(prefix(list_idx) + rel_idx == index, 0 <= rel_idx < len(lists[list_idx])); negative indices count from the end;
an index below -len yields (None, None)."""
import z3

from pyvc.values import HeapClass, INT, VAL, REF, SRef, SVal, SInt, SNone, STuple
from pyvc.contract import Contract, Loop

FILE = 'boltons/listutils.py'
Sub = HeapClass('SubList', 'list', e=VAL)
Lists = HeapClass('ListOfLists', 'list', e=REF(Sub))
BL = HeapClass('BarrelList', 'record', pyclass='BarrelList', fields=dict(lists=REF(Lists)))
CLASSES = {'BarrelList': BL}
ALL = [Sub, Lists, BL]
IntArr = z3.ArraySort(z3.IntSort(), z3.IntSort())

# prefix(E, L, j) = sum of len of the first j sub-lists (E: outer elems, L: len field of SubList)
prefix = z3.RecFunction('prefix_len', IntArr, IntArr, z3.IntSort(), z3.IntSort())
_E, _L = z3.Consts('E L', IntArr)
_j = z3.Int('j')
z3.RecAddDefinition(prefix, [_E, _L, _j], z3.If(_j <= 0, 0, prefix(_E, _L, _j - 1) + z3.Select(_L, z3.Select(_E, _j - 1))))


class V:
    def __init__(self, c, st=None):
        st = st or c.st
        s = c.sv('self')
        self.lists = SRef(Lists, c.f(s, 'lists', st))
        self.E = c.f(self.lists, 'elems', st)
        self.n = c.f(self.lists, 'len', st)
        self.L = c.arr(Sub, 'len', st)
        self.total = prefix(self.E, self.L, self.n)

    def pre(self, j):
        return prefix(self.E, self.L, j)

    def sublen(self, j):
        return z3.Select(self.L, z3.Select(self.E, j))


def wf(v):
    j = z3.Int('j')
    return [('at least one sub-list, lengths non-negative', z3.And(v.n >= 1, z3.ForAll([j], z3.Implies(
        z3.And(0 <= j, j < v.n), z3.Select(v.L, z3.Select(v.E, j)) >= 0)))),
        ('prefix sums are non-negative and monotone', z3.ForAll([j], z3.Implies(z3.And(0 <= j, j < v.n), z3.And(
            v.pre(j) >= 0, v.pre(j + 1) == v.pre(j) + v.sublen(j)))))]


def setup(eng, st, variant=None):
    return dict(self=SRef(BL, z3.Int('self')), index=SInt(z3.Int('index')))


def norm(c, v):
    idx = c.a('index')
    return z3.If(idx < 0, idx + v.total, idx)


def ti_requires(c):
    v = V(c)
    return wf(v) + [('index addresses an element or counts from the end', norm(c, v) < v.total)]


def ti_ensures(c):
    v = V(c)
    i = norm(c, v)
    res = c.result
    if not isinstance(res, STuple) or len(res.items) != 2:
        return [('returns a pair', z3.BoolVal(False))]
    li, ri = res.items
    if isinstance(li, SNone):
        return [('(None, None) only below -len', i < 0)]
    return [('in range', i >= 0),
            ('list_idx is a valid sub-list', z3.And(li.t >= 0, li.t < v.n)),
            ('prefix(list_idx) + rel_idx == index', v.pre(li.t) + ri.t == i),
            ('rel_idx addresses an element of that sub-list', z3.And(ri.t >= 0, ri.t < v.sublen(li.t)))]


def ti_inv(c):
    v = V(c)
    i = c.x['i']
    rel = c.L('rel_idx')
    idx = norm(c, v)
    return [('lists local', c.Lsv('lists').t == v.lists.t),
            ('rel_idx = index - prefix(i)', rel == idx - v.pre(i)),
            ('index normalised', c.L('index') == idx),
            ('not found yet', z3.Implies(idx >= 0, rel >= 0)),
            ('previous', z3.Implies(i >= 1, c.L('list_idx') == i - 1))]


len_c = Contract('BarrelList.__len__', setup=lambda eng, st, variant=None: dict(self=SRef(BL, z3.Int('self'))),
                 requires=lambda c: wf(V(c)), ensures=lambda c: [('len = sum of sub-list lengths', c.r() == V(c).total)],
                 modifies=lambda c: [], returns=lambda c: SInt(c.st.fresh.const('len', z3.IntSort())),
                 loops={})
ti = Contract('BarrelList._translate_index', setup=setup, requires=ti_requires, ensures=ti_ensures, modifies=lambda c: [],
              loops={0: Loop(ti_inv, heap=[])}, local_types=dict())
CONTRACTS = {c.qualname: c for c in [ti, len_c]}


def make_engine(repo):
    from pyvc.engine import Engine
    eng = Engine(repo, FILE, classes=CLASSES, contracts=CONTRACTS)
    for c in ALL:
        eng.register_class(c)
    return eng
