"""Contracts for boltons.ioutils.SpooledBytesIO (property C18): the observable view of a spooled file is the pair
(content, position) of its current backing file object, and no method's effect on that view depends on whether the
backing object is the in-memory BytesIO or the temporary file on disk; rollover() preserves the view exactly.

Assumed file-object contract, the same for io.BytesIO and tempfile.TemporaryFile (trusted base):
   read(n): returns content[pos:pos+n] (everything for n < 0), advances pos;  write(s) at pos <= len: overwrites/extends, advances;
   seek(p, 0|1|2) -> new position;  tell();  getvalue();  close().
"""
import z3

from pyvc.values import (HeapClass, INT, BOOL, VAL, STR, REF, SRef, SVal, SInt, SBool, SStr, SNone, SExc, SFunc, Val)
from pyvc.contract import Contract

FILE = 'boltons/ioutils.py'
F = HeapClass('FileObj', 'record', fields=dict(content=STR, pos=INT, disk=BOOL, closed=BOOL))
SB = HeapClass('SpooledBytesIO', 'record', pyclass='SpooledBytesIO', fields=dict(_buffer=REF(F), _max_size=INT, _dir=VAL))
SB.props = {'buffer': 'SpooledBytesIO.buffer', '_rolled': 'SpooledBytesIO._rolled', 'closed': 'SpooledIOBase.closed'}
CLASSES = {'SpooledBytesIO': SB}
ALL = [F, SB]
E = z3.StringVal('')
SEEK_END = SFunc('modfunc', 'os', 'SEEK_END')


def sub(s, a, n):
    return z3.SubString(s, a, n)


def m_read(eng, args, kwargs, st, node):
    f = args[0]
    n = args[1] if len(args) > 1 else SInt(-1)
    s = st.copy()
    content, pos = eng.hload(s, f, 'content'), eng.hload(s, f, 'pos')
    rest = z3.Length(content) - pos
    take = z3.If(z3.Or(n.t < 0, n.t > rest), z3.If(rest < 0, 0, rest), n.t)
    ret = sub(content, pos, take)
    eng.hstore(s, f, 'pos', pos + z3.Length(ret))
    return [(SStr(ret), s)]


def line_at(content, pos):
    """the bytes from pos up to and including the next b'\\n' (or to the end)"""
    rest = z3.SubString(content, pos, z3.Length(content) - pos)
    idx = z3.IndexOf(rest, z3.StringVal('\n'), 0)
    return z3.SubString(rest, 0, z3.If(idx < 0, z3.Length(rest), idx + 1))


def m_readline(eng, args, kwargs, st, node):
    if len(args) > 1:
        raise Exception('sized readline is outside the model')
    f = args[0]
    s = st.copy()
    content, pos = eng.hload(s, f, 'content'), eng.hload(s, f, 'pos')
    ret = line_at(content, pos)
    eng.hstore(s, f, 'pos', pos + z3.Length(ret))
    return [(SStr(ret), s)]


def m_write(eng, args, kwargs, st, node):
    f, data = args[0], args[1]
    s = st.copy()
    content, pos = eng.hload(s, f, 'content'), eng.hload(s, f, 'pos')
    n = z3.Length(data.t)
    eng.hstore(s, f, 'content', z3.Concat(sub(content, 0, pos), data.t, sub(content, pos + n, z3.Length(content))))
    eng.hstore(s, f, 'pos', pos + n)
    return [(SInt(n), s)]


def m_seek(eng, args, kwargs, st, node):
    f, p = args[0], args[1]
    mode = args[2] if len(args) > 2 else SInt(0)
    s = st.copy()
    content, pos = eng.hload(s, f, 'content'), eng.hload(s, f, 'pos')
    if isinstance(mode, SFunc) and mode.how == 'modfunc' and mode.a[1] == 'SEEK_END':
        new = z3.Length(content) + p.t
    elif isinstance(mode, SInt):
        new = z3.If(mode.t == 0, p.t, z3.If(mode.t == 1, pos + p.t, z3.Length(content) + p.t))
    else:
        raise Exception('seek mode')
    eng.hstore(s, f, 'pos', new)
    return [(SInt(new), s)]


def m_tell(eng, args, kwargs, st, node):
    return [(SInt(eng.hload(st, args[0], 'pos')), st)]


def m_getvalue(eng, args, kwargs, st, node):
    return [(SStr(eng.hload(st, args[0], 'content')), st)]


def m_close(eng, args, kwargs, st, node):
    s = st.copy()
    eng.hstore(s, args[0], 'closed', z3.BoolVal(True))
    return [(SNone(), s)]


def ext_tempfile(eng, args, kwargs, st, node):
    s = st.copy()
    r = eng.new_ref(s, F)
    eng.hstore(s, r, 'content', E)
    eng.hstore(s, r, 'pos', z3.IntVal(0))
    eng.hstore(s, r, 'disk', z3.BoolVal(True))
    eng.hstore(s, r, 'closed', z3.BoolVal(False))
    return [(r, s)]


StatRes = HeapClass('FStat', 'record', fields=dict(st_size=INT))
ALL.append(StatRes)


def m_fileno(eng, args, kwargs, st, node):
    return [(SInt(args[0].t), st)]          # the descriptor number identifies the file object (its address here)


def ext_fstat(eng, args, kwargs, st, node):
    fd = args[0]
    if not isinstance(fd, SInt):
        raise Exception('fstat argument')
    s = st.copy()
    r = eng.new_ref(s, StatRes)
    eng.hstore(s, r, 'st_size', z3.Length(z3.Select(eng.heap_arr(s, F, 'content'), fd.t)))
    eng.trusted.add('os.fstat(f.fileno()).st_size == len(content) for the on-disk file (the preceding seek() flushed its buffer)')
    return [(r, s)]


def ext_isinstance(eng, args, kwargs, st, node):
    v, names = args
    if isinstance(v, SRef) and v.cls.name == 'FileObj' and 'BytesIO' in names:
        return [(SBool(z3.Not(eng.hload(st, v, 'disk'))), st)]
    if isinstance(v, SStr) and 'bytes' in names:
        return [(SBool(True), st)]
    return None


EXTERNALS = {'method:FileObj.readline': m_readline, 'method:FileObj.read': m_read, 'method:FileObj.write': m_write, 'method:FileObj.seek': m_seek,
             'method:FileObj.tell': m_tell, 'method:FileObj.getvalue': m_getvalue, 'method:FileObj.close': m_close,
             'TemporaryFile': ext_tempfile, 'isinstance': ext_isinstance, 'method:FileObj.fileno': m_fileno, 'os.fstat': ext_fstat}
CONSTS = {'TemporaryFile': SFunc('extfunc', 'TemporaryFile'), 'os': SFunc('module', 'os'), 'BytesIO': SFunc('extfunc', 'BytesIO')}


class V:
    def __init__(self, c, st=None):
        st = st or c.st
        s = c.sv('self')
        self.buf = SRef(F, c.f(s, '_buffer', st))
        self.content = c.f(self.buf, 'content', st)
        self.pos = c.f(self.buf, 'pos', st)
        self.disk = c.f(self.buf, 'disk', st)
        self.closed = c.f(self.buf, 'closed', st)
        self.max = c.f(s, '_max_size', st)


def setup(eng, st, variant=None):
    return dict(self=SRef(SB, z3.Int('self')))


def req(c):
    v = V(c)
    s = c.sv('self')
    return [('open file with a valid position', z3.And(z3.Not(v.closed), v.pos >= 0, v.pos <= z3.Length(v.content),
                                                       v.buf.t >= 1, v.buf.t < c.st.alloc, s.t >= 1, s.t < c.st.alloc))]


MOD = lambda c: [('FileObj', 'content'), ('FileObj', 'pos'), ('FileObj', 'disk'), ('FileObj', 'closed'), ('SpooledBytesIO', '_buffer')]  # noqa: E731


def rollover_ensures(c):
    o, n = V(c, c.old), V(c)
    return [('the view (content, position) is preserved exactly', z3.And(n.content == o.content, n.pos == o.pos)),
            ('the file is on disk afterwards and open', z3.And(n.disk, z3.Not(n.closed), n.buf.t >= 1, n.buf.t < c.st.alloc))]


rollover = Contract('SpooledBytesIO.rollover', setup=setup, requires=req, ensures=rollover_ensures, modifies=MOD,
                    local_types=dict(tmp=REF(F)))


def write_setup(eng, st, variant=None):
    d = setup(eng, st)
    d['s'] = SStr(z3.String('arg_s'))
    return d


def write_ensures(c):
    o, n = V(c, c.old), V(c)
    data = c.a('s')
    return [('content and position are those of io.BytesIO.write, rolled over or not', z3.And(
        n.content == z3.Concat(sub(o.content, 0, o.pos), data, sub(o.content, o.pos + z3.Length(data), z3.Length(o.content))),
        n.pos == o.pos + z3.Length(data), z3.Not(n.closed))),
        ('an appending write appends', z3.Implies(o.pos == z3.Length(o.content), n.content == z3.Concat(o.content, data)))]


write = Contract('SpooledBytesIO.write', setup=write_setup, requires=req, ensures=write_ensures, modifies=MOD)


def read_setup(eng, st, variant=None):
    d = setup(eng, st)
    d['n'] = SInt(z3.Int('arg_n'))
    return d


def read_ensures(c):
    o, n = V(c, c.old), V(c)
    k = c.a('n')
    rest = z3.Length(o.content) - o.pos
    take = z3.If(z3.Or(k < 0, k > rest), rest, k)
    return [('returns content[pos:pos+n] (all of the rest for n < 0) and advances; content and backing unchanged', z3.And(
        c.r() == sub(o.content, o.pos, take), n.pos == o.pos + take, n.content == o.content, n.disk == o.disk))]


read = Contract('SpooledBytesIO.read', setup=read_setup, requires=req, ensures=read_ensures, modifies=lambda c: [('FileObj', 'pos')])


def seek_setup(eng, st, variant=None):
    d = setup(eng, st)
    d['pos'] = SInt(z3.Int('arg_pos'))
    d['mode'] = SInt(z3.Int('arg_mode'))
    return d


def seek_target(c):
    """io.BytesIO.seek: absolute, relative to the position, relative to the end"""
    o = V(c, c.old)
    m, p = c.a('mode'), c.a('pos')
    return z3.If(m == 0, p, z3.If(m == 1, o.pos + p, z3.Length(o.content) + p))


seek = Contract('SpooledBytesIO.seek', setup=seek_setup,
                requires=lambda c: req(c) + [('whence is 0, 1 or 2', z3.And(c.a('mode') >= 0, c.a('mode') <= 2))],
                ensures=lambda c: [('position set as io.BytesIO.seek does (whence 0/1/2), content unchanged',
                                    z3.And(V(c).pos == seek_target(c), V(c).content == V(c, c.old).content, c.r() == seek_target(c),
                                           V(c).disk == V(c, c.old).disk, z3.Not(V(c).closed)))],
                modifies=lambda c: [('FileObj', 'pos')])
tell = Contract('SpooledBytesIO.tell', setup=setup, requires=req,
                ensures=lambda c: [('returns the position, nothing changes', z3.And(c.r() == V(c, c.old).pos, V(c).pos == V(c, c.old).pos,
                                                                                    V(c).content == V(c, c.old).content))], modifies=lambda c: [])
buffer_p = Contract('SpooledBytesIO.buffer', inline=True)
rolled_p = Contract('SpooledBytesIO._rolled', inline=True)
closed_p = Contract('SpooledIOBase.closed', inline=True)
check_closed = Contract('SpooledIOBase._checkClosed', inline=True)
CONTRACTS = {c.qualname: c for c in [rollover, write, read, seek, tell, buffer_p, rolled_p, closed_p, check_closed]}
tell.returns = lambda c: SInt(c.st.fresh.const('told', z3.IntSort()))
seek.returns = lambda c: SInt(c.st.fresh.const('sought', z3.IntSort()))
read.returns = lambda c: SStr(c.st.fresh.const('readv', z3.StringSort()))
FUNCS = ['SpooledBytesIO.rollover', 'SpooledBytesIO.write', 'SpooledBytesIO.read', 'SpooledBytesIO.seek', 'SpooledBytesIO.tell']


def make_engine(repo):
    from pyvc.engine import Engine
    eng = Engine(repo, FILE, classes=CLASSES, contracts=CONTRACTS, consts=dict(CONSTS), externals=dict(EXTERNALS))
    for c in ALL:
        eng.register_class(c)
    eng.cvc5_mode = 'first'
    eng.feas_ms = 300
    return eng


# ---- MultiFileReader.seek(0): every member is rewound and reading starts again at the first one -----------------------------
from pyvc.values import SSeq  # noqa: E402
from pyvc.contract import Loop  # noqa: E402
MFR = HeapClass('MultiFileReader', 'record', pyclass='MultiFileReader', fields=dict(_index=INT))
CLASSES['MultiFileReader'] = MFR
ALL.append(MFR)
IntArr = z3.ArraySort(z3.IntSort(), z3.IntSort())


def mfr_setup(eng, st, variant=None):
    files = SSeq(REF(F), z3.Const('fileobjs', IntArr), z3.Int('n_files'))
    eng.field_consts = {('MultiFileReader', '_fileobjs'): files}
    return dict(self=SRef(MFR, z3.Int('self')), offset=SInt(0), whence=SInt(0))


def mfr_files(c):
    return c.eng.field_consts[('MultiFileReader', '_fileobjs')]


def mfr_inv(c):
    fs = mfr_files(c)
    j = z3.Int('j')
    i = c.x['i']
    return [('members rewound so far', z3.ForAll([j], z3.Implies(z3.And(0 <= j, j < i), z3.Select(c.arr(F, 'pos'), z3.Select(fs.arr, j)) == 0))),
            ('contents untouched', c.arr(F, 'content') == c.oarr(F, 'content'))]


def mfr_ensures(c):
    fs = mfr_files(c)
    j = z3.Int('j')
    return [('every member file is rewound', z3.ForAll([j], z3.Implies(z3.And(0 <= j, j < fs.n), z3.Select(c.arr(F, 'pos'), z3.Select(fs.arr, j)) == 0))),
            ('reading restarts at the first member', c.f(c.sv('self'), '_index') == 0),
            ('contents untouched', c.arr(F, 'content') == c.oarr(F, 'content'))]


mfr_seek = Contract('MultiFileReader.seek', setup=mfr_setup, requires=lambda c: [('n >= 0', mfr_files(c).n >= 0)],
                    ensures=mfr_ensures, modifies=lambda c: [('FileObj', 'pos'), ('MultiFileReader', '_index')],
                    loops={0: Loop(mfr_inv, heap=[('FileObj', 'pos')])})
CONTRACTS['MultiFileReader.seek'] = mfr_seek
FUNCS.append('MultiFileReader.seek')
CONSTS['os'] = SFunc('module', 'os')


# ---- MultiFileReader.read(amt), amt >= 1: the next bytes of the concatenation, across member boundaries ----------------------
# tl(i) = what is left to read in members i, i+1, ... at entry (recursive definition, given as a quantified defining axiom):
#     tl(n) = '',   tl(i) = content_i[pos_i:] ++ tl(i+1)  for 0 <= i < n
# Postcondition: returned ++ (what is left afterwards, from the new index on) == tl(index at entry); no more than amt bytes;
# fewer than amt only when every member is exhausted.  `parts` is a concatenation-tracked list (ghost field `cat`).
Parts = HeapClass('PartList', 'list', e=STR)
Parts.fields['cat'] = STR
ALL.append(Parts)
tl = z3.Function('tl', z3.IntSort(), z3.StringSort())


def ext_join(eng, args, kwargs, st, node):
    sep, lst = args[0], args[1]
    if not (isinstance(sep, SStr) and z3.is_string_value(z3.simplify(sep.t)) and z3.simplify(sep.t).as_string() == ''
            and isinstance(lst, SRef) and 'cat' in lst.cls.fields):
        raise Exception('join')
    return [(SStr(eng.hload(st, lst, 'cat')), st)]


EXTERNALS['strmethod:join'] = ext_join


def mfr_read_setup(eng, st, variant=None):
    files = SSeq(REF(F), z3.Const('fileobjs', IntArr), z3.Int('n_files'))
    eng.field_consts = {('MultiFileReader', '_fileobjs'): files, ('MultiFileReader', '_joiner'): SStr(E)}
    return dict(self=SRef(MFR, z3.Int('self')), amt=SInt(z3.Int('arg_amt')))


def rest_of(c, j, st=None):
    """what is left to read in member j"""
    st = st or c.st
    f = z3.Select(mfr_files(c).arr, j)
    content, pos = z3.Select(c.arr(F, 'content', st), f), z3.Select(c.arr(F, 'pos', st), f)
    return z3.SubString(content, pos, z3.Length(content) - pos)


def left_from(c, idx, st=None):
    """what is left to read from member idx on, in terms of the current position of member idx and the entry-state tails"""
    n = mfr_files(c).n
    return z3.If(idx < n, z3.Concat(rest_of(c, idx, st), tl(idx + 1)), E)


def mfr_members_ok(c, st=None):
    st = st or c.st
    fs = mfr_files(c)
    j, k = z3.Int('j'), z3.Int('k')
    fj = z3.Select(fs.arr, j)
    pos, content = z3.Select(c.arr(F, 'pos', st), fj), z3.Select(c.arr(F, 'content', st), fj)
    return [('member files are distinct objects', z3.ForAll([j, k], z3.Implies(z3.And(0 <= j, j < k, k < fs.n),
                                                                                z3.Select(fs.arr, j) != z3.Select(fs.arr, k)))),
            ('member positions are inside their contents', z3.ForAll([j], z3.Implies(z3.And(0 <= j, j < fs.n),
                                                                                      z3.And(pos >= 0, pos <= z3.Length(content)))))]


def mfr_exhausted_before(c, idx, st=None):
    st = st or c.st
    fs = mfr_files(c)
    j = z3.Int('j')
    fj = z3.Select(fs.arr, j)
    return z3.ForAll([j], z3.Implies(z3.And(0 <= j, j < idx),
                                     z3.Select(c.arr(F, 'pos', st), fj) == z3.Length(z3.Select(c.arr(F, 'content', st), fj))))


def mfr_read_req(c):
    s = c.sv('self')
    fs = mfr_files(c)
    idx = c.f(s, '_index')
    return [('amt >= 1', c.a('amt') >= 1), ('index within 0..n', z3.And(0 <= idx, idx <= fs.n, fs.n >= 0)),
            ('objects', z3.And(s.t >= 1, s.t < c.st.alloc))] + mfr_members_ok(c) + [
            ('members before the index are exhausted', mfr_exhausted_before(c, idx))]


def mfr_tl_def(c):
    fs = mfr_files(c)
    i = z3.Int('i')
    return [('tl(n) = empty', tl(fs.n) == E),
            ('tl(i) = rest of member i ++ tl(i+1)', z3.ForAll([i], z3.Implies(z3.And(0 <= i, i < fs.n),
                                                                            tl(i) == z3.Concat(rest_of(c, i, c.old), tl(i + 1)))))]


def mfr_read_inv(c):
    s = c.sv('self')
    fs = mfr_files(c)
    idx, idx0 = c.f(s, '_index'), c.f(s, '_index', c.old)
    parts = c.Lsv('parts')
    cat = c.f(parts, 'cat')
    j = z3.Int('j')
    fj = z3.Select(fs.arr, j)
    e = c.x['loop_entry']
    return [('parts is the list allocated by this call', z3.And(parts.t >= z3.Int('alloc0'), parts.t == e.locals['parts'].t, c.f(parts, 'len') >= 0)),
            ('index within 0..n', z3.And(idx0 <= idx, idx <= fs.n)),
            ('conservation: read so far ++ left from the index on == left at entry', z3.Concat(cat, left_from(c, idx)) == tl(idx0)),
            ('amt is what is still wanted', z3.And(c.L('amt') == c.a('amt') - z3.Length(cat), c.L('amt') >= 0)),
            ('members after the index are untouched', z3.ForAll([j], z3.Implies(z3.And(idx < j, j < fs.n),
                                                                                 z3.Select(c.arr(F, 'pos'), fj) == z3.Select(c.oarr(F, 'pos'), fj)))),
            ('contents untouched', c.arr(F, 'content') == c.oarr(F, 'content')),
            ('members before the index are exhausted', mfr_exhausted_before(c, idx)),
            ('the current member position is inside its content',
             z3.Implies(idx < fs.n, z3.And(z3.Select(c.arr(F, 'pos'), z3.Select(fs.arr, idx)) >= 0,
                                           z3.Select(c.arr(F, 'pos'), z3.Select(fs.arr, idx)) <= z3.Length(z3.Select(c.arr(F, 'content'), z3.Select(fs.arr, idx))))))]


def mfr_read_ensures(c):
    s = c.sv('self')
    fs = mfr_files(c)
    idx, idx0 = c.f(s, '_index'), c.f(s, '_index', c.old)
    return [('conservation: returned ++ left from the new index on == left at entry, in order',
             z3.Concat(c.r(), left_from(c, idx)) == tl(idx0)),
            ('no more than amt bytes', z3.Length(c.r()) <= c.a('amt')),
            ('fewer than amt only when every member is exhausted', z3.Implies(z3.Length(c.r()) < c.a('amt'), idx == fs.n)),
            ('index within 0..n, contents untouched', z3.And(idx0 <= idx, idx <= fs.n, c.arr(F, 'content') == c.oarr(F, 'content'))),
            ('members before the index are exhausted', mfr_exhausted_before(c, idx))]


mfr_read = Contract('MultiFileReader.read', setup=mfr_read_setup, requires=mfr_read_req, ensures=mfr_read_ensures,
                    modifies=lambda c: [('FileObj', 'pos'), ('MultiFileReader', '_index'), ('PartList', 'elems'), ('PartList', 'len'),
                                        ('PartList', 'cat')],
                    loops={0: Loop(mfr_read_inv, heap=[('FileObj', 'pos'), ('MultiFileReader', '_index'), ('PartList', 'elems'),
                                                       ('PartList', 'len'), ('PartList', 'cat')])},
                    local_types=dict(parts=REF(Parts)), facts=mfr_tl_def)
CONTRACTS['MultiFileReader.read'] = mfr_read
FUNCS.append('MultiFileReader.read')


# ---- len / getvalue / fileno: the same answers in memory and on disk, position restored -------------------------------------------
def same_view(c):
    o, n = V(c, c.old), V(c)
    return z3.And(n.content == o.content, n.pos == o.pos, z3.Not(n.closed))


length_p = Contract('SpooledBytesIO.len', setup=setup, requires=req,
                    ensures=lambda c: [('len = number of bytes of the content, whether in memory or on disk; content and position unchanged',
                                        z3.And(c.r() == z3.Length(V(c, c.old).content), same_view(c)))],
                    modifies=MOD, returns=lambda c: SInt(c.st.fresh.const('length', z3.IntSort())))
getvalue = Contract('SpooledIOBase.getvalue', setup=setup, requires=req,
                    ensures=lambda c: [('getvalue = the whole content; content and position unchanged',
                                        z3.And(c.r() == V(c, c.old).content, same_view(c)))],
                    modifies=lambda c: [('FileObj', 'pos')], returns=lambda c: SStr(c.st.fresh.const('value', z3.StringSort())))
fileno = Contract('SpooledIOBase.fileno', setup=setup, requires=req,
                  ensures=lambda c: [('fileno rolls over to disk and preserves the view', z3.And(same_view(c), V(c).disk, c.r() == V(c).buf.t,
                                                                                                V(c).buf.t >= 1, V(c).buf.t < c.st.alloc))],
                  modifies=MOD, returns=lambda c: SInt(c.st.fresh.const('fd', z3.IntSort())))
for _c in [length_p, getvalue, fileno]:
    CONTRACTS[_c.qualname] = _c
FUNCS += ['SpooledBytesIO.len', 'SpooledIOBase.getvalue', 'SpooledIOBase.fileno']
SB.props['len'] = 'SpooledBytesIO.len'


def readline_setup(eng, st, variant=None):
    d = setup(eng, st)
    d['length'] = SNone()
    return d


readline = Contract('SpooledBytesIO.readline', setup=readline_setup, requires=req,
                    ensures=lambda c: [('readline() = the bytes up to and including the next newline (or to the end), as io.BytesIO; '
                                        'position advanced past them, content and backing unchanged',
                                        z3.And(c.r() == line_at(V(c, c.old).content, V(c, c.old).pos),
                                               V(c).pos == V(c, c.old).pos + z3.Length(c.r()), V(c).content == V(c, c.old).content,
                                               V(c).disk == V(c, c.old).disk))],
                    modifies=lambda c: [('FileObj', 'pos')], returns=lambda c: SStr(c.st.fresh.const('line', z3.StringSort())))
CONTRACTS['SpooledBytesIO.readline'] = readline
FUNCS.append('SpooledBytesIO.readline')
