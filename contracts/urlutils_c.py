"""Contracts for boltons.urlutils.resolve_path_parts (property C07: result has no dot segments, never climbs above the
root; on a dot-free path it is the identity, hence resolve is idempotent)."""
import z3

from pyvc.values import HeapClass, INT, STR, VAL, REF, SRef, SSeq, SStr, SInt
from pyvc.contract import Contract, Loop

FILE = 'boltons/urlutils.py'
StrList = HeapClass('StrList', 'list', e=STR)
CLASSES = {}
ALL = [StrList]
StrArr = z3.ArraySort(z3.IntSort(), z3.StringSort())
DOT, DOTDOT, EMPTY = z3.StringVal('.'), z3.StringVal('..'), z3.StringVal('')


def rp_setup(eng, st, variant):
    return dict(path_parts=SSeq(STR, z3.Const('parts', StrArr), z3.Int('n_parts')))


def rp_requires(c):
    p = c.sv('path_parts')
    out = [('length', p.n >= 0)]
    if c.eng.variant == 'dotfree':
        j = z3.Int('j')
        out.append(('input is dot-free', z3.ForAll([j], z3.Implies(z3.And(0 <= j, j < p.n), z3.And(
            z3.Select(p.arr, j) != DOT, z3.Select(p.arr, j) != DOTDOT)))))
    return out


def ret_view(c):
    r = c.Lsv('ret') if c.result is None or not isinstance(c.result, SRef) else c.result
    return c.f(r, 'elems'), c.f(r, 'len'), r


def rp_facts(c, i, elems, ln, final=False):
    p = c.sv('path_parts')
    j = z3.Int('j')
    out = [('no dot segments', z3.ForAll([j], z3.Implies(z3.And(0 <= j, j < ln), z3.And(
               z3.Select(elems, j) != DOT, z3.Select(elems, j) != DOTDOT)))),
           ('never climbs above the root', z3.Implies(z3.And(i >= 1, z3.Select(p.arr, 0) == EMPTY),
                                                      z3.And(ln >= 1, z3.Select(elems, 0) == EMPTY))),
           ('length bounds', z3.And(ln >= 0, ln <= i + (1 if final else 0)))]
    if c.eng.variant == 'dotfree':
        out.append(('identity on a dot-free path', z3.And(ln == i, z3.ForAll([j], z3.Implies(
            z3.And(0 <= j, j < i), z3.Select(elems, j) == z3.Select(p.arr, j))))))
    return out


def rp_inv(c):
    elems, ln, r = ret_view(c)
    e = c.x['loop_entry']
    q = z3.Int('q')
    a0 = z3.Int('alloc0')
    frame = z3.ForAll([q], z3.Implies(q < a0, z3.And(
        z3.Select(c.arr(StrList, 'elems'), q) == z3.Select(c.arr(StrList, 'elems', e), q),
        z3.Select(c.arr(StrList, 'len'), q) == z3.Select(c.arr(StrList, 'len', e), q))))
    return [('ret is the list allocated by this call', z3.And(r.t >= a0, r.t == e.locals['ret'].t)),
            ('lists that existed before the call are untouched', frame)] + rp_facts(c, c.x['i'], elems, ln)


def rp_ensures(c):
    elems, ln, r = ret_view(c)
    return rp_facts(c, c.sv('path_parts').n, elems, ln, final=True)


resolve = Contract('resolve_path_parts', setup=rp_setup, requires=rp_requires, ensures=rp_ensures, modifies=lambda c: [],
                   loops={0: Loop(rp_inv, heap=[('StrList', 'elems'), ('StrList', 'len')])},
                   local_types=dict(ret=REF(StrList)), variants=['any', 'dotfree'])
CONTRACTS = {'resolve_path_parts': resolve}


def make_engine(repo):
    from pyvc.engine import Engine
    eng = Engine(repo, FILE, classes=CLASSES, contracts=CONTRACTS)
    for c in ALL:
        eng.register_class(c)
    eng.cvc5_mode = 'first'
    eng.feas_ms = 300
    return eng
