#!/usr/bin/env python3
"""Entry point of the verification machinery (run with python3-vt, cwd /verif).

  run.py check C20 [--tier quick|thorough]   decide one property on $VERIF_REPO (default /repo)
  run.py replay <replay.json>                re-run a recorded witness on the current tree
  run.py setup                               self-check of the tool chain (solvers, canned proofs)
  run.py all [--tier quick]                  every claimed property, in parallel

exit codes of `check`: 0 held on everything explored (KNOWN-FINDING lines allowed) / 1 violation
(a line `VIOLATION property=<id> replay=<path>`) / 3 the checker itself could not run.
`unknown`, timeouts, unsupported constructs and tracebacks are never mapped to a violation.
"""
import argparse
import importlib
import json
import os
import sys
import time
import traceback

HERE = os.path.dirname(os.path.abspath(__file__))
sys.path.insert(0, HERE)
os.chdir(HERE)

from lib import core  # noqa: E402


def load_ledger():
    p = os.path.join(HERE, 'ledger.json')
    if os.path.exists(p):
        with open(p) as f:
            return json.load(f)
    return {}


NOT_A_VIOLATION = ('loop-init', 'loop-pres', 'pre-call', 'frame', 'lemma', 'side')


def check(pid, tier):
    t0 = time.time()
    os.environ['VERIF_TIER'] = tier
    repo = core.repo_path()
    mod = importlib.import_module('checks.' + pid)
    known = core.load_known()
    ledger = load_ledger().get(pid, {})
    ded = core.Deductive()
    checker_errors = []
    if hasattr(mod, 'deductive'):
        try:
            mod.deductive(ded, repo, tier)
        except Exception:
            checker_errors.append('deductive part crashed: ' + traceback.format_exc()[-1500:])
    # vacuity guard against the ledger: an obligation discharged on the unchanged tree must still be GENERATED as long as
    # its function is found and executed (a function that became unsupported/inapplicable is a demotion, not a fault)
    have = set(o.name for o in ded.obligations)
    # ... and only while the code under contract is the code the ledger was made from: once any function under contract has
    # changed (different source hash), obligations may legitimately appear or disappear (a removed branch, a renamed label)
    led_sha = {}
    for name, sha in ledger.items():
        led_sha.setdefault(name.split(': ')[0], set()).add(str(sha)[:16])
    changed = sorted(fn for fn, info in ded.functions.items()
                     if fn in led_sha and str(info.get('source_sha256', ''))[:16] not in led_sha[fn])
    for name in ([] if changed else ledger):
        if name in have:
            continue
        fn = name.split(': ')[0]
        info = ded.functions.get(fn)
        if info is not None and info.get('status') == 'ok' and not name.split(': ', 1)[1].startswith(('loop@', 'lemma')) \
                and ': requires ' not in name and not name.split(': ', 1)[1].startswith('frame '):
            checker_errors.append('ledger obligation no longer generated: %s' % name)
    bounded = None
    if getattr(mod, 'HAS_BOUNDED', True):
        bounded = core.run_bounded(pid, tier)
        if bounded is None:
            checker_errors.append('no bounded script')
        elif bounded.get('error'):
            checker_errors.append('bounded: %s %s' % (bounded['error'], bounded.get('stderr', '')[-800:]))

    # ---- collect failures -------------------------------------------------------------------
    failures = []
    inductive_ctis = []
    for f in ded.failures:
        f = dict(f)
        f['origin'] = 'deductive'
        failures.append(f)
    # refuted obligations that the check module did not already turn into failures
    claimed = set(f.get('obligation') for f in ded.failures)
    for ob in ded.obligations:
        if ob.status == 'refuted' and ob.kind not in ('cover', 'must-fail') and ob.name not in claimed:
            if ob.inductive or ob.kind in NOT_A_VIOLATION:
                # a counterexample to induction (loop-invariant preservation) may be unreachable: it is not a failing
                # input.  The same holds for the scaffolding of the proof - loop-invariant initialisation, callee
                # preconditions at call sites, frame (modifies) conditions, lemma instances, encoding side conditions and
                # clauses a contract marks as auxiliary representation lemmas: a refuted one means the PROOF no longer goes
                # through, not that the property is violated.  It is recorded; the bounded stand-in (same run) decides.
                ded.demote(ob.function, 'proof step refuted (%s) for %s; undecided by proof, bounded result decides' % (ob.kind, ob.name))
                inductive_ctis.append(ob.name)
                continue
            was = ledger.get(ob.name)
            # replay the solver's counterexample on the real code where the inputs are scalars
            snippet, concrete, confirmed, rep_out = None, None, False, ''
            try:
                from deductive.replayers import replay_for
                rp = replay_for(ob.function, ob.model if isinstance(ob.model, dict) else None)
                if rp is not None:
                    snippet, concrete = rp
                    rep, rep_out = core.run_snippet(snippet)
                    confirmed = rep is True
                    if confirmed and isinstance(concrete, dict):
                        concrete = dict(concrete, replay_output=rep_out.strip()[-600:])
            except Exception:
                pass
            if confirmed:
                failures.append(dict(clause=ob.clause, site=ob.function, wclass='obligation ' + ob.name, witness=concrete,
                                     detail='obligation refuted by %s; the counterexample replays on the real code: %s'
                                     % (ob.backend, ob.detail), snippet=snippet, obligation=ob.name, solver_output=ob.model,
                                     confirmed=True, origin='deductive'))
                continue
            f = dict(clause=ob.clause, site=ob.function, wclass='obligation ' + ob.name,
                     witness=ob.model, detail='obligation refuted by %s: %s' % (ob.backend, ob.detail),
                     snippet=None, obligation=ob.name, solver_output=ob.model, confirmed=False,
                     origin='deductive', no_input=True,
                     ledger='proved on the unchanged tree' if was else 'not in ledger')
            failures.append(f)
    if bounded and not bounded.get('error'):
        for f in bounded.get('failures', []):
            f = dict(f)
            f['origin'] = 'bounded'
            f['confirmed'] = True
            failures.append(f)

    violations = 0
    lines = []
    seen = set()
    for f in failures:
        key = (f.get('clause'), f.get('site'), f.get('wclass'))
        if key in seen:
            continue
        seen.add(key)
        k = core.match_known(pid, f, known)
        if k is not None:
            lines.append('KNOWN-FINDING: property=%s %s' % (pid, k.get('what', '%s/%s/%s' % key)))
            continue
        path = core.write_replay(pid, f)
        violations += 1
        tail = ' no-failing-input-found' if f.get('no_input') else ''
        lines.append('VIOLATION property=%s replay=%s clause=%s site=%s%s'
                     % (pid, path, f.get('clause'), f.get('site'), tail))

    # ---- evidence ----------------------------------------------------------------------------
    cnt = ded.counts()
    coverage = {}
    if bounded and not bounded.get('error'):
        coverage.update(evaluations=bounded['evaluations'],
                        distinct_nontrivial=bounded['distinct_nontrivial'],
                        rule=bounded['rule'], samples=bounded['samples'], bounds=bounded['bounds'],
                        bounded_truncated=bounded.get('truncated', []),
                        bounded_parts=bounded.get('parts', {}),
                        bounded_wall_s=bounded.get('wall_s'))
    else:
        coverage.update(evaluations=0, distinct_nontrivial=0, rule='bounded part did not run',
                        samples=[])
    level = getattr(mod, 'LEVEL', 'exploration')
    if cnt['obligations']:
        coverage.update(obligations=cnt['obligations'], discharged=cnt['discharged'],
                        refuted=cnt['refuted'], unknown=cnt['unknown'],
                        inapplicable=cnt['inapplicable'],
                        checker_cmd='python3-vt run.py check %s --tier %s' % (pid, tier),
                        trusted_base=ded.trusted,
                        functions_under_contract=ded.functions,
                        obligation_list=[o.to_json() for o in ded.obligations],
                        solver_seconds=round(sum(o.seconds for o in ded.obligations), 2),
                        demotions=ded.demotions, vacuity=ded.vacuity)
    if level == 'proof' and (not cnt['obligations'] or cnt['discharged'] != cnt['obligations']):
        # never claim a proof the run did not produce
        level = 'other'
    coverage['explanation'] = getattr(mod, 'EXPLANATION', '') + (
        ' | this run: %d obligations generated from the current source, %d discharged, %d refuted, '
        '%d unknown, %d inapplicable; bounded stand-in: %d evaluations (never counted as proved).'
        % (cnt['obligations'], cnt['discharged'], cnt['refuted'], cnt['unknown'],
           cnt['inapplicable'], coverage.get('evaluations', 0)))
    if inductive_ctis:
        coverage['inductive_counterexamples_not_reported'] = inductive_ctis
    checker_errors = checker_errors + list(ded.checker_errors)
    if checker_errors:
        coverage['checker_errors'] = checker_errors
    coverage['known_findings_reported'] = [l for l in lines if l.startswith('KNOWN')]
    assumptions = list(ded.assumptions) + list(getattr(mod, 'ASSUMPTIONS', []))
    if cnt['obligations']:
        assumptions += [
            'pyvc (the VC generator written for this task) encodes the Python semantics of the subset it accepts: mathematical '
            'integers, reals for floats where stated, heap objects by integer address with one map per field, dict/set = map + '
            'ghost size, list = (array, length), exceptions as outcomes; there is no machine-checked semantics behind it - it is '
            'validated by deliberate-breakage experiments (selftest/deductive_mutants.py, seeded/) and by the bounded layer',
            'z3 5.1 and cvc5 answers are trusted (unsat = proved); assumed contracts of builtins, stdlib and OS calls are listed '
            'under coverage.trusted_base',
            'termination is not proved']
    core.write_evidence(pid, tier, level, coverage, assumptions, time.time() - t0, violations)

    for l in lines:
        print(l)
    print('%s tier=%s obligations=%d discharged=%d refuted=%d unknown=%d bounded_evals=%s '
          'violations=%d wall=%.1fs' % (pid, tier, cnt['obligations'], cnt['discharged'],
                                        cnt['refuted'], cnt['unknown'],
                                        coverage.get('evaluations'), violations, time.time() - t0))
    for e in checker_errors:
        print('CHECKER-ERROR ' + e.replace('\n', ' | ')[:1500])
    if violations:
        return 1
    if checker_errors and not (bounded and not bounded.get('error')):
        return 3
    if checker_errors:
        return 3
    return 0


def make_ledger():
    """regenerate ledger.json from the deductive parts on the current /repo (done deliberately, on the unchanged tree)"""
    with open(os.path.join(HERE, 'MANIFEST.json')) as f:
        man = json.load(f)
    led = {}
    for c in man['checks']:
        pid = c['property_id']
        mod = importlib.import_module('checks.' + pid)
        if not hasattr(mod, 'deductive'):
            continue
        ded = core.Deductive()
        mod.deductive(ded, core.repo_path(), 'quick')
        led[pid] = {o.name: o.sha[:16] for o in ded.obligations if o.status == 'proved'}
        print(pid, len(led[pid]), 'proved obligations;', sum(1 for o in ded.obligations if o.status != 'proved'), 'not proved')
    with open(os.path.join(HERE, 'ledger.json'), 'w') as f:
        json.dump(led, f, indent=0, sort_keys=True)
    return 0


def replay(path):
    with open(path) as f:
        doc = json.load(f)
    sn = doc.get('snippet')
    if not sn:
        print('replay file has no executable snippet (obligation %s): solver output follows'
              % doc.get('obligation'))
        print(json.dumps(doc.get('solver_output'), indent=1)[:3000])
        return 2
    rep, out = core.run_snippet(sn)
    print(out)
    if rep is True:
        print('REPRODUCED property=%s clause=%s' % (doc.get('property'), doc.get('clause')))
        return 1
    if rep is False:
        print('not reproduced on this tree')
        return 0
    return 2


def setup():
    import z3
    s = z3.Solver()
    x = z3.Int('x')
    s.add(x > 0, x < 0)
    assert s.check() == z3.unsat
    s = z3.Solver()
    s.add(x > 0)
    assert s.check() == z3.sat
    assert os.path.exists(core.VENV_PY), 'test-suite interpreter missing'
    try:
        from pyvc import selfcheck
        selfcheck.run()
    except ImportError:
        pass
    # proved contracts vs CPython on a grid of concrete inputs (stand-in for an encoder cross-check)
    import subprocess
    p = subprocess.run([sys.executable, os.path.join(HERE, 'selftest', 'contract_vs_cpython.py')], capture_output=True, text=True)
    print(p.stdout.strip().splitlines()[-1] if p.stdout.strip() else p.stderr[-500:])
    if p.returncode:
        print('setup FAILED: a proved postcondition is false on a real execution')
        return 1
    print('setup ok: z3', z3.get_version_string())
    return 0


def run_all(tier):
    import subprocess
    with open(os.path.join(HERE, 'MANIFEST.json')) as f:
        man = json.load(f)
    procs = []
    for c in man['checks']:
        pid = c['property_id']
        procs.append((pid, subprocess.Popen([sys.executable, 'run.py', 'check', pid, '--tier', tier],
                                            stdout=subprocess.PIPE, stderr=subprocess.STDOUT, text=True)))
    rc = 0
    for pid, p in procs:
        out, _ = p.communicate()
        print(out.strip())
        if p.returncode:
            print('%s exit=%d' % (pid, p.returncode))
            rc = max(rc, p.returncode)
    return rc


def main():
    ap = argparse.ArgumentParser()
    sub = ap.add_subparsers(dest='cmd')
    c = sub.add_parser('check')
    c.add_argument('pid')
    c.add_argument('--tier', default=os.environ.get('VERIF_TIER', 'quick'))
    r = sub.add_parser('replay')
    r.add_argument('path')
    sub.add_parser('setup')
    sub.add_parser('ledger')
    a = sub.add_parser('all')
    a.add_argument('--tier', default='quick')
    args = ap.parse_args()
    if args.cmd == 'check':
        sys.exit(check(args.pid, args.tier))
    if args.cmd == 'replay':
        sys.exit(replay(args.path))
    if args.cmd == 'setup':
        sys.exit(setup())
    if args.cmd == 'ledger':
        sys.exit(make_ledger())
    if args.cmd == 'all':
        sys.exit(run_all(args.tier))
    ap.print_help()
    sys.exit(2)


if __name__ == '__main__':
    main()
