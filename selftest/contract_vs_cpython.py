#!/usr/bin/env python3
"""Cross-check of proved contracts against CPython (python3-vt selftest/contract_vs_cpython.py).

For functions under contract whose inputs are scalars or small sequences, run the REAL function (imported from $VERIF_REPO)
on a grid of concrete inputs, then evaluate the contract's requires/ensures - the same z3 formulas that were discharged -
on the concrete input/output pair.  A postcondition that evaluates to false on a real execution means the proof pipeline is
unsound somewhere (the encoding of Python semantics, the contract's reading of arguments/results, or the solver glue).
This is the stand-in for an encoder cross-check; it exercises: floor division/modulo, range(), generators, list append/pop,
string comparison, tuple results, negative indices."""
import itertools
import os
import sys
from fractions import Fraction

HERE = os.path.dirname(os.path.dirname(os.path.abspath(__file__)))
sys.path.insert(0, HERE)
import z3  # noqa: E402

REPO = os.path.realpath(os.environ.get('VERIF_REPO', '/repo'))
sys.path.insert(0, REPO)

from pyvc.values import State, Fresh, SInt, SBool, SReal, SStr, SSeq, SRef, STuple, SNone, STR, REF  # noqa: E402
from pyvc.contract import Ctx  # noqa: E402


def holds(f):
    f = z3.simplify(f)
    if z3.is_true(f):
        return True
    if z3.is_false(f):
        return False
    s = z3.Solver()
    s.set('timeout', 20000)
    s.add(z3.Not(f))
    r = s.check()
    return True if r == z3.unsat else False if r == z3.sat else None


def arr(sort, values, dflt):
    a = z3.K(z3.IntSort(), dflt)
    for i, v in enumerate(values):
        a = z3.Store(a, i, v)
    return a


def fresh_state():
    st = State()
    st.fresh = Fresh()
    st.alloc = z3.IntVal(1000)
    return st


def check_clauses(name, inp, clauses, stats):
    for label, f in clauses:
        r = holds(f)
        stats['clauses'] += 1
        if r is not True:
            stats['bad'].append((name, inp, label, r))


def chunk_ranges(stats):
    from boltons.iterutils import chunk_ranges as real
    from contracts import iterutils_c as m
    eng = m.make_engine(REPO)
    con = m.CONTRACTS['chunk_ranges']
    for size, chunk, offset, overlap, align in itertools.product(range(0, 9), range(1, 5), range(0, 7), range(0, 4), (False, True)):
        if overlap >= chunk:
            continue
        out = list(real(size, chunk, offset, overlap, align))
        st = fresh_state()
        args = dict(input_size=SInt(size), chunk_size=SInt(chunk), input_offset=SInt(offset), overlap_size=SInt(overlap), align=SBool(align))
        st.ghost['out_n'] = z3.IntVal(len(out))
        st.ghost['out_0'] = arr(z3.IntSort(), [z3.IntVal(a) for a, b in out], z3.IntVal(0))
        st.ghost['out_1'] = arr(z3.IntSort(), [z3.IntVal(b) for a, b in out], z3.IntVal(0))
        c = Ctx(eng, st, st, args)
        stats['cases'] += 1
        check_clauses('chunk_ranges', (size, chunk, offset, overlap, align), con.ensures(c), stats)


def backoff(stats):
    from boltons.iterutils import backoff_iter as real
    from contracts import iterutils_c as m
    eng = m.make_engine(REPO)
    con = m.CONTRACTS['backoff_iter']
    # dyadic rationals: float arithmetic on them is exact here, so floats = reals
    for start, stop, factor, count in itertools.product((0.0, 0.5, 1.0, 3.0), (0.5, 1.0, 4.0, 16.0), (1.0, 2.0, 4.0), range(0, 7)):
        try:
            out = list(real(start, stop, count=count, factor=factor))
        except ValueError:
            out = None
        st = fresh_state()
        args = dict(start=SReal(z3.RealVal(Fraction(start))), stop=SReal(z3.RealVal(Fraction(stop))), count=SInt(count),
                    factor=SReal(z3.RealVal(Fraction(factor))), jitter=SBool(False))
        stats['cases'] += 1
        if out is None:
            st.ghost['out_n'] = z3.IntVal(0)
            st.ghost['out_0'] = arr(z3.RealSort(), [], z3.RealVal(0))
            st.ghost['base'] = st.ghost['out_0']
            c = Ctx(eng, st, st, args, exc='ValueError')
            check_clauses('backoff_iter raises', (start, stop, factor, count), con.raises['ValueError'](c), stats)
            continue
        vals = [z3.RealVal(Fraction(v)) for v in out]
        st.ghost['out_n'] = z3.IntVal(len(out))
        st.ghost['out_0'] = arr(z3.RealSort(), vals, z3.RealVal(0))
        st.ghost['base'] = st.ghost['out_0']
        c = Ctx(eng, st, st, args)
        check_clauses('backoff_iter', (start, stop, factor, count), con.ensures(c), stats)


def resolve(stats):
    from boltons.urlutils import resolve_path_parts as real
    from contracts import urlutils_c as m
    eng = m.make_engine(REPO)
    con = m.CONTRACTS['resolve_path_parts']
    segs = ['', '.', '..', 'a']
    for n in range(0, 5):
        for parts in itertools.product(segs, repeat=n):
            out = real(list(parts))
            for variant in ('any', 'dotfree'):
                if variant == 'dotfree' and any(p in ('.', '..') for p in parts):
                    continue
                eng.variant = variant
                st = fresh_state()
                pa = arr(z3.StringSort(), [z3.StringVal(p) for p in parts], z3.StringVal(''))
                args = dict(path_parts=SSeq(STR, pa, z3.IntVal(len(parts))))
                r = SRef(m.StrList, z3.IntVal(5))
                st.heap[('StrList', 'elems')] = z3.Store(z3.K(z3.IntSort(), z3.K(z3.IntSort(), z3.StringVal(''))), 5,
                                                         arr(z3.StringSort(), [z3.StringVal(p) for p in out], z3.StringVal('')))
                st.heap[('StrList', 'len')] = z3.Store(z3.K(z3.IntSort(), z3.IntVal(0)), 5, z3.IntVal(len(out)))
                c = Ctx(eng, st, st, args, result=r)
                stats['cases'] += 1
                check_clauses('resolve_path_parts[%s]' % variant, parts, con.ensures(c), stats)


def index_translation(stats):
    from boltons.setutils import IndexedSet
    from contracts import iset as m
    eng = m.make_engine(REPO)
    for dead in ([], [(1, 2)], [(0, 2), (4, 5)], [(2, 3), (3, 5), (8, 9)]):
        s = IndexedSet()
        s.dead_indices[:] = [list(d) for d in dead]
        n_dead = sum(b - a for a, b in dead)
        for index in range(0, 8):
            # the real methods consult len(self) only for negative indices
            for fname in ('_get_real_index', '_get_apparent_index'):
                if fname == '_get_apparent_index' and any(a <= index < b for a, b in dead):
                    continue
                out = getattr(s, fname)(index)
                con = m.CONTRACTS['IndexedSet.' + fname]
                st = fresh_state()
                self = SRef(m.IS, z3.IntVal(1))
                st.heap[('IndexedSet', 'dead_indices')] = z3.Store(z3.K(z3.IntSort(), z3.IntVal(0)), 1, z3.IntVal(2))
                st.heap[('DeadList', 'len')] = z3.Store(z3.K(z3.IntSort(), z3.IntVal(0)), 2, z3.IntVal(len(dead)))
                st.heap[('DeadList', 'elems')] = z3.Store(z3.K(z3.IntSort(), z3.K(z3.IntSort(), z3.IntVal(0))), 2,
                                                          arr(z3.IntSort(), [z3.IntVal(10 + j) for j in range(len(dead))], z3.IntVal(0)))
                S_, T_ = z3.K(z3.IntSort(), z3.IntVal(0)), z3.K(z3.IntSort(), z3.IntVal(0))
                for j, (a, b) in enumerate(dead):
                    S_, T_ = z3.Store(S_, 10 + j, a), z3.Store(T_, 10 + j, b)
                st.heap[('DeadInterval', '0')], st.heap[('DeadInterval', '1')] = S_, T_
                args = dict(self=self, index=SInt(index))
                # witness k: number of intervals passed, recomputed natively the way the loop does
                k = 0
                if fname == '_get_real_index':
                    r = index
                    for a, b in dead:
                        if r < a:
                            break
                        r += b - a
                        k += 1
                else:
                    for a, b in dead:
                        if index < a:
                            break
                        k += 1
                if dead:
                    st.ghost['$loop_index_0'] = z3.IntVal(k)
                c = Ctx(eng, st, st, args, result=SInt(out))
                stats['cases'] += 1
                check_clauses('IndexedSet.' + fname, (dead, index), con.ensures(c), stats)


def main():
    stats = dict(cases=0, clauses=0, bad=[])
    for fn in (chunk_ranges, backoff, resolve, index_translation):
        before = stats['cases']
        fn(stats)
        print('%-20s %5d real executions checked against the proved postconditions' % (fn.__name__, stats['cases'] - before))
    print('total: %d executions, %d clause evaluations, %d disagreements' % (stats['cases'], stats['clauses'], len(stats['bad'])))
    for b in stats['bad'][:10]:
        print('DISAGREEMENT', b)
    return 1 if stats['bad'] else 0


if __name__ == '__main__':
    sys.exit(main())
