#!/usr/bin/env python3
"""Deliberate property-breaking edits used while building the contracts (python3-vt selftest/deductive_mutants.py [filter]).
Each edit is applied to a scratch copy (never /repo); the functions under contract in that file are re-verified against the
copy.  Expected: at least one obligation is no longer `proved` (refuted or unknown) - a mutant for which everything still
proves would mean the contracts are too weak there.  Not part of the registered checks."""
import json
import os
import sys
import time

HERE = os.path.dirname(os.path.dirname(os.path.abspath(__file__)))
sys.path.insert(0, HERE)
from lib.core import Deductive  # noqa: E402
from pyvc import driver  # noqa: E402
from selftest.scratch import mutated  # noqa: E402
import importlib  # noqa: E402

GROUPS = {
    'C03': lambda m: [(q, v) for q, vs in m.TARGETS for v in vs],
    'OMD': lambda m: [(q, None) for q in m.HELPERS] + [(q, v) for q, vs in m.PUBLIC for v in vs],
    'BSOCK': lambda m: [(q, v) for q, vs in m.FUNCS for v in vs],
    'SPOOLED': lambda m: [(q, None) for q in m.FUNCS],
}


def main():
    flt = sys.argv[1] if len(sys.argv) > 1 else ''
    entries = json.load(open(os.path.join(HERE, 'selftest', 'deductive_mutants.json')))
    survivors = 0
    for e in entries:
        if flt and flt not in e['module'] and flt not in e['file']:
            continue
        m = importlib.import_module(e['module'])
        funcs = e['funcs']
        if isinstance(funcs, str):
            funcs = GROUPS[funcs](m)
        with mutated(e['file'], e['old'], e['new']) as repo:
            ded = Deductive()
            t = time.time()
            specs = [dict(module=e['module'], repo=repo, q=q, variant=v, timeout=20,
                          only='guard' if e['module'].endswith('lri_lock') else None) for q, v in funcs]
            driver.run_parallel(ded, specs, budget_s=150)
            bad = [(o.name[:70], o.status) for o in ded.obligations if o.status != 'proved' and o.kind not in ('cover', 'must-fail')]
            refuted = [b for b in bad if b[1] == 'refuted']
            tag = 'KILLED(refuted)' if refuted else 'demoted(unknown)' if bad else 'SURVIVED'
            if not bad and e.get('expect') == 'survive':
                tag = 'survived(expected: %s)' % e.get('note', '')[:60]
            else:
                survivors += 0 if bad else 1
            print('%-17s %-26s %-52r %5.1fs %s' % (tag, e['file'].split('/')[-1], e['new'][:50], time.time() - t, (refuted or bad)[:2]))
    print('survivors:', survivors)
    return 1 if survivors else 0


if __name__ == '__main__':
    sys.exit(main())
