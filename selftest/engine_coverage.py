#!/usr/bin/env python3
"""Line-coverage cross-check of the symbolic executor against CPython (python3-vt selftest/engine_coverage.py).

A symbolic executor that silently drops a path proves less than it reports.  For every function under contract, the set of
statement lines the executor reached (recorded per function in evidence/<id>.json by the last `run.py all`) is compared with
the lines CPython really executes inside that function when the repository's test suite and the bounded harnesses (quick
tier) run.  A line executed concretely but never reached symbolically is either outside the stated variants of the contract
(documented below as EXPECTED) or a lost path - an engine defect.  Not part of the registered checks."""
import ast
import glob
import json
import os
import re
import shutil
import subprocess
import sys
import tempfile

HERE = os.path.dirname(os.path.dirname(os.path.abspath(__file__)))
sys.path.insert(0, HERE)
REPO = os.path.realpath(os.environ.get('VERIF_REPO', '/repo'))

# lines that are executed concretely but lie outside what the contracts claim (reason given); anything else is reported
EXPECTED = {
    # (file, function): reason - every entry is an argument shape the contract's setup excludes, named in the evidence assumptions
    ('boltons/cacheutils.py', 'LRI.__eq__'): '`self is other`: the argument of the lock-discipline contract is an opaque value, assumed not to be self',
    ('boltons/dictutils.py', 'ManyToMany.update'): 'the branch for an argument that is itself a ManyToMany is outside the contract variant',
    ('boltons/dictutils.py', 'OrderedMultiDict.update'): '`E is self`: the argument is assumed not to be the object itself',
    ('boltons/dictutils.py', 'OrderedMultiDict.update_extend'): '`E is self`: the argument is assumed not to be the object itself',
    ('boltons/iterutils.py', 'bucketize'): 'key given as a str or a list (and the TypeError branches): the contract takes a callable key',
    ('boltons/iterutils.py', 'is_iterable'): 'non-iterable argument: the contracts take an iterable src',
    ('boltons/iterutils.py', 'unique_iter'): 'key given as an attribute name: the contract takes key None or a callable',
    ('boltons/ioutils.py', 'MultiFileReader.read'): 'the unsized read() is outside the contract (amt >= 1 required)',
    ('boltons/ioutils.py', 'SpooledBytesIO.write'): 'TypeError branch for a non-bytes argument: the contract takes bytes',
    ('boltons/setutils.py', 'IndexedSet._get_real_index'): 'negative index normalisation: the contract takes index >= 0',
    ('boltons/dictutils.py', 'OrderedMultiDict._clear_ll'): 'AttributeError branch of a not yet constructed object: contracts start from a constructed one',
    ('boltons/ioutils.py', 'SpooledBytesIO.buffer'): 'AttributeError branch of a not yet constructed object: contracts start from a constructed one',
    ('boltons/ioutils.py', 'SpooledIOBase._checkClosed'): 'ValueError on a closed file: the contracts require an open file',
}


def func_ranges(path):
    """{qualname: [(first body line, last line), ...]} for every def (incl. methods, conditional defs)"""
    tree = ast.parse(open(path).read())
    out = {}

    def walk(node, prefix):
        for ch in ast.iter_child_nodes(node):
            if isinstance(ch, (ast.FunctionDef, ast.AsyncFunctionDef)):
                q = prefix + ch.name
                first = ch.body[0].lineno
                if isinstance(ch.body[0], ast.Expr) and isinstance(ch.body[0].value, ast.Constant) and len(ch.body) > 1:
                    first = ch.body[1].lineno
                out.setdefault(q, []).append((first, ch.end_lineno))
            elif isinstance(ch, ast.ClassDef):
                walk(ch, prefix + ch.name + '.')
            elif isinstance(ch, (ast.If, ast.Try, ast.With)):
                walk(ch, prefix)
    walk(tree, '')
    return out


def stmt_lines(path):
    tree = ast.parse(open(path).read())
    return {n.lineno for n in ast.walk(tree) if isinstance(n, ast.stmt)}


def main():
    symbolic, funcs = {}, {}
    for ev in sorted(glob.glob(os.path.join(HERE, 'evidence', 'C*.json'))):
        doc = json.load(open(ev))
        for fname, info in (doc['coverage'].get('functions_under_contract') or {}).items():
            if info.get('status') != 'ok' or 'visited_lines' not in info:
                continue
            f = info['file']
            symbolic.setdefault(f, set()).update(info['visited_lines'])
            funcs.setdefault(f, set()).add(re.sub(r'\[.*\]$', '', fname))
            funcs[f].update(info.get('inlined') or [])          # helpers executed inline are compared too
    if not symbolic:
        print('no visited_lines in evidence/: run `python3-vt run.py all` first')
        return 2
    out = tempfile.mkdtemp(prefix='verif-cov-')
    env = dict(os.environ, VERIF_COV_OUT=out, VERIF_COV_ROOT=REPO, PYTHONDONTWRITEBYTECODE='1',
               PYTHONPATH=os.pathsep.join([os.path.join(HERE, 'selftest', 'covsite'), REPO, HERE]), VERIF_REPO=REPO)
    try:
        subprocess.run(['/venv/bin/python', '-m', 'pytest', '-q', '-x', '-p', 'no:cacheprovider', os.path.join(REPO, 'tests')],
                       cwd=REPO, env=env, capture_output=True, text=True, timeout=1800)
        for b in sorted(glob.glob(os.path.join(HERE, 'bounded', 'C??.py'))):
            subprocess.run(['/venv/bin/python', '-B', b, '--tier', 'quick', '--seed', '0'], cwd=HERE, env=env, capture_output=True,
                           text=True, timeout=1800)
        concrete = {}
        for fn in glob.glob(os.path.join(out, 'cov-*.txt')):
            for line in open(fn):
                f, ln = line.rsplit(':', 1)
                concrete.setdefault(f, set()).add(int(ln))
    finally:
        shutil.rmtree(out, ignore_errors=True)
    bad = 0
    for f in sorted(symbolic):
        path = os.path.join(REPO, f)
        ranges, stmts = func_ranges(path), stmt_lines(path)
        for q in sorted(funcs[f]):
            short = q.split('.')[-1] if q not in ranges else q
            for a, b in ranges.get(q, ranges.get(short, [])):
                body = {ln for ln in stmts if a <= ln <= b}
                ran = body & concrete.get(f, set())
                missed = sorted(ran - symbolic[f])
                tag = 'ok'
                if missed:
                    why = EXPECTED.get((f, q))
                    tag = 'EXPECTED (%s)' % why if why else 'NOT REACHED SYMBOLICALLY'
                    bad += 0 if why else 1
                print('%-24s %-52s lines %4d-%-4d executed %3d/%-3d symbolic-only-missing %s %s'
                      % (f.split('/')[-1], q, a, b, len(ran), len(body), missed or '', tag if missed else ''))
    print('functions with lines executed by CPython but never reached by the symbolic executor:', bad)
    return 1 if bad else 0


if __name__ == '__main__':
    sys.exit(main())
