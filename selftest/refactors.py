#!/usr/bin/env python3
"""Semantics-preserving edits that must NOT raise an alarm (python3-vt selftest/refactors.py). Each is applied to a scratch
copy (never /repo) and the property's quick check is run with VERIF_REPO pointing at it: expected exit 0."""
import json
import os
import subprocess
import sys

HERE = os.path.dirname(os.path.dirname(os.path.abspath(__file__)))
sys.path.insert(0, HERE)
from selftest.scratch import mutated  # noqa: E402

EDITS = [
    ('C11', 'boltons/setutils.py', "            self.item_index_map[item] = len(self.item_list)\n            self.item_list.append(item)",
     "            slot = len(self.item_list)\n            self.item_list.append(item)\n            self.item_index_map[item] = slot", 1,
     'IndexedSet.add: slot number through a local, map written after the append'),
    ('C11', 'boltons/setutils.py', "        self.item_list[didx] = _MISSING\n        self._add_dead(didx)\n        self._cull()",
     "        items = self.item_list\n        items[didx] = _MISSING\n        self._add_dead(didx)\n        self._cull()", 1,
     'IndexedSet.remove: the slot list through a local alias'),
    ('C09', 'boltons/iterutils.py', 'initial_chunk_len', 'first_len', 99, 'rename a local of chunk_ranges'),
    ('C02', 'boltons/cacheutils.py', "        oldanchor[KEY] = key\n        oldanchor[VALUE] = value\n",
     "        oldanchor[VALUE] = value\n        oldanchor[KEY] = key\n", 1, 'swap two independent stores in the eviction helper'),
    ('C20', 'boltons/cacheutils.py', "        self.total += 1\n        try:\n            self._count_map[key][0] += 1",
     "        self.total = self.total + 1\n        try:\n            self._count_map[key][0] += 1", 1, 'x += 1 -> x = x + 1'),
    ('C05', 'boltons/fileutils.py', "        if self.part_file:\n            try:", "        if self.part_file is not None:\n            try:", 1,
     'truthiness -> is not None'),
    ('C10', 'boltons/queueutils.py', "        entry[-1] = _REMOVED", "        entry[2] = _REMOVED", 1, 'negative -> positive constant index'),
    ('C07', 'boltons/urlutils.py', "        if part == '.':\n            pass\n        elif part == '..':",
     "        if part == '.':\n            continue\n        elif part == '..':", 1, 'pass -> continue'),
    ('C15', 'boltons/iterutils.py', "        if not jitter:\n            cur_ret = cur\n        elif jitter:\n            cur_ret = cur - (cur * jitter * random.random())",
     "        if jitter:\n            cur_ret = cur - (cur * jitter * random.random())\n        else:\n            cur_ret = cur", 1, 'if/elif reordered'),
    ('C17', 'boltons/dictutils.py', "        if key in self:\n            dict.__delitem__(self.inv, self[key])\n        if val in self.inv:",
     "        if key in self:\n            old = self[key]\n            dict.__delitem__(self.inv, old)\n        if val in self.inv:", 1, 'introduce a temporary'),
    ('C01', 'boltons/dictutils.py', "        values = super().setdefault(k, [])\n        self._insert(k, v)\n        values.append(v)",
     "        self._insert(k, v)\n        super().setdefault(k, []).append(v)", 1, 'reorder dict and list updates in add()'),
    ('C12', 'boltons/socketutils.py', "            if len(self.rbuf) >= size:\n                data, self.rbuf = self.rbuf[:size], self.rbuf[size:]\n                return data",
     "            if len(self.rbuf) >= size:\n                data = self.rbuf[:size]\n                self.rbuf = self.rbuf[size:]\n                return data", 1, 'split a tuple assignment'),
    ('C12', 'boltons/socketutils.py', "                    total_sent += sent\n                    sbuf[0] = sbuf[0][sent:]\n",
     "                    rest = sbuf[0][sent:]\n                    sbuf[0] = rest\n                    total_sent = total_sent + sent\n", 1,
     'send loop: temporary + reordered independent statements'),
    ('C02', 'boltons/cacheutils.py', "                self.miss_count += 1\n                if not self.on_miss:\n                    raise\n                ret = self[key] = self.on_miss(key)\n                return ret\n\n            self.hit_count += 1\n            return link[VALUE]",
     "                self.miss_count += 1\n                if not self.on_miss:\n                    raise\n                ret = self.on_miss(key)\n                self[key] = ret\n                return ret\n\n            self.hit_count += 1\n            return link[VALUE]", 1,
     'LRI.__getitem__: chained assignment split'),
    ('C12', 'boltons/socketutils.py', "        with self._send_lock:\n            self.sbuf.append(data)\n        return",
     "        with self._send_lock:\n            self.sbuf = self.sbuf + [data]\n        return", 1, 'buffer(): a new list object instead of append'),
    ('C17', 'boltons/dictutils.py', "        if key not in self.data:\n            self.data[key] = set()\n        self.data[key].add(val)",
     "        self.data.setdefault(key, set()).add(val)", 1, 'ManyToMany.add: setdefault instead of membership test'),
    ('C11', 'boltons/setutils.py', "        int_idx = bisect_left(dints, cand_int)\n        dint = dints[int_idx - 1]\n        d_start, d_stop = dint",
     "        int_idx = bisect_left(dints, cand_int)\n        dint = dints[int_idx - 1]\n        d_start = dint[0]\n        d_stop = dint[1]", 1,
     '_add_dead: tuple unpacking split'),
    ('C18', 'boltons/ioutils.py', "            got = len(parts[-1])\n            if got < amt:\n                self._index += 1\n            amt -= got",
     "            got = len(parts[-1])\n            amt -= got\n            if amt > 0:\n                self._index += 1", 1,
     'MultiFileReader.read: remaining amount computed first'),
]


def main():
    only = sys.argv[1:]
    bad = 0
    for pid, rel, old, new, cnt, what in EDITS:
        if only and pid not in only:
            continue
        with mutated(rel, old, new, count=cnt) as repo:
            t = subprocess.run(['/venv/bin/python', '-m', 'pytest', '-q', '-x', '-p', 'no:cacheprovider', 'tests'], cwd=repo,
                               env=dict(os.environ, PYTHONPATH=repo), capture_output=True, text=True)
            env = dict(os.environ, VERIF_REPO=repo)
            p = subprocess.run(['python3-vt', 'run.py', 'check', pid, '--tier', 'quick'], cwd=HERE, env=env, capture_output=True, text=True)
            last = [l for l in p.stdout.splitlines() if l.startswith(pid + ' tier=')][-1:]
            ok = p.returncode == 0
            bad += 0 if ok else 1
            print('%s %-4s %-45s suite=%s exit=%d %s' % ('ok  ' if ok else 'FALSE-ALARM', pid, what,
                                                          'pass' if t.returncode == 0 else 'FAIL', p.returncode, last[0][:150] if last else ''))
            if not ok:
                print('\n'.join(l for l in p.stdout.splitlines() if l.startswith(('VIOLATION', 'CHECKER'))))
    return 1 if bad else 0


if __name__ == '__main__':
    sys.exit(main())
