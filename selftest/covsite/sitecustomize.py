"""Line coverage of boltons/*.py for the engine cross-check (selftest/engine_coverage.py): active only when
VERIF_COV_OUT names a directory.  Uses sys.monitoring (3.12): every line reports once, then is disabled."""
import atexit
import os
import sys

_out = os.environ.get('VERIF_COV_OUT')
_root = os.environ.get('VERIF_COV_ROOT')
if _out and _root and hasattr(sys, 'monitoring'):
    _mon = sys.monitoring
    _TOOL = 3
    _seen = set()
    _root = os.path.realpath(_root) + os.sep

    def _line(code, line):
        fn = code.co_filename
        if fn.startswith(_root):
            _seen.add((fn[len(_root):], line))
        return _mon.DISABLE

    def _dump():
        try:
            with open(os.path.join(_out, 'cov-%d.txt' % os.getpid()), 'w') as f:
                for fn, ln in sorted(_seen):
                    f.write('%s:%d\n' % (fn, ln))
        except Exception:
            pass
    try:
        _mon.use_tool_id(_TOOL, 'verif-cov')
        _mon.register_callback(_TOOL, _mon.events.LINE, _line)
        _mon.set_events(_TOOL, _mon.events.LINE)
        atexit.register(_dump)
    except Exception:
        pass
