"""scratch copies of the repository for deliberate breakage (never inside /repo or /verif)"""
import contextlib
import os
import shutil
import subprocess
import tempfile


@contextlib.contextmanager
def mutated(relpath=None, old=None, new=None, patch=None, repo='/repo', count=1):
    d = tempfile.mkdtemp(prefix='verif-scratch-')
    try:
        dst = os.path.join(d, 'repo')
        shutil.copytree(repo, dst, ignore=shutil.ignore_patterns('.git', '__pycache__', 'docs', '*.pyc'))
        if patch:
            subprocess.run(['patch', '-p1', '-s', '-i', os.path.abspath(patch)], cwd=dst, check=True)
        if relpath:
            p = os.path.join(dst, relpath)
            s = open(p).read()
            assert s.count(old) >= 1, 'pattern not found: %r' % old
            s = s.replace(old, new, count)
            open(p, 'w').write(s)
        yield dst
    finally:
        shutil.rmtree(d, ignore_errors=True)
