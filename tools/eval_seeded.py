#!/usr/bin/env python3
"""Confirm a seeded change and run the property's check against it, on a scratch copy of /repo (never in /repo).

  python3-vt tools/eval_seeded.py <dir with patch.diff demo.py meta.json> [--tier quick] [--keep-as seeded/<id>]

1. clean scratch copy: demo must exit 0;  2. patched scratch copy: the repository test-suite must pass and the demo must
exit non-zero;  3. `run.py check <property>` with VERIF_REPO=<patched copy>: detected iff exit 1 with a VIOLATION line.
"""
import argparse
import json
import os
import shutil
import subprocess
import sys
import tempfile
import time

HERE = os.path.dirname(os.path.dirname(os.path.abspath(__file__)))


def sh(cmd, cwd=None, env=None, timeout=1800):
    p = subprocess.run(cmd, cwd=cwd, env=env, capture_output=True, text=True, timeout=timeout)
    return p.returncode, (p.stdout + p.stderr)


def main():
    ap = argparse.ArgumentParser()
    ap.add_argument('dir')
    ap.add_argument('--tier', default='quick')
    ap.add_argument('--keep-as', default=None)
    ap.add_argument('--also', nargs='*', default=[], help='other property checks to run too')
    a = ap.parse_args()
    meta = json.load(open(os.path.join(a.dir, 'meta.json')))
    pid = meta['property']
    patch = os.path.abspath(os.path.join(a.dir, 'patch.diff'))
    demo = os.path.abspath(os.path.join(a.dir, 'demo.py'))
    tmp = tempfile.mkdtemp(prefix='verif-seeded-')
    res = dict(property=pid, dir=a.dir)
    try:
        clean = os.path.join(tmp, 'clean')
        mut = os.path.join(tmp, 'mut')
        ign = shutil.ignore_patterns('.git', '__pycache__', 'docs', '*.pyc')
        shutil.copytree('/repo', clean, ignore=ign)
        shutil.copytree('/repo', mut, ignore=ign)
        rc, out = sh(['patch', '-p1', '-s', '-i', patch], cwd=mut)
        res['patch_applies'] = rc == 0
        if rc:
            res['error'] = out[-500:]
            print(json.dumps(res, indent=1))
            return 2
        env = dict(os.environ, PYTHONDONTWRITEBYTECODE='1')
        env['PYTHONPATH'] = clean
        rc, out = sh(['/venv/bin/python', '-B', demo], cwd=tmp, env=env, timeout=600)
        res['demo_clean_exit'] = rc
        env['PYTHONPATH'] = mut
        rc, out = sh(['/venv/bin/python', '-B', demo], cwd=tmp, env=env, timeout=600)
        res['demo_mutant_exit'] = rc
        res['demo_mutant_tail'] = out[-300:]
        rc, out = sh(['/venv/bin/python', '-B', '-m', 'pytest', '-q', '-p', 'no:cacheprovider', '-x', 'tests'], cwd=mut, env=env)
        res['suite_passes_with_patch'] = rc == 0
        res['suite_tail'] = out.strip().splitlines()[-1] if out.strip() else ''
        res['confirmed'] = (res['demo_clean_exit'] == 0 and res['demo_mutant_exit'] != 0 and res['suite_passes_with_patch'])
        env2 = dict(os.environ, VERIF_REPO=mut)
        checks = {}
        for p in [pid] + list(a.also):
            t0 = time.time()
            rc, out = sh(['python3-vt', 'run.py', 'check', p, '--tier', a.tier], cwd=HERE, env=env2, timeout=3600)
            viol = [l for l in out.splitlines() if l.startswith('VIOLATION')]
            checks[p] = dict(exit=rc, violations=[v[:300] for v in viol][:8], wall_s=round(time.time() - t0, 1),
                             summary=[l for l in out.splitlines() if l.startswith(p + ' tier=')][-1:],
                             detected=(rc == 1 and bool(viol)),
                             by=sorted(set('deductive' if 'no-failing-input-found' in v or 'obligation' in v else 'bounded' for v in viol)))
            # which layer caught it: look into the replay files
            layers = set()
            for v in viol:
                try:
                    rp = v.split('replay=')[1].split()[0]
                    d = json.load(open(rp))
                    layers.add('deductive' if d.get('obligation') else 'bounded')
                except Exception:
                    pass
            checks[p]['layers'] = sorted(layers)
        res['checks'] = checks
        res['detected'] = checks[pid]['detected']
    finally:
        shutil.rmtree(tmp, ignore_errors=True)
    print(json.dumps(res, indent=1))
    if a.keep_as and res.get('confirmed'):
        dst = os.path.join(HERE, a.keep_as)
        os.makedirs(dst, exist_ok=True)
        shutil.copy(patch, os.path.join(dst, 'patch.diff'))
        shutil.copy(demo, os.path.join(dst, 'demo.py'))
        meta['what_i_ran'] = ['clean copy: demo exit %s' % res['demo_clean_exit'],
                              'patched copy: demo exit %s; pytest tests: %s' % (res['demo_mutant_exit'], res['suite_tail']),
                              'VERIF_REPO=<patched copy> python3-vt run.py check %s --tier %s -> exit %s, layers %s'
                              % (pid, a.tier, checks[pid]['exit'], checks[pid]['layers'])]
        meta['detected_by_check'] = res['detected']
        meta['detecting_layers'] = checks[pid]['layers']
        meta['violations'] = checks[pid]['violations']
        json.dump(meta, open(os.path.join(dst, 'meta.json'), 'w'), indent=1)
    return 0


if __name__ == '__main__':
    sys.exit(main())
