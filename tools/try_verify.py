#!/usr/bin/env python3
"""developer helper: python3-vt tools/try_verify.py contracts.iterutils_c chunk_ranges [--repo DIR] [--mut OLD NEW]"""
import sys, time, importlib, argparse
sys.path.insert(0, '/verif')
from lib.core import Deductive
from pyvc.engine import Engine
from pyvc import driver
ap = argparse.ArgumentParser()
ap.add_argument('module'); ap.add_argument('funcs', nargs='+'); ap.add_argument('--repo', default='/repo')
ap.add_argument('--variant', default=None); ap.add_argument('--timeout', type=int, default=20)
ap.add_argument('-v', action='store_true')
a = ap.parse_args()
m = importlib.import_module(a.module)
eng = m.make_engine(a.repo) if hasattr(m, 'make_engine') else Engine(a.repo, m.FILE, classes=m.CLASSES, contracts=m.CONTRACTS)
for c in m.ALL: eng.register_class(c)
ded = Deductive()
for q in a.funcs:
    t = time.time()
    r = driver.discharge(ded, eng, q, variant=a.variant, timeout=a.timeout)
    print(q, r['status'], round(time.time() - t, 2), ded.functions.get(q if not a.variant else '%s[%s]' % (q, a.variant), {}).get('reason', ''))
for o in ded.obligations:
    if a.v or o.status != 'proved':
        print(' ', o.status, o.name, '|', o.backend, round(o.seconds, 2), o.detail[:300])
        if o.model and a.v: print('     model:', {k: v for k, v in list(o.model.items())[:40]})
c = ded.counts(); print(c, ded.vacuity, ded.checker_errors)
