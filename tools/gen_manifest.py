#!/usr/bin/env python3
"""Regenerate MANIFEST.json from the metadata in checks/Cxx.py (run with python3-vt, cwd /verif)."""
import importlib
import json
import os
import sys

HERE = os.path.dirname(os.path.dirname(os.path.abspath(__file__)))
sys.path.insert(0, HERE)

NOT_YET = 'no check registered yet (framework under construction); see DESIGN.md section 3'


def main():
    props = [json.loads(l) for l in open(os.path.join(HERE, 'properties.jsonl'))]
    checks, na = [], []
    for p in props:
        pid = p['id']
        try:
            mod = importlib.import_module('checks.' + pid)
        except ImportError:
            na.append(dict(property_id=pid, reason=NOT_YET))
            continue
        if getattr(mod, 'NOT_APPLICABLE', None):
            na.append(dict(property_id=pid, reason=mod.NOT_APPLICABLE))
            continue
        checks.append(dict(
            property_id=pid,
            quick_cmd='python3-vt run.py check %s --tier quick' % pid,
            thorough_cmd='python3-vt run.py check %s --tier thorough' % pid,
            evidence_file='evidence/%s.json' % pid,
            replay_cmd_template='python3-vt run.py replay {path}',
            engine='pyvc+bounded',
            level_claimed=dict(category=mod.LEVEL, text=mod.LEVEL_TEXT,
                               design_ref=getattr(mod, 'DESIGN_REF', 'DESIGN.md section 3 ' + pid)),
            level_note=mod.LEVEL_NOTE,
            technique=mod.TECHNIQUE))
    man = dict(
        version=1,
        setup_cmd='python3-vt run.py setup',
        hooks=dict(guard='BOLTONS_VERIF', enable='no source hooks: checks read /repo source with ast and '
                   'import the working tree (PYTHONPATH=/repo); nothing is built',
                   baseline_off_cmd='cd /repo && /venv/bin/python -m pytest -ra -q -p no:cacheprovider --timeout=900 --continue-on-collection-errors',
                   source_commits=[], add_only=True),
        engines=[dict(name='pyvc+bounded', path='run.py',
                      serves_properties=[c['property_id'] for c in checks],
                      kind_free_text='pyvc: own VC generator over the real source (ast -> symbolic execution '
                      'with sidecar contracts -> z3/cvc5), plus executable contracts on the real functions driven '
                      'bounded-exhaustively (labelled bounded, never counted as proved)')],
        checks=checks,
        notes='Contract-based deductive verification of the real code; see DESIGN.md. Exit codes: 0 held, '
              '1 violation, 3 checker could not run. VERIF_REPO overrides /repo (self-test only).',
        not_applicable=na)
    with open(os.path.join(HERE, 'MANIFEST.json'), 'w') as f:
        json.dump(man, f, indent=1)
    try:
        import jsonschema
        jsonschema.validate(man, json.load(open('/root/.vp/MANIFEST.schema.json')))
        print('MANIFEST valid: %d checks, %d not_applicable' % (len(checks), len(na)))
    except ImportError:
        print('jsonschema not available; written unvalidated')


if __name__ == '__main__':
    main()
