#!/usr/bin/env python3
"""apply proposed fix diffs to /repo as separate `fix:` commits and record them in known_findings.json"""
import json, os, subprocess, sys
FIX = [
 # (diff, property, commit message, what failed)
 ('C01-1-update-repeated-new-key', 'C01', 'fix: OrderedMultiDict.update keeps every pair of a key repeated in an iterable of pairs', "OMD().update([('a',1),('a',2)]) kept one pair when 'a' was new"),
 ('C01-2-eq-mapping-compares-values', 'C01', 'fix: OrderedMultiDict == plain mapping compares the values, not only the keys', "OMD([('a',1)]) == {'a': 2} was True"),
 ('C01-3-eq-omd-fillvalue', 'C01', 'fix: OrderedMultiDict.__eq__ uses a private fill value when lengths differ', "OMD([(None,'v'),(None,None)]) == OMD([(None,'v')]) was True"),
 ('C01-4-addlist-one-shot-iterable', 'C01', 'fix: OrderedMultiDict.addlist accepts a one-shot iterable', "addlist(k, iter([1,2])) left the value list empty / stores out of step"),
 ('C01-5-popitem', 'C01', 'fix: OrderedMultiDict.popitem keeps the linked list in step with the dict', 'inherited dict.popitem removed the key from the dict only'),
 ('C01-6-reduce-copy-and-pickle', 'C01', 'fix: OrderedMultiDict copy.copy/deepcopy/pickle protocols 0-1 go through the pair-list state', 'copy.copy lost repeated keys; pickle protocol 0/1 of an empty OMD had no root'),
 ('C01-7-update-extend-kwargs', 'C01', 'fix: OrderedMultiDict.update_extend adds its keyword arguments', 'update_extend([], a=2) dropped a=2'),
 ('C01-8-update-extend-self', 'C01', 'fix: OrderedMultiDict.update_extend(self) extends with every pair of a repeated key', 'update_extend(d) on itself appended only the last value of each key'),
 ('C17-1-onetoone-ior', 'C17', 'fix: OneToOne |= updates both directions', 'o |= {1: 2} left o.inv empty'),
 ('C17-2-onetoone-update-one-shot-iterable', 'C17', 'fix: OneToOne.update walks a one-shot iterable once', 'update(iter([(1,2)])) dropped the first pair'),
 ('C17-3-manytomany-replace-existing-key', 'C17', 'fix: ManyToMany.replace onto an existing key merges instead of dropping its values', 'replace(1,3) left stale inverse entries'),
 ('C17-4-manytomany-update-copies-sets', 'C17', 'fix: ManyToMany.update copies the sets of another ManyToMany', 'update(other) aliased the sets of other'),
 ('C05-1-exit-flush-fsync-close-error-leaves-part', 'C05', 'fix: AtomicSaver removes the part file when flush/fsync/close fails on exit', 'OSError in flush/fsync/close left the .part file; retry failed with EEXIST'),
 ('C05-2-setup-error-after-open-leaves-part', 'C05', 'fix: AtomicSaver removes the part file when set_cloexec/fdopen/chmod fails after creating it', 'OSError after os.open left an empty .part file (and a descriptor)'),
 ('C06-1-semicolon-raw-in-query-part', 'C06', "fix: ';' is not safe in a query key or value (parse_qsl splits on it)", "query value ';' rendered raw and split on re-parse"),
 ('C06-2-idna-decode-error-not-urlparseerror', 'C06', 'fix: URL() maps an invalid IDNA host to URLParseError', "URL('http://xn--a.com') raised UnicodeError"),
 ('C06-3-nul-in-host-valueerror', 'C06', 'fix: parse_host maps a NUL in the host to URLParseError', "URL('//\\x00') raised ValueError"),
 ('C06-4-password-dropped-with-empty-username', 'C06', 'fix: URL.get_authority keeps a password when the username is empty', "password ':' with username '' was dropped from the authority"),
 ('C06-5-fragment-stops-at-newline', 'C06', 'fix: the URL regex lets a fragment contain a newline', "fragment '\\n' lost on minimally quoted re-parse"),
 ('C06-6-blank-query-pair-renders-empty', 'C06', "fix: QueryParamDict.to_text keeps '=' for an empty key with no value", "'?a;=' re-rendered as '?a&' then '?a'"),
 ('C06-7-rootless-path-rendered-as-host', 'C06', "fix: URL.to_text does not add '//' before a rootless path", "'http:.' rendered as 'http://.'"),
 ('C07-1-navigate-empty-base-path-merge', 'C07', "fix: URL.navigate merges an empty base path under an authority as '/' (RFC 3986 5.2.3)", "URL('http://a').navigate('.//g') gave http://a/g instead of http://a//g"),
 ('C07-2-navigate-absolute-dest-not-normalized', 'C07', 'fix: URL.navigate normalizes an absolute destination too', "navigate('https://x/./p/') kept the dot segment"),
 ('C07-3-navigate-empty-query-reference', 'C07', "fix: URL.navigate does not inherit the base query for a reference with an empty query ('?')", "URL('http://a?q').navigate('?') kept ?q"),
 ('C07-4-navigate-ipv6-base-loses-brackets', 'C07', 'fix: URL.navigate keeps the brackets of an IPv6 literal host', "URL('http://[::1]/b').navigate('') rendered http://::1/b"),
 ('C08-1-get-path-through-set', 'C08', 'fix: get_path follows research/remap paths through sets by iteration index', "research reported ((0,), 0) under frozenset([0]) but get_path raised PathAccessError"),
 ('C09-1-split-maxsplit-zero', 'C09', 'fix: split/split_iter with maxsplit=0 yields the whole input as one group', 'split(x, maxsplit=0) returned [[src]]'),
 ('C09-2-split-none-maxsplit-leading-separators', 'C09', 'fix: split with sep=None and maxsplit drops separators leading the remainder like str.split', "split(['x', None, None], None, 1) kept [None]"),
 ('C10-1-barrellist-insert-at-end', 'C10', 'fix: BarrelList.insert at or past the end appends to the last sub-list', 'insert(len) with several sub-lists landed at the front of the last sub-list; SortedPriorityQueue mis-ordered'),
 ('C11-1-slice-double-index-translation', 'C11', 'fix: IndexedSet slices translate indexes once', 'IndexedSet(range(9)); remove(2); s[:-6] gave [0,1,3]'),
 ('C11-2-cull-stale-dead-interval', 'C11', 'fix: IndexedSet._cull drops every dead interval covering the culled tail', 'stale dead interval after popping the tail: s[-1] raised, index() off by one'),
 ('C11-3-update-several-operands', 'C11', 'fix: IndexedSet.update with several operands adds their items', 'update(a, b) chained the operands themselves'),
 ('C11-4-intersection-update-operand-count', 'C11', 'fix: IndexedSet.intersection_update with zero or several operands', 'intersection_update(A, B) kept self & (A | B); () emptied the set'),
 ('C11-5-difference-update-operand-count', 'C11', 'fix: IndexedSet.difference_update with zero or several operands', 'difference_update(A, B) removed only self & A & B; () emptied the set'),
 ('C11-6-symmetric-difference-update-repeated-items', 'C11', 'fix: IndexedSet.symmetric_difference_update toggles each distinct item once', 'a repeated item in a list operand toggled twice'),
 ('C11-7-issuperset-repeated-items', 'C11', 'fix: IndexedSet.issuperset no longer compares lengths with a non-set operand', 'issuperset([0,0,0,0]) was False'),
 ('C12-1-read-ns-retry-after-timeout', 'C12', 'fix: NetstringSocket.read_ns puts a partially read message back on Timeout', 'size prefix consumed before a Timeout was lost; retry returned a wrong payload'),
 ('C13-1-add-arg-required-after-defaults', 'C13', 'fix: FunctionBuilder.add_arg inserts a required argument before the defaulted ones', "wraps(f, expected=['c']) on f(a, b=1) gave (a, b, c=1)"),
 ('C13-2-wraps-keeps-missing-docstring', 'C13', 'fix: wraps keeps __doc__ None for a function without a docstring', "wrapper __doc__ was '' instead of None"),
 ('C15-1-backoff-zero-start-small-stop', 'C15', 'fix: backoff default count with start=0 and stop<1', 'backoff(0, 0.5) == [0.0]; backoff(0, 0.1) raised ValueError'),
 ('C16-1-exceptioninfo-empty-message', 'C16', 'fix: ExceptionInfo.get_formatted prints no colon for an empty message', "raise ValueError() formatted as 'ValueError: '"),
 ('C16-2-exception-type-qualname', 'C16', 'fix: tbutils uses the qualified name of nested exception classes', "Outer.Inner formatted as mod.Inner"),
 ('C16-3-unprintable-exception-text', 'C16', 'fix: tbutils prints <exception str() failed> like the interpreter (3.11+)', 'exception whose __str__ raises formatted differently from the interpreter'),
 ('C18-1-spooledstringio-len-keeps-position', 'C18', 'fix: SpooledStringIO.len restores the code-point position', 'len(f) moved tell()'),
 ('C18-2-multifilereader-seek-resets-index', 'C18', 'fix: MultiFileReader.seek(0) resets the member index', "read(2); seek(0); read(1) returned ''"),
 ('C18-3-spooledstringio-readlines-newline-only', 'C18', "fix: SpooledStringIO.readlines splits at '\\n' only, like io.StringIO", "'\\ra' gave ['\\r', 'a']"),
 ('C18-4-spooledstringio-readline-newline-only', 'C18', "fix: SpooledStringIO.readline reads up to '\\n' only, like io.StringIO", "readline on '\\ra' returned '\\r'"),
 ('C19-1-splitlines-unicode-separators', 'C19', 'fix: iter_splitlines line-ending regex uses \\u2028/\\u2029', "'\\x2028' typo split at ' 28' and missed U+2028/U+2029"),
 ('C19-2-reverse-iter-lines-final-flush', 'C19', 'fix: reverse_iter_lines splits the remainder at the start of the file', "b'abc\\n' and b'\\nb' were returned whole"),
 ('C19-3-reverse-iter-lines-honour-encoding', 'C19', 'fix: reverse_iter_lines honours the file or given encoding', "latin-1 text file raised UnicodeDecodeError"),
 ('C02-1-ior-bypasses-ring', 'C02', 'fix: LRI/LRU |= goes through update() (capacity, linked list, lock)', "LRI(max_size=1) |= [('a', 2)] bypassed the ring: c['a'] raised KeyError, len could exceed max_size"),
 ('C02-2-copy-reads-through-lookups', 'C02', 'fix: LRI/LRU.copy copies the ring under the lock instead of looking every key up', 'copy() bumped the source hit_count, reordered an LRU source, copied in dict order and iterated outside the lock'),
 ('C02-3-eq-dict-recursion', 'C02', 'fix: LRI == plain dict no longer recurses', 'LRI() == {} raised RecursionError'),
 ('C02-4-update-kwargs-only', 'C02', 'fix: LRI.update accepts keyword arguments only, like dict.update', 'c.update(a=2) raised TypeError'),
 ('C03-2-len-sees-half-done-eviction', 'C03', 'fix: len(LRI) takes the lock so it never sees a half-done eviction', 'len(c) returned max_size-1 during an evicting insert of another thread'),
]
only = sys.argv[1:] or None
kf_path = '/verif/known_findings.json'
kf = json.load(open(kf_path))
done = {k.get('diff') for k in kf}
for name, prop, msg, what in FIX:
    if only and not any(name.startswith(o) for o in only):
        continue
    if name in done:
        continue
    diff = '/verif/fixes_proposed/%s.diff' % name
    r = subprocess.run(['git', '-C', '/repo', 'apply', '--whitespace=nowarn', diff], capture_output=True, text=True)
    if r.returncode:
        r = subprocess.run(['patch', '-p1', '-s', '-i', diff], cwd='/repo', capture_output=True, text=True)
        if r.returncode:
            print('FAILED to apply', name, r.stdout[-300:], r.stderr[-300:]); subprocess.run(['git', '-C', '/repo', 'checkout', '--', '.']); continue
    files = subprocess.run(['git', '-C', '/repo', 'diff', '--name-only'], capture_output=True, text=True).stdout.split()
    mods = sorted({os.path.basename(f)[:-3] for f in files})
    tests = [t for m in mods for t in __import__('glob').glob('/repo/tests/test_%s*.py' % m)] or ['/repo/tests']
    if 'dictutils' in mods: tests += ['/repo/tests/test_urlutils.py']
    t = subprocess.run(['/venv/bin/python', '-m', 'pytest', '-q', '-x', '-p', 'no:cacheprovider'] + tests, cwd='/repo', capture_output=True, text=True)
    if t.returncode:
        print('TESTS FAIL with', name, t.stdout[-600:]); subprocess.run(['git', '-C', '/repo', 'checkout', '--', '.']); continue
    subprocess.run(['git', '-C', '/repo', 'commit', '-qam', msg], check=True)
    sha = subprocess.run(['git', '-C', '/repo', 'rev-parse', '--short', 'HEAD'], capture_output=True, text=True).stdout.strip()
    kf.append(dict(property=prop, status='fixed', commit=sha, diff=name, what=what,
                   line='fixed: property=%s %s %s' % (prop, sha, what)))
    json.dump(kf, open(kf_path, 'w'), indent=1)
    print('ok', name, sha, t.stdout.strip().splitlines()[-1])
