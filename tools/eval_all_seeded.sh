#!/bin/bash
# regression sweep: every kept seeded change must still be detected by its property's quick check (scratch copies only)
cd "$(dirname "$0")/.."
fail=0
shard=${1:-0}; shards=${2:-1}; i=0      # optional: `eval_all_seeded.sh K N` runs every N-th entry starting at K
for d in seeded/*/; do
  i=$((i+1)); [ $(( (i - 1) % shards )) -eq "$shard" ] || continue
  out=$(python3-vt tools/eval_seeded.py "$d" 2>&1 | python3 -c "
import json,sys
r=json.load(sys.stdin); c=r['checks'][r['property']]
print('%-12s confirmed=%s detected=%s layers=%s exit=%s %ss' % (r['dir'].rstrip('/').split('/')[-1], r.get('confirmed'), r.get('detected'), ','.join(c['layers']), c['exit'], c['wall_s']))")
  echo "$out"
  case "$out" in *"detected=True"*) ;; *) fail=$((fail+1));; esac
done
echo "not detected: $fail"
exit $fail
