#!/usr/bin/env python3
"""Undefined-name scan (python3 tools/undef_names.py): names a function reads as globals that the module never binds.
Failure-reporting branches of the harnesses only run when a check fails - i.e. on a changed tree - so a typo there stays
invisible on the unchanged tree and turns a detection into a crash (exit 3).  No pyflakes in the sandbox: symtable does it."""
import builtins
import os
import symtable
import sys

HERE = os.path.dirname(os.path.dirname(os.path.abspath(__file__)))


def scan(path):
    src = open(path).read()
    try:
        top = symtable.symtable(src, path, 'exec')
    except SyntaxError as e:
        return ['%s: syntax error %s' % (path, e)]
    module_names = {s.get_name() for s in top.get_symbols() if s.is_assigned() or s.is_imported() or s.is_namespace()}
    star = 'import *' in src
    out = []

    def walk(tab):
        for ch in tab.get_children():
            for s in ch.get_symbols():
                n = s.get_name()
                if s.is_referenced() and s.is_global() and not s.is_assigned() and not s.is_imported():
                    if n not in module_names and not hasattr(builtins, n) and n not in ('__file__', '__name__', '__doc__') and not star:
                        out.append('%s:%d: %s reads undefined global %r' % (os.path.relpath(path, HERE), ch.get_lineno(), ch.get_name(), n))
            walk(ch)
    walk(top)
    # module level reads
    for s in top.get_symbols():
        n = s.get_name()
        if s.is_referenced() and not (s.is_assigned() or s.is_imported() or s.is_namespace()) and not hasattr(builtins, n) \
                and n not in ('__file__', '__name__', '__doc__') and not star:
            out.append('%s: module level reads undefined %r' % (os.path.relpath(path, HERE), n))
    return out


def main():
    bad = []
    for sub in ('.', 'bounded', 'refmodels', 'deductive', 'contracts', 'pyvc', 'lib', 'tools', 'selftest', 'checks'):
        d = os.path.join(HERE, sub)
        for fn in sorted(os.listdir(d)):
            if fn.endswith('.py'):
                bad += scan(os.path.join(d, fn))
    print('\n'.join(bad) or 'no undefined names')
    return 1 if bad else 0


if __name__ == '__main__':
    sys.exit(main())
