#!/bin/bash
# run every thorough check in sequence (developer helper; `vp run -- bash tools/run_thorough_all.sh`)
cd "$(dirname "$0")/.."
rc=0
for p in C01 C02 C03 C04 C05 C06 C07 C08 C09 C10 C11 C12 C13 C14 C15 C16 C17 C18 C19 C20; do
  s=$(date +%s)
  python3-vt run.py check $p --tier thorough > /tmp/thorough_$p.out 2>&1
  e=$?
  echo "$p exit=$e $(( $(date +%s) - s ))s $(grep -E "^$p tier=" /tmp/thorough_$p.out | tail -1)"
  grep -E "^(VIOLATION|CHECKER)" /tmp/thorough_$p.out | head -5
  [ $e -ne 0 ] && rc=1
done
exit $rc
