#!/usr/bin/env python3
"""Print the DESIGN.md section 8.5 table from seeded/*/meta.json (python3 tools/gen_matrix.py [--write])."""
import glob
import json
import os
import re
import sys

HERE = os.path.dirname(os.path.dirname(os.path.abspath(__file__)))


def key(d):
    m = re.match(r'(C\d+)-(r(\d)+)?m(\d+)', os.path.basename(d))
    return (m.group(1), int(m.group(3) or 1), int(m.group(4)))


def rows():
    out = []
    for d in sorted(glob.glob(os.path.join(HERE, 'seeded', 'C*')), key=key):
        m = json.load(open(os.path.join(d, 'meta.json')))
        layers = ' + '.join(sorted(m.get('detecting_layers') or [])) or 'MISSED'
        clauses = sorted({v.split('clause=')[1].split(' ')[0] for v in m.get('violations', []) if 'clause=' in v})
        needs = ' '.join(str(m.get('needs_to_manifest', '')).split())[:150].replace('|', '/')
        out.append('| %s | %s | %s | %s |' % (os.path.basename(d), layers, needs, '; '.join(clauses)))
    return out


def main():
    table = ['| seeded change | detected by | needs, in order to manifest | violated clause(s) reported |', '|---|---|---|---|'] + rows()
    if '--write' not in sys.argv:
        print('\n'.join(table))
        return
    p = os.path.join(HERE, 'DESIGN.md')
    lines = open(p).read().split('\n')
    i = next(k for k, l in enumerate(lines) if l.startswith('| seeded change |'))
    j = i
    while j < len(lines) and lines[j].startswith('|'):
        j += 1
    lines[i:j] = table
    open(p, 'w').write('\n'.join(lines))
    print('%d rows written' % (len(table) - 2))


main()
