#!/usr/bin/env python3
"""Mechanical scan for everything that is assumed rather than proved (python3 tools/scan_assumptions.py):
every place in pyvc/, contracts/ and deductive/ that introduces a trusted statement, an axiom, a contract `facts` clause, an
external-call model (handlers registered in an EXTERNALS table assume their own effect) or an explicit assumption text.  The run-time
evidence lists the ones a run actually used; this lists all of them, used or not."""
import os
import re

HERE = os.path.dirname(os.path.dirname(os.path.abspath(__file__)))
PATTERNS = [('trusted statement', re.compile(r"\.trusted\.add\(|ded\.trust\(")),
            ('stated assumption', re.compile(r"assumptions\.add\(|ded\.assume\(")),
            ('axiom', re.compile(r"\('axiom'")),
            ('facts clause (assumed at entry / after calls, never asserted)', re.compile(r"\bfacts\s*=")),
            ('external-call model', re.compile(r"^EXTERNALS\b|^\s*EXTERNALS\[|externals=|'method:[A-Za-z]+\.[a-z_]+'\s*:")),
            ('inline (executed, not a contract)', re.compile(r"inline=True")),
            ('assumed contract on repository or library code (used at call sites, body not verified)', re.compile(r"ASSUMED"))]


def main():
    counts = {}
    for sub in ('pyvc', 'contracts', 'deductive'):
        for fn in sorted(os.listdir(os.path.join(HERE, sub))):
            if not fn.endswith('.py'):
                continue
            path = os.path.join(HERE, sub, fn)
            for i, line in enumerate(open(path), 1):
                for kind, pat in PATTERNS:
                    if pat.search(line):
                        counts[kind] = counts.get(kind, 0) + 1
                        print('%-62s %s/%s:%d  %s' % (kind, sub, fn, i, line.strip()[:110]))
    print()
    for k, v in sorted(counts.items()):
        print('%4d  %s' % (v, k))


if __name__ == '__main__':
    main()
