"""C04/C05 deductive part: every path of AtomicSaver.setup/_open_part_file/__enter__/__exit__/atomic_rename over the ghost
file system of contracts/atomic.py; C04 = crash invariant after every effect + publication obligation + normal-exit post;
C05 = exceptional postconditions under every single and multiple OSError injection, permission selection, refusal."""
from pyvc import driver, front
from lib.core import Obligation
from contracts import atomic as m

C04_LABELS = ('crash invariant', 'publication', 'normal exit', 'no unlink ever', 'only the part path', 'chmod never',
              'rename is', 'link is', 'returns a falsy')
# clauses that matter to both properties (a reused, non-empty part file or a published partial body is a mixed/truncated
# destination for C04 and a broken failure contract for C05)
SHARED_LABELS = ('part path bound to a fresh, empty, open file', 'body raised: destination untouched')


def is_c04(label):
    return any(k in label for k in C04_LABELS)


def keep_c04(p):
    return p.kind in ('cover', 'must-fail') or is_c04(p.label) or any(k in p.label for k in SHARED_LABELS)


def keep_c05(p):
    return p.kind in ('cover', 'must-fail') or not is_c04(p.label)


def run(ded, repo, tier, which):
    targets = [('AtomicSaver.setup', ['perms', 'noperms']), ('AtomicSaver.__enter__', ['perms', 'noperms']),
               ('AtomicSaver.__exit__', ['perms,ok', 'perms,exc'])]
    specs = [dict(module='contracts.atomic', repo=repo, q=q, variant=v, tier=tier,
                  clause_of={'*': 'crash_safety' if which == 'C04' else 'failure_cleanup'},
                  only='fn:deductive.C04:' + ('keep_c04' if which == 'C04' else 'keep_c05'))
             for q, vs in targets for v in vs]
    driver.run_parallel(ded, specs)
    src = front.load(repo, m.FILE)
    ok = m.flags_obligation(src)
    ded.add(Obligation('fileutils: part-file open flags contain O_CREAT|O_EXCL', 'module constants', 'exclusive_create',
                       'finite', 'inapplicable' if ok is None else 'proved' if ok else 'refuted', backend='ast',
                       detail='' if ok else 'O_EXCL/O_CREAT missing from _TEXT_OPENFLAGS/_BIN_OPENFLAGS'))
    ded.trust('POSIX contracts of os.open(O_CREAT|O_EXCL)/write/flush/fsync/close/rename/link/unlink/chmod/stat as stated in contracts/atomic.py; '
              'rename and link are atomic; os.stat fails only for a missing path; directory fsync is not modelled')
    ded.trust('the POSIX branch of atomic_rename/replace is the one under contract (the os.name == "nt" branch is not)')
    ded.trust('PEP 343: __exit__ runs after the body with the body exception, a falsy return re-raises it')
    ded.assume('the with-body touches the files only through the returned part-file object (any number of write/flush, may raise)')
    ded.assume('AtomicSaver.__init__ (option parsing, part path in the same directory as dest) is not under contract: bounded check only')
    ded.assume('part_path != dest_path')
