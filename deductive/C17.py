"""C17 deductive part: OneToOne methods against the mutual-inverse invariant (contracts/oto.py); FrozenDict mutator
closure as a finite obligation on the class text (every dict mutator name is bound to the raising function, whose body
is a single raise TypeError)."""
import ast

from pyvc import driver, front
from lib.core import Obligation
from contracts import oto as m

DICT_MUTATORS = ['__setitem__', '__delitem__', 'update', 'setdefault', 'pop', 'popitem', 'clear', '__ior__']


def frozen_closure(src):
    cls = src.classes.get('FrozenDict')
    if cls is None:
        return None, 'class FrozenDict not found'
    raiser = None
    bound = {}
    for node in cls.body:
        if isinstance(node, ast.FunctionDef):
            body = [s for s in node.body if not (isinstance(s, ast.Expr) and isinstance(s.value, ast.Constant))]
            only_raises = (len(body) == 1 and isinstance(body[0], ast.Raise) and isinstance(body[0].exc, ast.Call)
                           and getattr(body[0].exc.func, 'id', None) == 'TypeError')
            if only_raises:
                raiser = node.name if raiser is None else raiser
                bound[node.name] = node.name if only_raises else None
            else:
                bound[node.name] = None
        elif isinstance(node, ast.Assign) and isinstance(node.value, ast.Name):
            for t in node.targets:
                if isinstance(t, ast.Name):
                    bound[t.id] = node.value.id
    missing = [mname for mname in DICT_MUTATORS if raiser is None or bound.get(mname) != raiser]
    return missing, raiser


def run(ded, repo, tier):
    from contracts import m2m
    specs = [dict(module='contracts.oto', repo=repo, q=q, tier=tier, clause_of={'*': 'onetoone_inverse'}) for q in m.FUNCS]
    specs += [dict(module='contracts.m2m', repo=repo, q=q, tier=tier, timeout=40 if tier == 'quick' else 120,
                   clause_of={'*': 'manytomany_transposed'}) for q in m2m.FUNCS]
    from contracts import m2m_readers
    specs += [dict(module='contracts.m2m_readers', repo=repo, q=q, tier=tier, clause_of={'*': 'manytomany_transposed'})
              for q in m2m_readers.FUNCS]
    driver.run_parallel(ded, specs)
    src = front.load(repo, m.FILE)
    missing, raiser = frozen_closure(src)
    if missing is None:
        ded.add(Obligation('FrozenDict: mutator closure', 'FrozenDict', 'frozendict_immutable', 'closure', 'inapplicable',
                           detail=raiser))
    else:
        ded.add(Obligation('FrozenDict: every dict mutator (%s) is bound to a function whose body only raises TypeError'
                           % ', '.join(DICT_MUTATORS), 'FrozenDict', 'frozendict_immutable', 'closure',
                           'refuted' if missing else 'proved', backend='ast', detail='not blocked: %r' % missing if missing else '',
                           model=dict(missing=missing)))
    ded.assume('keys and values are opaque hashable values with total, side-effect-free ==/hash')
    ded.trust('not under contract (bounded only): OneToOne.__init__/copy/fromkeys/unique (update and |= are under contract: they preserve the invariant for any argument), ManyToMany.__init__/keys/__iter__/__eq__, the completeness and no-repetition half of iteritems, and update() from another ManyToMany (add, remove, __setitem__, __delitem__, replace, update from pairs or a mapping, __contains__, __len__, __getitem__/get - a fresh set holding exactly the values of the key, KeyError / the default exactly for a key without pairs - and the soundness half of iteritems - every yielded item is a pair of the relation - are under contract), FrozenDict.__hash__/updated/copy/pickle')
    ded.assume('ManyToMany.update: the argument is not itself a ManyToMany (type(x) of an opaque value is not the class under verification); '
               'ManyToMany.__setitem__: set(vals) is a fresh set whose members are a function of vals; set difference, in-place difference, '
               'set.update and iteration over a set are encoded pointwise with lengths constrained only by len >= 0 and len == 0 iff empty')
