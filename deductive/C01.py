"""C01 deductive part: the cell-list core of OrderedMultiDict (contracts/omd.py): the three linked-list helpers and
add/__setitem__/__delitem__/popall/clear/__getitem__/get/getlist against the stamp-ordered ring + cell-list + value-list
invariant, with pair-list postconditions (append a pair / replace all pairs of a key / remove all pairs of a key)."""
from pyvc import driver
from contracts import omd as m


def run(ded, repo, tier):
    to = 40 if tier == 'quick' else 120
    specs = [dict(module='contracts.omd', repo=repo, q=q, tier=tier, timeout=to, clause_of={'*': 'linked_list_invariant'})
             for q in m.HELPERS]
    specs += [dict(module='contracts.omd', repo=repo, q=q, variant=v, tier=tier, timeout=to, clause_of={'*': 'pair_list_model'})
              for q, vs in m.PUBLIC for v in vs]
    driver.run_parallel(ded, specs)
    # lemma used by iterkeys(multi=False): M4 for all index pairs, by explicit induction (base and step machine-checked)
    import time
    import z3
    from lib.core import Obligation
    for name, f in m.m4_induction_lemmas():
        t0 = time.time()
        sv = z3.Solver()
        sv.set('timeout', 20000)
        sv.add(z3.Not(f))
        r = sv.check()
        ded.add(Obligation('lemma: %s' % name, 'OrderedMultiDict.iterkeys[single]', 'pair_list_model', 'lemma',
                           'proved' if r == z3.unsat else 'refuted' if r == z3.sat else 'unknown', backend='z3', seconds=time.time() - t0))
    ded.trust('induction principle for the lemma "stamps increase along a cell list for ALL index pairs" (base and step are discharged '
              'obligations; the conclusion is assumed at the entry of iterkeys(multi=False))')
    ded.assume('keys/values are opaque with total, deterministic, side-effect-free ==/hash; the private sentinel _MISSING is never a key or value')
    ded.trust('builtin dict/list models: map + ghost size, (array, length); len(d) == 0 iff d has no key')
    ded.assume('update/update_extend/addlist take opaque arguments (any mapping, OMD or iterable of pairs / values); list(x) of an '
               'opaque iterable is a list whose items are the same at every traversal; the proved postcondition of update and '
               'update_extend is the invariant (they act only through add / []= / del, whose contracts fix each step)')
    ded.trust('not under contract (bounded only): __init__/copy/pickling, == / !=, itervalues, '
              '__iter__, __reversed__ and the derived views (todict, counts, inverted, sorted...), QueryParamDict')
    ded.assume('completeness of the ordered readers is stated as: the walk starts at the oldest and ends at the newest cell, '
               'follows stamp successors, and no live cell lies strictly between two consecutive items; that every pair is '
               'therefore yielded exactly once is a one-line discrete argument that is not mechanised')
