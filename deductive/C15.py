"""C15 deductive part: backoff_iter over the reals (contracts/iterutils_c.py)"""
from pyvc import driver
from contracts import iterutils_c as m

VARIANTS = ['int,nojit', 'int,jit', 'int,true', 'repeat,nojit', 'repeat,jit']


def run(ded, repo, tier):
    driver.run_parallel(ded, [dict(module='contracts.iterutils_c', repo=repo, q='backoff_iter', variant=v, tier=tier,
                                   clause_of={'*': 'backoff_contract'}) for v in VARIANTS])
    ded.assume('float arithmetic is treated as exact real arithmetic (rounding is covered only by the bounded check)')
    ded.assume("count is an int >= 0 or 'repeat' in the proved variants; the default count (math.log/ceil) clause "
               "'last value is stop' is decided by the bounded check only")
    ded.trust('termination of the generator is not proved')
