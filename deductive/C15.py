"""C15 deductive part: backoff_iter over the reals (contracts/iterutils_c.py)"""
from pyvc import driver
from contracts import iterutils_c as m

VARIANTS = ['int,nojit', 'int,jit', 'int,true', 'repeat,nojit', 'repeat,jit']


def run(ded, repo, tier):
    specs = [dict(module='contracts.iterutils_c', repo=repo, q='backoff_iter', variant=v, tier=tier,
                  clause_of={'*': 'backoff_contract'}) for v in VARIANTS]
    specs.append(dict(module='contracts.backoff_default', repo=repo, q='backoff_iter', variant='default', tier=tier,
                      clause_of={'*': 'default_count_last_is_stop'}))
    driver.run_parallel(ded, specs)
    ded.assume('float arithmetic is treated as exact real arithmetic (rounding is covered only by the bounded check)')
    ded.assume("default count (count=None, factor > 1): math.log and math.ceil are given their exact real meaning "
               "(c = ceil(log_f x): f**c >= x > f**(c-1)) and integer powers their defining equations (axioms); the rounding of "
               "the floating-point logarithm is covered by the bounded check only")
    ded.trust('termination of the generator is not proved')
