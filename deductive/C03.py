"""C03 deductive part: guarded-by obligations (contracts/lri_lock.py) on every path of the real LRI/LRU methods."""
from pyvc import driver
from contracts import lri_lock as m


def run(ded, repo, tier):
    specs = [dict(module='contracts.lri_lock', repo=repo, q=q, variant=v, clause_of={'*': 'atomicity'}, tier=tier, only='guard')
             for q, vs in m.targets(repo) for v in vs]
    driver.run_parallel(ded, specs)
    ded.assume('meta-argument (not mechanised): one lock + all protected accesses of an operation inside one critical '
               'section => every schedule is equivalent to a sequential one ordered by lock acquisition; sequential '
               'correctness is C02')
    ded.trust('threading.RLock is a correct re-entrant mutex; the dummy RLock fallback is not in use')
    ded.trust('CPython executes C-level dict methods (len, in, iteration start) atomically w.r.t. other threads for builtin scalar keys')
    ded.assume('counters (hit/miss/soft_miss) are outside the protected state of C03; get() bumps soft_miss_count outside the lock')
    ded.assume('on_miss / opaque arguments do not start threads or touch the cache')
