"""C11 deductive part: IndexedSet._get_real_index / _get_apparent_index (contracts/iset.py)."""
from pyvc import driver
from contracts import iset as m


def run(ded, repo, tier):
    driver.run_parallel(ded, [dict(module='contracts.iset', repo=repo, q=q, tier=tier, clause_of={'*': 'index_translation'})
                              for q in m.FUNCS])
    ded.assume('dead_indices is a sorted list of disjoint, non-empty [start, stop) intervals (the representation invariant of '
               'IndexedSet; its preservation by remove/_add_dead/_cull/_compact is NOT under contract); index >= 0')
    ded.assume('prefix lengths of the dead intervals are non-negative (induction over the interval list not mechanised)')
    ded.trust('not under contract (bounded only): everything else in IndexedSet (tombstone bookkeeping, compaction, set algebra, slices)')
