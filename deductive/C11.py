"""C11 deductive part: IndexedSet._get_real_index / _get_apparent_index and _add_dead (contracts/iset.py)."""
from pyvc import driver
from contracts import iset as m


def run(ded, repo, tier):
    driver.run_parallel(ded, [dict(module='contracts.iset', repo=repo, q=q, tier=tier, clause_of={'*': 'index_translation'})
                              for q in m.FUNCS])
    ded.assume('dead_indices is a sorted list of disjoint, non-empty [start, stop) intervals (the representation invariant of '
               'IndexedSet; _add_dead is proved to preserve it - in the stronger all-pairs form - and to make exactly the slot `start` '
               'dead; its preservation by _cull/_compact and the callers of _add_dead is NOT under contract); index >= 0')
    ded.trust('bisect.bisect_left on a lexicographically sorted list of [start, stop] pairs returns the insertion point')
    ded.assume('_add_dead: start is a live slot (non-negative, inside no dead interval) and stop is omitted, as at its call sites in '
               'remove() and pop(); the clauses labelled wf / representation lemma are auxiliary (a refuted one loses the proof and is '
               'not reported as a violation)')
    ded.assume('prefix lengths of the dead intervals are non-negative (induction over the interval list not mechanised)')
    ded.trust('not under contract (bounded only): everything else in IndexedSet (tombstone bookkeeping, compaction, set algebra, slices)')
