"""C11 deductive part: IndexedSet._get_real_index / _get_apparent_index and _add_dead (contracts/iset.py); the item/slot
representation under add, __contains__, __len__, count, clear, index (contracts/iset_core.py)."""
from pyvc import driver
from contracts import iset as m
from contracts import iset_core as core
from contracts import iset_rm as rm


def run(ded, repo, tier):
    driver.run_parallel(ded, [dict(module='contracts.iset', repo=repo, q=q, tier=tier, clause_of={'*': 'index_translation'})
                              for q in m.FUNCS] +
                        [dict(module='contracts.iset_core', repo=repo, q=q, tier=tier, clause_of={'*': 'list_style_ops'})
                         for q in core.FUNCS] +
                        [dict(module='contracts.iset_rm', repo=repo, q=q, tier=tier, label=q + '[full invariant]',
                              clause_of={'*': 'list_style_ops'}) for q in rm.FUNCS] +
                        [dict(module='contracts.iset_rm', repo=repo, q='IndexedSet.pop', variant=v, tier=tier,
                              clause_of={'*': 'list_style_ops'}) for v in ('last', 'index')] +
                        [dict(module='contracts.iset_real', repo=repo, q='IndexedSet._get_real_index', tier=tier,
                              label='IndexedSet._get_real_index[all-pairs invariant, result not dead]', clause_of={'*': 'index_translation'})])
    ded.assume('pop(index) (contracts/iset_rm.py): index is None, -1 or non-negative (other negative indices are not under contract); '
               'None / -1 / len-1 return the item with the greatest slot, any other index the item in the index-th live slot (through the '
               'contract of _get_real_index verified in contracts/iset_real.py, its loop-index witness existentially quantified at the call); '
               'the key set loses exactly the returned item, the other keys keep their relative order; an IndexError leaves the state '
               'unchanged (WHEN it is raised - index >= len - is not under contract: it needs the count of live slots)')
    ded.trust('ASSUMED contract (not verified) for IndexedSet._cull, used by remove/discard/pop: it may rearrange slots and dead intervals '
              'but keeps the full invariant (I1, I2, sorted disjoint dead intervals, I4 a slot is _MISSING exactly when an interval '
              'covers it, I5 intervals end inside the slot list) and re-establishes I6 (the last slot is live), keeps the key set and the relative order of the keys; its body (negative '
              'indices, slice deletes, compaction through a generator expression) is outside the verified subset and is decided by the '
              'bounded layer only')
    ded.assume('remove/discard/add/clear[full invariant] (contracts/iset_rm.py): the abstract list is the key set of the index map '
               'ordered by slot; remove: exactly the item leaves the key set and all other keys keep their relative order, KeyError '
               '(state untouched) exactly for a non-member; _add_dead is used by its proved contract')
    ded.assume('item/slot representation (contracts/iset_core.py): I1 every key of item_index_map points at the slot of item_list that '
               'holds it, I2 every slot that is not _MISSING holds a key that points back at it; add/clear are proved to preserve it, '
               '_cull/_compact/reverse/sort and the bulk operations are NOT under contract (remove/discard/pop: see the full-invariant contracts); arguments are not the private '
               '_MISSING sentinel; index(): the proved postcondition of _get_apparent_index is restated with its witness existentially '
               'quantified and used by contract')
    ded.assume('dead_indices is a sorted list of disjoint, non-empty [start, stop) intervals (the representation invariant of '
               'IndexedSet; _add_dead is proved to preserve it - in the stronger all-pairs form - and to make exactly the slot `start` '
               'dead; its preservation by _cull/_compact and the callers of _add_dead is NOT under contract); index >= 0')
    ded.trust('bisect.bisect_left on a lexicographically sorted list of [start, stop] pairs returns the insertion point')
    ded.assume('_add_dead: start is a live slot (non-negative, inside no dead interval) and stop is omitted, as at its call sites in '
               'remove() and pop(); the clauses labelled wf / representation lemma are auxiliary (a refuted one loses the proof and is '
               'not reported as a violation)')
    ded.assume('prefix lengths of the dead intervals are non-negative (induction over the interval list not mechanised)')
    ded.trust('not under contract (bounded only): everything else in IndexedSet (compaction and culling, set algebra, slices, iteration, reverse/sort)')
