"""C10 deductive part: BasePriorityQueue against an abstract min-bag backend contract (contracts/pq.py) and
BarrelList._translate_index against the concatenation view (contracts/barrel.py)."""
from pyvc import driver
from contracts import pq, barrel


def run(ded, repo, tier):
    specs = [dict(module='contracts.pq', repo=repo, q=q, tier=tier, clause_of={'*': 'priority_order'}) for q in pq.FUNCS]
    specs.append(dict(module='contracts.barrel', repo=repo, q='BarrelList._translate_index', tier=tier,
                      clause_of={'*': 'index_translation'}))
    driver.run_parallel(ded, specs)
    ded.trust('ASSUMED backend contract (not verified): heapq.heappush/heappop on a list and bisect.insort/pop(0) on a BarrelList '
              'behave as a bag with access to its minimum under list comparison of [priority, count, task]')
    ded.trust('itertools.count yields strictly increasing integers')
    ded.assume('effective priorities are real numbers compared by value (no NaN); tasks are hashable with well-behaved ==')
    ded.assume('prefix sums of non-negative sub-list lengths are non-negative (induction over the list of lists not mechanised)')
    ded.trust('not under contract (bounded only): BarrelList.insert/pop/_balance_list/__getitem__, HeapPriorityQueue/SortedPriorityQueue glue, the two implementations being observationally identical')
