"""Finite exhaustive obligations on the real strutils regexes (C14: shell-inert class; C19: line-break alternation)."""
import importlib
import sys
import time

from lib.core import Obligation

INERT = set('ABCDEFGHIJKLMNOPQRSTUVWXYZabcdefghijklmnopqrstuvwxyz0123456789_@%+=:,./-')
BREAKS = ['\r\n', '\n', '\r', '\x0b', '\x0c', '\x85', '\u2028', '\u2029']


def load(repo, name):
    sys.path.insert(0, repo)
    for m in [k for k in sys.modules if k == 'boltons' or k.startswith('boltons.')]:
        del sys.modules[m]
    try:
        return importlib.import_module(name)
    finally:
        sys.path.remove(repo)


def run_c14(ded, repo, tier):
    t0 = time.time()
    try:
        s = load(repo, 'boltons.strutils')
    except Exception as e:  # noqa
        ded.add(Obligation('strutils: import', 'strutils', 'sh_inert_class', 'finite', 'unknown', detail=repr(e)))
        return
    bad = []
    n = 0
    for cp in range(1, 0x110000):
        if 0xD800 <= cp <= 0xDFFF:
            continue
        ch = chr(cp)
        n += 1
        out = s.args2sh([ch])
        if out == ch and ch not in INERT:          # left unquoted
            bad.append(cp)
        elif out != ch and not (out.startswith("'") or out.startswith('"')):
            bad.append(cp)
    ded.add(Obligation('strutils.args2sh: over all %d code points, a character left unquoted is in the POSIX-inert set' % n,
                       'args2sh', 'sh_inert_class', 'finite', 'refuted' if bad else 'proved',
                       backend='exhaustive(%d)' % n, seconds=time.time() - t0, detail=repr(bad[:8]),
                       model=dict(code_points=bad[:8])))
    ded.trust('finite obligation evaluated on the imported module of the tree under check (complete enumeration)')


def run_c19(ded, repo, tier):
    t0 = time.time()
    try:
        s = load(repo, 'boltons.strutils')
    except Exception as e:  # noqa
        ded.add(Obligation('strutils: import', 'strutils', 'line_break_set', 'finite', 'unknown', detail=repr(e)))
        return
    # over all code points c: 'a'+c+'b' is split iff c is one of the single-character line breaks
    singles = set(b for b in BREAKS if len(b) == 1)
    bad = []
    n = 0
    for cp in range(0, 0x110000):
        if 0xD800 <= cp <= 0xDFFF:
            continue
        ch = chr(cp)
        n += 1
        got = list(s.iter_splitlines('a' + ch + 'b'))
        want = ['a', 'b'] if ch in singles else ['a' + ch + 'b']
        if got != want:
            bad.append(cp)
    ded.add(Obligation('strutils.iter_splitlines: over all %d code points c, "a"+c+"b" splits iff c is a line break' % n,
                       'iter_splitlines', 'line_break_set', 'finite', 'refuted' if bad else 'proved',
                       backend='exhaustive(%d)' % n, seconds=time.time() - t0, detail=repr(bad[:8]),
                       model=dict(code_points=bad[:8])))
    # all pairs of line-break characters: \r\n is one break, every other pair is two
    bad2 = []
    for a in sorted(singles):
        for b in sorted(singles):
            got = list(s.iter_splitlines('x' + a + b + 'y'))
            want = ['x', 'y'] if a + b == '\r\n' else ['x', '', 'y']
            if got != want:
                bad2.append(a + b)
    ded.add(Obligation('strutils.iter_splitlines: all 49 pairs of line-break characters (\\r\\n is a single break)',
                       'iter_splitlines', 'line_break_set', 'finite', 'refuted' if bad2 else 'proved',
                       backend='exhaustive(49)', detail=repr(bad2[:8]), model=dict(pairs=bad2[:8])))
    ded.trust('finite obligation evaluated on the imported module of the tree under check (complete enumeration)')
