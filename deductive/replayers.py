"""Turn the solver's counter-model of a refuted obligation into a concrete call of the REAL function (where the function's
inputs are scalars), so that a deductive VIOLATION carries a replayed failing input.  The snippet asserts the clauses of the
property statement natively; it exits 1 iff the violation reproduces."""
import re
from fractions import Fraction


def _num(txt):
    if txt is None:
        return None
    t = txt.strip()
    if t in ('true', 'false'):
        return t == 'true'
    m = re.fullmatch(r'\(- (.+)\)', t)
    if m:
        v = _num(m.group(1))
        return None if v is None else -v
    m = re.fullmatch(r'\(/ (.+?) (.+?)\)', t)
    if m:
        a, b = _num(m.group(1)), _num(m.group(2))
        return None if a is None or b in (None, 0) else Fraction(a) / Fraction(b)
    try:
        return Fraction(t) if '.' in t else int(t)
    except ValueError:
        return None


CHUNK_RANGES = '''from boltons.iterutils import chunk_ranges
size, chunk, offset, overlap, align = %r, %r, %r, %r, %r
rs = list(chunk_ranges(size, chunk, offset, overlap, align))
stop, step = offset + size, chunk - overlap
print('chunk_ranges', (size, chunk, offset, overlap, align), '->', rs)
assert all(a <= b and b - a <= chunk and offset <= a and b <= stop for a, b in rs), 'range longer than chunk_size / outside the input'
assert not rs or rs[0][0] == offset, 'first range does not start at input_offset'
assert size == 0 or (rs and rs[-1][1] == stop), 'last range does not end at input_offset+input_size'
assert all(rs[j + 1][0] == rs[j][1] - overlap for j in range(len(rs) - 1)), 'a range does not begin overlap_size before the previous end'
assert not align or all(a %% step == 0 for a, b in rs[1:]), 'unaligned start'
'''


def chunk_ranges(model):
    vals = [_num(model.get(n)) for n in ('input_size', 'chunk_size', 'input_offset', 'overlap_size')]
    al = _num(model.get('align'))
    # constants absent from the model are unconstrained: any valid value will do
    dflt = [0, 1, 0, 0]
    vals = [d if v is None else int(v) for v, d in zip(vals, dflt)]
    size, chunk, offset, overlap = vals
    if not (size >= 0 and chunk >= 1 and offset >= 0 and 0 <= overlap < chunk):
        return None
    return CHUNK_RANGES % (size, chunk, offset, overlap, bool(al)), dict(input_size=size, chunk_size=chunk, input_offset=offset,
                                                                        overlap_size=overlap, align=bool(al))


BACKOFF = '''from boltons.iterutils import backoff
start, stop, count, factor = %r, %r, %r, %r
try:
    vals = backoff(start, stop, count=count, factor=factor)
except ValueError as e:
    vals = e
print('backoff', (start, stop, count, factor), '->', vals)
valid = 0 <= start <= stop and stop > 0 and factor >= 1 and count >= 0
if not valid:
    assert isinstance(vals, ValueError), 'invalid parameters accepted'
else:
    assert not isinstance(vals, ValueError), 'valid parameters rejected: %%r' %% (vals,)
    assert len(vals) == count, 'wrong number of values'
    tol = lambda x: 1e-9 * max(1.0, abs(x))
    exp = []
    cur = float(start)
    for i in range(count):
        exp.append(cur)
        cur = 1.0 if cur == 0 else cur * factor
        cur = min(cur, float(stop))
    assert all(abs(a - b) <= tol(b) for a, b in zip(vals, exp)), 'values differ from start, then growth by factor capped at stop: %%r' %% (exp,)
'''


def backoff_iter(model):
    start, stop, factor = (_num(model.get(n)) for n in ('start', 'stop', 'factor'))
    count = _num(model.get('count'))
    if None in (start, stop, factor) or count is None or 'jitter' in model or count > 10000:
        return None
    return BACKOFF % (float(start), float(stop), int(count), float(factor)), dict(start=float(start), stop=float(stop),
                                                                                count=int(count), factor=float(factor))


# ---- functions whose inputs are small structures: the failing input is found by a native small-scope search ---------------------
# (the solver's model of a quantified heap obligation is partial; instead of reconstructing objects from it, every structure
#  up to a small size is tried on the real function and the clauses are asserted natively; exit 1 = a failing input exists)
ISET_COMMON = '''import itertools
from boltons.setutils import IndexedSet
def interval_lists(nslots):
    # every sorted list of disjoint non-empty [a, b) intervals inside 0..nslots (adjacent intervals allowed)
    out = [[]]
    def rec(lo, acc):
        for a in range(lo, nslots):
            for b in range(a + 1, nslots + 1):
                out.append(acc + [[a, b]])
                rec(b, acc + [[a, b]])
    rec(0, [])
    return out
def dead_set(ivs):
    return {x for a, b in ivs for x in range(a, b)}
def mk(ivs):
    s = IndexedSet()
    s.dead_indices[:] = [list(iv) for iv in ivs]
    return s
'''
ISET_ADD_DEAD = ISET_COMMON + '''for ivs in interval_lists(7):
    dead = dead_set(ivs)
    for start in range(0, 8):
        if start in dead:
            continue
        s = mk(ivs)
        try:
            s._add_dead(start)
        except Exception as e:
            print('_add_dead raised', repr(e), 'for dead intervals', ivs, 'start', start); raise SystemExit(1)
        new = s.dead_indices
        ok = all(a < b for a, b in new) and all(new[j][1] <= new[j + 1][0] for j in range(len(new) - 1)) \
            and dead_set(new) == dead | {start}
        if not ok:
            print('dead intervals', ivs, '_add_dead(%d) ->' % start, new); raise SystemExit(1)
'''
ISET_REAL = ISET_COMMON + '''for ivs in interval_lists(7):
    dead = dead_set(ivs)
    live = [x for x in range(0, 12) if x not in dead]
    s = mk(ivs)
    for i, slot in enumerate(live):
        if s._get_real_index(i) != slot:
            print('dead intervals', ivs, '_get_real_index(%d) ->' % i, s._get_real_index(i), 'expected', slot); raise SystemExit(1)
        if s._get_apparent_index(slot) != i:
            print('dead intervals', ivs, '_get_apparent_index(%d) ->' % slot, s._get_apparent_index(slot), 'expected', i); raise SystemExit(1)
'''
RESOLVE = '''import itertools
from boltons.urlutils import resolve_path_parts
for n in range(0, 6):
    for parts in itertools.product(['', '.', '..', 'a', 'b'], repeat=n):
        got = resolve_path_parts(list(parts))
        if any(p in ('.', '..') for p in got):
            print('resolve_path_parts', list(parts), '->', got, ': dot segment left'); raise SystemExit(1)
        if not any(p in ('.', '..') for p in parts) and got != list(parts):
            print('resolve_path_parts', list(parts), '->', got, ': dot-free input changed'); raise SystemExit(1)
'''


BARREL = '''import itertools
from boltons.listutils import BarrelList
for shape in itertools.chain.from_iterable(itertools.product(range(0, 4), repeat=k) for k in range(1, 5)):
    bl = BarrelList()
    vals = iter(range(100))
    bl.lists[:] = [[next(vals) for _ in range(n)] for n in shape]
    flat = [x for sub in bl.lists for x in sub]
    for index in range(-len(flat) - 2, len(flat)):
        li, ri = bl._translate_index(index)
        if index < -len(flat):
            ok = li is None and ri is None
        else:
            ok = li is not None and 0 <= li < len(bl.lists) and 0 <= ri < len(bl.lists[li]) and bl.lists[li][ri] == flat[index]
        if not ok:
            print('sub-list lengths', shape, '_translate_index(%d) ->' % index, (li, ri)); raise SystemExit(1)
'''


def _search(snippet, what):
    return lambda model: (snippet, dict(found_by='native small-scope search on the real function (the solver model is attached)', scope=what))


REPLAYERS = {'chunk_ranges': chunk_ranges, 'backoff_iter': backoff_iter,
             'IndexedSet._add_dead': _search(ISET_ADD_DEAD, 'all dead-interval lists inside 0..7 x every live start'),
             'IndexedSet._get_real_index': _search(ISET_REAL, 'all dead-interval lists inside 0..7 x every live slot below 12'),
             'IndexedSet._get_apparent_index': _search(ISET_REAL, 'all dead-interval lists inside 0..7 x every live slot below 12'),
             'BarrelList._translate_index': _search(BARREL, 'all shapes of <= 4 sub-lists of <= 3 items x every index from -len-2 to len-1'),
             'resolve_path_parts': _search(RESOLVE, 'all lists of <= 5 segments over {"", ".", "..", "a", "b"}')}


def replay_for(function_name, model):
    base = function_name.split('[')[0]
    fn = REPLAYERS.get(base)
    if fn is None:
        return None
    try:
        return fn(model or {})
    except Exception:
        return None
