"""Turn the solver's counter-model of a refuted obligation into a concrete call of the REAL function (where the function's
inputs are scalars), so that a deductive VIOLATION carries a replayed failing input.  The snippet asserts the clauses of the
property statement natively; it exits 1 iff the violation reproduces."""
import re
from fractions import Fraction


def _num(txt):
    if txt is None:
        return None
    t = txt.strip()
    if t in ('true', 'false'):
        return t == 'true'
    m = re.fullmatch(r'\(- (.+)\)', t)
    if m:
        v = _num(m.group(1))
        return None if v is None else -v
    m = re.fullmatch(r'\(/ (.+?) (.+?)\)', t)
    if m:
        a, b = _num(m.group(1)), _num(m.group(2))
        return None if a is None or b in (None, 0) else Fraction(a) / Fraction(b)
    try:
        return Fraction(t) if '.' in t else int(t)
    except ValueError:
        return None


CHUNK_RANGES = '''from boltons.iterutils import chunk_ranges
size, chunk, offset, overlap, align = %r, %r, %r, %r, %r
rs = list(chunk_ranges(size, chunk, offset, overlap, align))
stop, step = offset + size, chunk - overlap
print('chunk_ranges', (size, chunk, offset, overlap, align), '->', rs)
assert all(a <= b and b - a <= chunk and offset <= a and b <= stop for a, b in rs), 'range longer than chunk_size / outside the input'
assert not rs or rs[0][0] == offset, 'first range does not start at input_offset'
assert size == 0 or (rs and rs[-1][1] == stop), 'last range does not end at input_offset+input_size'
assert all(rs[j + 1][0] == rs[j][1] - overlap for j in range(len(rs) - 1)), 'a range does not begin overlap_size before the previous end'
assert not align or all(a %% step == 0 for a, b in rs[1:]), 'unaligned start'
'''


def chunk_ranges(model):
    vals = [_num(model.get(n)) for n in ('input_size', 'chunk_size', 'input_offset', 'overlap_size')]
    al = _num(model.get('align'))
    # constants absent from the model are unconstrained: any valid value will do
    dflt = [0, 1, 0, 0]
    vals = [d if v is None else int(v) for v, d in zip(vals, dflt)]
    size, chunk, offset, overlap = vals
    if not (size >= 0 and chunk >= 1 and offset >= 0 and 0 <= overlap < chunk):
        return None
    return CHUNK_RANGES % (size, chunk, offset, overlap, bool(al)), dict(input_size=size, chunk_size=chunk, input_offset=offset,
                                                                        overlap_size=overlap, align=bool(al))


BACKOFF = '''from boltons.iterutils import backoff
start, stop, count, factor = %r, %r, %r, %r
try:
    vals = backoff(start, stop, count=count, factor=factor)
except ValueError as e:
    vals = e
print('backoff', (start, stop, count, factor), '->', vals)
valid = 0 <= start <= stop and stop > 0 and factor >= 1 and count >= 0
if not valid:
    assert isinstance(vals, ValueError), 'invalid parameters accepted'
else:
    assert not isinstance(vals, ValueError), 'valid parameters rejected: %%r' %% (vals,)
    assert len(vals) == count, 'wrong number of values'
    tol = lambda x: 1e-9 * max(1.0, abs(x))
    exp = []
    cur = float(start)
    for i in range(count):
        exp.append(cur)
        cur = 1.0 if cur == 0 else cur * factor
        cur = min(cur, float(stop))
    assert all(abs(a - b) <= tol(b) for a, b in zip(vals, exp)), 'values differ from start, then growth by factor capped at stop: %%r' %% (exp,)
'''


def backoff_iter(model):
    start, stop, factor = (_num(model.get(n)) for n in ('start', 'stop', 'factor'))
    count = _num(model.get('count'))
    if None in (start, stop, factor) or count is None or 'jitter' in model or count > 10000:
        return None
    return BACKOFF % (float(start), float(stop), int(count), float(factor)), dict(start=float(start), stop=float(stop),
                                                                                count=int(count), factor=float(factor))


REPLAYERS = {'chunk_ranges': chunk_ranges, 'backoff_iter': backoff_iter}


def replay_for(function_name, model):
    base = function_name.split('[')[0]
    fn = REPLAYERS.get(base)
    if fn is None or not model:
        return None
    try:
        return fn(model)
    except Exception:
        return None
