"""C09 deductive part: chunk_ranges against its range-arithmetic contract (contracts/iterutils_c.py)"""
from pyvc import driver
from contracts import iterutils_c as m


def run(ded, repo, tier):
    eng = m.make_engine(repo)
    driver.discharge(ded, eng, 'chunk_ranges', clause_of={'*': 'chunk_ranges'}, tier=tier)
    ded.assume('chunk_ranges parameters are ints (int(value) is the identity); valid parameters = sizes >= 0, '
               'chunk_size >= 1, 0 <= overlap_size < chunk_size')
    ded.assume('integers are mathematical (exact for Python ints)')
