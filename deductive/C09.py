"""C09 deductive part: chunk_ranges against its range-arithmetic contract and unique_iter against "exactly the first occurrence of
each key, in input order" and bucketize against "every element in exactly one bucket, in input order" (contracts/iterutils_c.py)"""
from pyvc import driver
from contracts import iterutils_c as m


def run(ded, repo, tier):
    eng = m.make_engine(repo)
    driver.discharge(ded, eng, 'chunk_ranges', clause_of={'*': 'chunk_ranges'}, tier=tier)
    driver.run_parallel(ded, [dict(module='contracts.unique_c', repo=repo, q='unique_iter', variant=v, tier=tier,
                                   clause_of={'*': 'unique_first_occurrences'}) for v in ('identity', 'callable')] +
                        [dict(module='contracts.unique_c', repo=repo, q='bucketize', variant=v, tier=tier,
                              clause_of={'*': 'bucketize_partition'}) for v in ('plain,nofilter', 'transform,filter')] +
                        [dict(module='contracts.unique_c', repo=repo, q='partition', variant='callable', tier=tier,
                              clause_of={'*': 'bucketize_partition'})])
    ded.assume('chunk_ranges parameters are ints (int(value) is the identity); valid parameters = sizes >= 0, '
               'chunk_size >= 1, 0 <= overlap_size < chunk_size')
    ded.assume('integers are mathematical (exact for Python ints)')
    ded.assume('unique_iter: src is a finite sequence of opaque hashable items that is the same at every traversal; key is None or an '
               'opaque deterministic callable that does not raise (the attribute-name form of key is bounded only); ==/hash of keys '
               'are total and side-effect free')
    ded.assume('bucketize: same assumptions on src; key, value_transform and key_filter are opaque deterministic callables that do not '
               'raise (key is neither a str nor a list: those forms are bounded only); the proved postcondition: every kept item sits '
               'in the bucket of its key at a ghost slot, every bucket slot holds exactly one kept item of that key, slots are in '
               'input order, no bucket is empty')
    ded.trust('not under contract (bounded only): chunked/chunked_iter, windowed/pairwise, split/strip helpers, redundant; partition is proved on top of the bucketize contract for a callable key (True/False as dict keys are '
              'the integers 1/0, as in Python)')
