"""C02 deductive part: LRI/LRU ring helpers and public dict-API methods against the stamp-ordered ring invariant and the
reference-cache postconditions (contracts/lri.py)."""
from pyvc import driver
from contracts import lri as m

CL = {'*': 'reference_cache'}


def run(ded, repo, tier):
    to = 30 if tier == 'quick' else 120
    specs = [dict(module='contracts.lri', repo=repo, q=q, clause_of={'*': 'ring_invariant'}, tier=tier, timeout=to)
             for q in m.HELPERS]
    specs += [dict(module='contracts.lri', repo=repo, q=q, variant=v, clause_of=CL, tier=tier, timeout=to)
              for q, variants in m.PUBLIC for v in variants]
    driver.run_parallel(ded, specs)
    # API closure (finite obligation on the real class text): every dict mutator is overridden, so no inherited C-level
    # mutator can change the dict part behind the ring's back
    from pyvc import front
    from lib.core import Obligation
    from contracts import lri_lock
    src = front.load(repo, m.FILE)
    for meth, ok in lri_lock.closure(src):
        ded.add(Obligation('LRI: dict mutator %s is overridden' % meth, 'LRI', 'api_closure', 'closure',
                           'proved' if ok else 'refuted', backend='ast', detail='' if ok else
                           'dict.%s is inherited unchanged: it mutates the dict part without the linked list / capacity check' % meth,
                           model=dict(method=meth)))
    ded.assume('keys/values are opaque with total, deterministic, side-effect-free ==/hash')
    ded.assume('update/|= arguments are opaque mappings or iterables of pairs whose iteration yields a finite sequence and does not touch the cache')
    ded.assume('on_miss is None or a truthy callable that is deterministic in its argument and does not touch the cache (re-entrant on_miss is covered only by the bounded check)')
    ded.assume('single-threaded execution in C02 (C03 treats schedules)')
    ded.trust('builtin dict model: map + ghost size; len(d) == 0 iff d has no key')
    ded.trust('not under contract (bounded only): LRI.__init__, copy (contents/order of the copy, source unchanged), __eq__, iteration; for update/|= the proved postcondition is invariant + capacity + counters, the exact contents after a bulk update follow from the per-item __setitem__ contract')
