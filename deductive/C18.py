"""C18 deductive part: SpooledBytesIO.write/read/readline/seek/tell/len/getvalue/fileno/rollover against a file-object contract shared by BytesIO and the
temporary file (contracts/spooled.py), MultiFileReader.seek(0) and the sized MultiFileReader.read(amt)."""
from pyvc import driver
from contracts import spooled as m


def run(ded, repo, tier):
    driver.run_parallel(ded, [dict(module='contracts.spooled', repo=repo, q=q, tier=tier, clause_of={'*': 'memory_disk_equivalence'},
                                   cvc5_first=True) for q in m.FUNCS])
    ded.trust('file-object contract (content, position) with read/write/seek/tell/getvalue/close as in io.BytesIO, assumed for '
              'both io.BytesIO and tempfile.TemporaryFile; os.SEEK_SET/CUR/END = 0/1/2')
    ded.trust('os.fstat(f.fileno()).st_size == len(content) for the on-disk file (the preceding seek() flushed its buffer)')
    ded.assume('writes happen at a position <= len(content) (the statement speaks of appending writes)')
    ded.trust('not under contract (bounded only): SpooledStringIO (code-point positions over a UTF-8 buffer), sized readline(n), readlines/'
              'iteration/truncate, the unsized MultiFileReader.read() (a generator expression with side effects)')
    ded.trust('axiom: tl(n) = empty, tl(i) = content_i[pos_i:] ++ tl(i+1) - the recursive definition of "what is left to read from member i on" '
              'is given to the solver as a quantified defining axiom of an uninterpreted function')
    ded.assume('MultiFileReader members are distinct file objects whose positions lie inside their contents; the list `parts` is tracked '
               'through its ghost concatenation (append, join)')
