"""C18 deductive part: SpooledBytesIO.write/read/seek/tell/rollover against a file-object contract shared by BytesIO and the
temporary file (contracts/spooled.py), and MultiFileReader.seek(0)."""
from pyvc import driver
from contracts import spooled as m


def run(ded, repo, tier):
    driver.run_parallel(ded, [dict(module='contracts.spooled', repo=repo, q=q, tier=tier, clause_of={'*': 'memory_disk_equivalence'},
                                   cvc5_first=True) for q in m.FUNCS])
    ded.trust('file-object contract (content, position) with read/write/seek/tell/getvalue/close as in io.BytesIO, assumed for '
              'both io.BytesIO and tempfile.TemporaryFile; os.SEEK_SET/CUR/END = 0/1/2')
    ded.assume('writes happen at a position <= len(content) (the statement speaks of appending writes)')
    ded.trust('not under contract (bounded only): SpooledStringIO (code-point positions over a UTF-8 buffer), readline/readlines/'
              'iteration/len/getvalue/truncate, MultiFileReader.read')
