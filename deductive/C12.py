"""C12 deductive part: BufferedSocket.recv / recv_size / peek / recv_close as conservation equations over a ghost socket
(contracts/bsock.py): every chunking of the stream and every placement of socket timeouts is one symbolic execution."""
from pyvc import driver
from contracts import bsock as m


def run(ded, repo, tier):
    specs = [dict(module='contracts.bsock', repo=repo, q=q, variant=v, tier=tier, timeout=30 if tier == 'quick' else 120,
                  clause_of={'*': 'stream_conservation'}, cvc5_first=True) for q, vs in m.FUNCS for v in vs]
    driver.run_parallel(ded, specs)
    ded.trust('socket contract: recv(n) returns a non-empty prefix (<= n bytes) of the undelivered stream, b"" only at end of stream, '
              'or raises socket.timeout without consuming anything; time.time() is arbitrary; locks are not modelled here')
    ded.assume('bytes are modelled as z3 sequences of characters; size >= 1, recvsize >= 1')
    ded.assume('"same values as when the whole stream arrives at once" follows from conservation + the length clause by prefix '
               'uniqueness (a ++ b == c ++ d and |a| == |c| imply a == c), which is not a separate obligation')
    ded.trust('not under contract (bounded only): recv_until (rolling search offset: the string lemma is undecided by z3/cvc5), '
              'send/sendall/flush/buffer, NetstringSocket')
