"""C12 deductive part: BufferedSocket.recv / recv_size / peek / recv_close as conservation equations over a ghost socket
(contracts/bsock.py): every chunking of the stream and every placement of socket timeouts is one symbolic execution; and
send / sendall / flush / buffer as the conservation equation  wire ++ buffered == everything handed in  under arbitrary
partial sends, timeouts and socket errors."""
from pyvc import driver
from contracts import bsock as m


def run(ded, repo, tier):
    specs = [dict(module='contracts.bsock', repo=repo, q=q, variant=v, tier=tier, timeout=30 if tier == 'quick' else 120,
                  clause_of={'*': 'stream_conservation'}, cvc5_first=True) for q, vs in m.FUNCS for v in vs]
    driver.run_parallel(ded, specs)
    ded.trust('socket contract: recv(n) returns a non-empty prefix (<= n bytes) of the undelivered stream, b"" only at end of stream, '
              'or raises socket.timeout without consuming anything; time.time() is arbitrary; locks are not modelled here')
    ded.assume('bytes are modelled as z3 sequences of characters; size >= 1, recvsize >= 1')
    ded.assume('"same values as when the whole stream arrives at once" follows from conservation + the length clause by prefix '
               'uniqueness (a ++ b == c ++ d and |a| == |c| imply a == c), which is not a separate obligation')
    ded.trust('not under contract (bounded only): recv_until (rolling search offset: the string lemma is undecided by z3/cvc5), '
              'NetstringSocket; the byte count returned by send() is not constrained (not in the statement)')
    ded.trust('socket contract: send(data) puts some prefix data[:k], 0 <= k <= len(data), on the wire and returns k, or raises '
              'socket.timeout / OSError having sent nothing')
    ded.assume('the send buffer (a list of byte strings) is tracked through its ghost concatenation: list.append, lst[:] = [x], '
               'a one-element item store and b"".join([s for s in lst if s]) are encoded by their effect on it; the comprehension '
               'result is a fresh list of unknown items with the same concatenation')
