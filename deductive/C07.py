"""C07 deductive part: resolve_path_parts (dot-free, never un-roots, identity on dot-free input => idempotent)"""
from pyvc import driver
from pyvc.engine import Engine
from contracts import urlutils_c as m


def run(ded, repo, tier):
    driver.run_parallel(ded, [dict(module='contracts.urlutils_c', repo=repo, q='resolve_path_parts', variant=v, tier=tier,
                                   clause_of={'*': 'remove_dot_segments'}, cvc5_first=True, timeout=30 if tier == 'quick' else 120)
                              for v in ['any', 'dotfree']])
    ded.assume('path_parts is a finite sequence of str; idempotence follows from (output dot-free) + (identity on dot-free input) by composition')
    ded.trust('URL.navigate / parse / render are not under contract: the text-level RFC 3986 5.2 equality is decided by the bounded differential only')
