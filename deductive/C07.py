"""C07 deductive part: resolve_path_parts (dot-free, never un-roots, identity on dot-free input => idempotent)"""
from pyvc import driver
from pyvc.engine import Engine
from contracts import urlutils_c as m


def run(ded, repo, tier):
    for v in ['any', 'dotfree']:
        eng = Engine(repo, m.FILE, classes=m.CLASSES, contracts=m.CONTRACTS)
        for c in m.ALL:
            eng.register_class(c)
        driver.discharge(ded, eng, 'resolve_path_parts', clause_of={'*': 'remove_dot_segments'}, tier=tier, variant=v,
                         timeout=30 if tier == 'quick' else 120)
    ded.assume('path_parts is a finite sequence of str; idempotence follows from (output dot-free) + (identity on dot-free input) by composition')
    ded.trust('URL.navigate / parse / render are not under contract: the text-level RFC 3986 5.2 equality is decided by the bounded differential only')
