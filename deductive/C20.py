"""C20 deductive part: ThresholdCounter against the lossy-counting invariant (contracts/tc.py)"""
from pyvc.engine import Engine
from pyvc import driver
from contracts import tc

FUNCS = ['ThresholdCounter.add', 'ThresholdCounter.__getitem__', 'ThresholdCounter.get',
         'ThresholdCounter.__contains__', 'ThresholdCounter.__len__', 'ThresholdCounter.get_common_count',
         'ThresholdCounter.get_uncommon_count', 'ThresholdCounter.itervalues', 'ThresholdCounter.iteritems', 'ThresholdCounter.values',
         'ThresholdCounter.items', 'ThresholdCounter.keys']


def run(ded, repo, tier):
    specs = [dict(module='contracts.tc', repo=repo, q=q, tier=tier, clause_of={'*': 'counts_contract'}) for q in FUNCS]
    specs += [dict(module='contracts.tc', repo=repo, q='ThresholdCounter.update', variant=v, tier=tier,
                   clause_of={'*': 'update_equals_adds'}) for v in ('keys', 'mapping', 'kwargs')]
    driver.run_parallel(ded, specs)
    ded.assume('hash/== of keys are total, deterministic and side-effect free; no NaN keys')
    ded.assume('integers are mathematical (exact for Python ints)')
    ded.assume('int(1/threshold) is the intended floor(1/threshold)')
    ded.assume('update(): the argument is a finite sequence of keys, a dict of key -> int count, or keyword counts; the proved post is invariant + one add() per key (sequence) / count adds per key (inner loop of the mapping form); the exact total for the mapping form (sum of counts) is bounded only')
    ded.trust('not under contract (bounded only): __init__, most_common, elements, get_commonality (itervalues, iteritems, values(), items() and keys() are under contract: every tracked key exactly once, with its tracked count); get_common_count is the sum of the tracked counts as an uninterpreted sum over the keys (no arithmetic facts about the sum), get_uncommon_count is total minus that')
