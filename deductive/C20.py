"""C20 deductive part: ThresholdCounter against the lossy-counting invariant (contracts/tc.py)"""
from pyvc.engine import Engine
from pyvc import driver
from contracts import tc

FUNCS = ['ThresholdCounter.add', 'ThresholdCounter.__getitem__', 'ThresholdCounter.get',
         'ThresholdCounter.__contains__', 'ThresholdCounter.__len__']


def run(ded, repo, tier):
    eng = Engine(repo, tc.FILE, classes=tc.CLASSES, contracts=tc.CONTRACTS)
    for c in tc.ALL:
        eng.register_class(c)
    for q in FUNCS:
        driver.discharge(ded, eng, q, clause_of={'*': 'counts_contract'}, tier=tier)
    ded.assume('hash/== of keys are total, deterministic and side-effect free; no NaN keys')
    ded.assume('integers are mathematical (exact for Python ints)')
    ded.assume('int(1/threshold) is the intended floor(1/threshold)')
