"""C06 finite exhaustive obligations on the real quote tables of boltons.urlutils (imported from the tree under check)."""
import importlib
import sys
import time

from lib.core import Obligation

# characters on which the parser splits at each position (must never be left raw there)
SPLIT = {'userinfo': ':@/?#[]', 'path': '/?#', 'query': '&;=+#', 'fragment': ''}
MAPS = {'userinfo': '_USERINFO_PART_QUOTE_MAP', 'path': '_PATH_PART_QUOTE_MAP', 'query': '_QUERY_PART_QUOTE_MAP',
        'fragment': '_FRAGMENT_QUOTE_MAP'}
UNRESERVED = set('ABCDEFGHIJKLMNOPQRSTUVWXYZabcdefghijklmnopqrstuvwxyz0123456789-._~')
SUBDELIMS = set("!$&'()*+,;=")
LEGAL = {'userinfo': UNRESERVED | SUBDELIMS | set(':'), 'path': UNRESERVED | SUBDELIMS | set(':@'),
         'query': UNRESERVED | SUBDELIMS | set(':@/?'), 'fragment': UNRESERVED | SUBDELIMS | set(':@/?')}


def run(ded, repo, tier):
    t0 = time.time()
    sys.path.insert(0, repo)
    for m in [k for k in sys.modules if k == 'boltons' or k.startswith('boltons.')]:
        del sys.modules[m]
    try:
        u = importlib.import_module('boltons.urlutils')
    except Exception as e:  # noqa
        ded.add(Obligation('urlutils: import', 'urlutils', 'quote_tables', 'finite', 'unknown', detail=repr(e)))
        return
    finally:
        sys.path.remove(repo)
    for pos, name in MAPS.items():
        qm = getattr(u, name, None)
        if qm is None:
            ded.add(Obligation('urlutils.%s: table exists' % name, name, 'quote_tables', 'finite', 'inapplicable'))
            continue
        bad_img, bad_raw_split, bad_raw_illegal, n = [], [], [], 0
        for b in range(256):
            ch = chr(b)
            keys = [k for k in (ch, b, bytes([b])) if k in qm]
            for k in keys:
                n += 1
                img = qm[k]
                if img != ch and img != '%%%02X' % b:
                    bad_img.append((b, img))
                if img == ch and ch in SPLIT[pos]:
                    bad_raw_split.append(ch)
                if img == ch and ch not in LEGAL[pos]:
                    bad_raw_illegal.append(ch)
            if not keys:
                bad_img.append((b, 'missing'))
        sec = time.time() - t0
        ded.add(Obligation('urlutils.%s: every byte maps to itself or its %%XX escape' % name, name, 'quote_tables',
                           'finite', 'refuted' if bad_img else 'proved', backend='exhaustive(256)', seconds=sec,
                           detail=repr(bad_img[:5]), model=dict(bad=bad_img[:5])))
        ded.add(Obligation('urlutils.%s: no character the parser splits on at this position is left raw' % name, name,
                           'separator_not_safe', 'finite', 'refuted' if bad_raw_split else 'proved',
                           backend='exhaustive(256)', seconds=sec, detail=repr(bad_raw_split),
                           model=dict(raw=bad_raw_split)))
        ded.add(Obligation('urlutils.%s: raw characters are legal at this position (RFC 3986)' % name, name,
                           'legal_characters', 'finite', 'refuted' if bad_raw_illegal else 'proved',
                           backend='exhaustive(256)', seconds=sec, detail=repr(bad_raw_illegal),
                           model=dict(raw=bad_raw_illegal)))
    hm = getattr(u, '_HEX_CHAR_MAP', None)
    if hm is not None:
        bad = []
        for a in '0123456789ABCDEFabcdef':
            for b in '0123456789ABCDEFabcdef':
                k = (a + b).encode()
                if hm.get(k) != bytes([int(a + b, 16)]):
                    bad.append(a + b)
        ded.add(Obligation('urlutils._HEX_CHAR_MAP: total over the 484 hex pairs and inverse to %02X', '_HEX_CHAR_MAP',
                           'unquote_table', 'finite', 'refuted' if bad else 'proved', backend='exhaustive(484)',
                           detail=repr(bad[:5])))
    ded.trust('finite obligations are evaluated on the imported module of the tree under check (complete enumeration, no solver)')
