"""Check orchestration: deductive obligations (pyvc) + bounded stand-in, known findings, evidence."""
import hashlib
import json
import os
import subprocess
import sys
import time

VERIF = os.path.dirname(os.path.dirname(os.path.abspath(__file__)))
VENV_PY = '/venv/bin/python'


def repo_path():
    return os.path.realpath(os.environ.get('VERIF_REPO', '/repo'))


def seed():
    try:
        return int(os.environ.get('VERIF_SEED', '0') or 0)
    except ValueError:
        return 0


# ---------------------------------------------------------------------------------------------
# obligations

class Obligation:
    """one named proof obligation generated from the real source of one function.

    kind: 'post' | 'inv' | 'frame' | 'assert' | 'pre-call' | 'loop-init' | 'loop-pres' | 'lemma'
          | 'finite' (exhaustive evaluation over a finite domain) | 'closure' | 'cover' | 'must-fail'
    status: 'proved' | 'refuted' | 'unknown' | 'inapplicable'
    """

    def __init__(self, name, function, clause, kind, status, backend='', seconds=0.0, sha='',
                 detail='', model=None, inductive=False, path=''):
        self.name = name
        self.function = function
        self.clause = clause
        self.kind = kind
        self.status = status
        self.backend = backend
        self.seconds = seconds
        self.sha = sha
        self.detail = detail
        self.model = model
        self.inductive = inductive
        self.path = path

    def to_json(self):
        d = dict(name=self.name, function=self.function, clause=self.clause, kind=self.kind,
                 status=self.status, backend=self.backend, seconds=round(self.seconds, 3),
                 source_sha256=self.sha[:16])
        if self.detail:
            d['detail'] = self.detail[:600]
        if self.path:
            d['path'] = self.path[:300]
        return d


class Deductive:
    """result of the deductive part of one check"""

    def __init__(self):
        self.obligations = []
        self.functions = {}        # qualified name -> dict(sha, dropped=[...], file)
        self.assumptions = []      # text
        self.trusted = []          # trusted base entries
        self.demotions = []        # (function, reason)
        self.vacuity = dict(covers_sat=0, covers_total=0, must_fail_refuted=0, must_fail_total=0)
        self.crosscheck = dict(cases=0, disagreements=0)
        self.failures = []         # confirmed violations: dict(clause, site, wclass, witness, detail, snippet, obligation)
        self.checker_errors = []

    def add(self, ob):
        self.obligations.append(ob)
        return ob

    def assume(self, text):
        if text not in self.assumptions:
            self.assumptions.append(text)

    def trust(self, text):
        if text not in self.trusted:
            self.trusted.append(text)

    def demote(self, function, reason):
        self.demotions.append(dict(function=function, reason=reason[:400]))

    def counts(self):
        real = [o for o in self.obligations if o.kind not in ('cover', 'must-fail')]
        return dict(obligations=len(real),
                    discharged=sum(1 for o in real if o.status == 'proved'),
                    refuted=sum(1 for o in real if o.status == 'refuted'),
                    unknown=sum(1 for o in real if o.status == 'unknown'),
                    inapplicable=sum(1 for o in real if o.status == 'inapplicable'))


# ---------------------------------------------------------------------------------------------
# bounded child

def run_bounded(pid, tier, extra_args=(), timeout=None, script=None):
    """run /verif/bounded/<pid>.py under the test-suite interpreter against the repo tree."""
    script = script or os.path.join(VERIF, 'bounded', pid + '.py')
    if not os.path.exists(script):
        return None
    env = dict(os.environ)
    env['PYTHONPATH'] = repo_path() + os.pathsep + VERIF
    env['VERIF_REPO'] = repo_path()
    env['VERIF_TIER'] = tier
    env['VERIF_SEED'] = str(seed())
    env['PYTHONDONTWRITEBYTECODE'] = '1'
    env['PYTHONHASHSEED'] = '0'
    cmd = [VENV_PY, '-B', script, '--tier', tier, '--seed', str(seed())] + list(extra_args)
    timeout = timeout or (3600 if tier == 'thorough' else 600)
    t0 = time.time()
    try:
        p = subprocess.run(cmd, env=env, cwd=VERIF, capture_output=True, text=True, timeout=timeout)
    except subprocess.TimeoutExpired as e:
        return dict(error='bounded child timed out after %ss' % timeout, stdout=str(e.stdout)[-2000:])
    res = None
    for line in p.stdout.splitlines()[::-1]:
        if line.startswith('RESULT '):
            res = json.loads(line[7:])
            break
    if res is None:
        return dict(error='bounded child produced no RESULT (exit %s)' % p.returncode,
                    stdout=p.stdout[-3000:], stderr=p.stderr[-3000:])
    res['child_wall_s'] = round(time.time() - t0, 2)
    res['child_exit'] = p.returncode
    if p.returncode not in (0,):
        res['error'] = 'bounded child exit %s: %s' % (p.returncode, p.stderr[-1500:])
    return res


def run_snippet(code, timeout=120):
    """run a replay snippet on the current tree; returns (reproduces: bool|None, output)"""
    env = dict(os.environ)
    env['PYTHONPATH'] = repo_path() + os.pathsep + VERIF
    env['VERIF_REPO'] = repo_path()
    env['PYTHONDONTWRITEBYTECODE'] = '1'
    try:
        p = subprocess.run([VENV_PY, '-B', '-c', code], env=env, cwd=VERIF, capture_output=True,
                           text=True, timeout=timeout)
    except subprocess.TimeoutExpired:
        return None, 'timeout'
    out = (p.stdout + p.stderr)[-3000:]
    if p.returncode == 0:
        return False, out
    if p.returncode == 1:
        return True, out
    return None, out


# ---------------------------------------------------------------------------------------------
# known findings

def load_known():
    path = os.path.join(VERIF, 'known_findings.json')
    if not os.path.exists(path):
        return []
    with open(path) as f:
        return json.load(f)


def match_known(pid, failure, known):
    for k in known:
        if k.get('status') != 'known' or k.get('property') != pid:
            continue
        key = k.get('key', {})
        if (key.get('clause') == failure.get('clause') and key.get('site') == failure.get('site')
                and key.get('wclass') == failure.get('wclass')):
            return k
    return None


# ---------------------------------------------------------------------------------------------
# replay files

def write_replay(pid, failure, extra=None):
    os.makedirs(os.path.join(VERIF, 'replays'), exist_ok=True)
    tag = '%s|%s|%s' % (failure.get('clause'), failure.get('site'), failure.get('wclass'))
    h = hashlib.sha256(tag.encode()).hexdigest()[:10]
    path = os.path.join(VERIF, 'replays', '%s-%s.json' % (pid, h))
    doc = dict(property=pid, clause=failure.get('clause'), site=failure.get('site'),
               wclass=failure.get('wclass'), witness=failure.get('witness'),
               detail=failure.get('detail'), snippet=failure.get('snippet'),
               obligation=failure.get('obligation'), solver_output=failure.get('solver_output'),
               confirmed=failure.get('confirmed'), repo=repo_path(), extra=extra)
    with open(path, 'w') as f:
        json.dump(doc, f, indent=1, default=repr)
    return path


# ---------------------------------------------------------------------------------------------
# evidence

def write_evidence(pid, tier, level, coverage, assumptions, wall_s, violations):
    # evidence of the registered checks is only ever written from runs against /repo itself; self-test runs against a
    # scratch copy (VERIF_REPO) go to an ignored directory
    sub = 'evidence' if repo_path() == os.path.realpath('/repo') else os.path.join('replays', 'scratch-evidence')
    os.makedirs(os.path.join(VERIF, sub), exist_ok=True)
    doc = dict(property_id=pid, tier=tier, seed=seed(), level=level, coverage=coverage,
               assumptions=assumptions, wall_s=round(wall_s, 2), violations=violations)
    path = os.path.join(VERIF, sub, pid + '.json')
    tmp = path + '.tmp'
    with open(tmp, 'w') as f:
        json.dump(doc, f, indent=1, default=repr)
    os.replace(tmp, path)
    return path


def file_sha(path):
    with open(path, 'rb') as f:
        return hashlib.sha256(f.read()).hexdigest()
