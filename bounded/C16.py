"""C16 bounded stand-in: tbutils.ParsedException round trip and TracebackInfo/ExceptionInfo vs the traceback module.

Part A (texts).  A text is rendered here from (frames, type name, message) in the interpreter's format
  Traceback (most recent call last):\n  File "<path>", line <n>, in <func>\n[    <source>\n[    <markers>\n]]...<type>[: <message>]
and the contract of ParsedException is:
  parse_total               from_string(text) does not raise
  recovers_frames           frame i has filepath / lineno / funcname / source_line ('' or None when absent) of the model
  recovers_type_and_message exc_type / exc_msg equal the model's
  to_string_reproduces_text to_string() == text (position-marker lines, which to_string documents it never emits, removed)
  (also parsed with one trailing newline, as the interpreter prints it).  Out of scope by design (DESIGN.md C16): a source
  line that itself looks like a frame line (inherently ambiguous in this format).
Part B (live).  Exceptions raised through generated call chains (function, lambda, method, generator, exec'd code) are
  compared with the stdlib:  traceback.extract_tb / format_tb / format_exception / format_exception_only, marker lines
  (~~~^^^) removed, one trailing newline not significant:
  frames_equal_stdlib            TracebackInfo.from_traceback frames, ExceptionInfo.to_dict()['exc_tb'] frames
  formatted_equals_interpreter   TracebackInfo.get_formatted, ExceptionInfo.get_formatted, print_exception,
                                 format_exception_only
  parse_live_text                ParsedException.from_string(real interpreter text) recovers extract_tb's fields
"""
import io
import itertools
import os
import shutil
import sys
import tempfile
import traceback
import functools

sys.path.insert(0, os.path.dirname(os.path.dirname(os.path.abspath(__file__))))
from bounded.harness import Harness, main_wrapper  # noqa: E402

from boltons import tbutils  # noqa: E402
from boltons.tbutils import ParsedException, TracebackInfo, ExceptionInfo  # noqa: E402

HEAD = 'Traceback (most recent call last):'
PATHS = ['/a/b.py', '/a dir/b c.py', '/a/"q".py', '/\xfc/\xf1\u4e2d.py']
FUNCS = ['f', '<module>', '<lambda>']
SRCS = [None, 'x = g(1)']
SRCS_X = ['return d["k: v"]', 'File = open("p", line)', 'raise E("in f")']
TYPES = ['E', 'a.b.E']
MSGS = [('empty message', ''), ('one-line message', 'boom'), ('message containing ": "', 'k: v'),
        ('two-line message', 'l1\nl2'), ('message with a line that looks like a frame', 'l1\n  File "x.py", line 1, in f'),
        ('message with an interior line that looks like an "Exception ... ignored" note', 'l1\nException in f ignored\nl3')]
MSGS_X = [('message with trailing blanks', 'boom  '), ('message with an indented and a blank line', 'l1\n\n    l3'),
          ('message that looks like a marker line', '^^^')]
LINENOS = [7, 42, 1234]
MARK = '~~^^^'


def render(frames, tname, msg):
    """-> (text as the interpreter prints it without the final newline, same without marker lines)"""
    full, bare = [HEAD], [HEAD]
    for i, (path, func, src, mark) in enumerate(frames):
        fl = '  File "%s", line %d, in %s' % (path, LINENOS[i], func)
        full.append(fl)
        bare.append(fl)
        if src is not None:
            full.append('    ' + src)
            bare.append('    ' + src)
            if mark:
                full.append('    ' + MARK)
    last = tname + (': ' + msg if msg else '')
    return '\n'.join(full + [last]), '\n'.join(bare + [last])


def fkind(fr, last):
    k = 'without source line' if fr[2] is None else 'with source and marker line' if fr[3] else 'with source line'
    return 'frame %s%s' % (k, ' (last frame)' if last else '')


def check_text(H, frames, tname, mlabel, msg, newline):
    text, bare = render(frames, tname, msg)
    given = text + ('\n' if newline else '')
    site = 'ParsedException.from_string'
    snip = 'from boltons.tbutils import ParsedException\ntext = %r\npe = ParsedException.from_string(text)\n' % given
    H.ev(key=given, nontrivial=bool(frames or msg), part='texts', sample=given)
    ok, pe = H.guard(lambda: ParsedException.from_string(given), 'parse_total', site,
                     ('zero frames' if not frames else fkind(frames[-1], True)) + '; ' + mlabel, given, snip)
    if not ok:
        return
    got = list(getattr(pe, 'frames', None) or [])
    want = [dict(filepath=p, lineno=LINENOS[i], funcname=fn, source_line=s or '') for i, (p, fn, s, m) in enumerate(frames)]

    def norm(d):
        try:
            return dict(filepath=d.get('filepath'), lineno=int(d.get('lineno')), funcname=d.get('funcname'),
                        source_line=d.get('source_line') or '')
        except Exception:
            return d
    gotn = [norm(d) for d in got]
    if gotn != want:
        i = next((j for j in range(min(len(gotn), len(want))) if gotn[j] != want[j]), min(len(gotn), len(want)))
        wcl = fkind(frames[i], i == len(frames) - 1) if i < len(frames) else 'extra frame parsed out of: ' + mlabel
        H.fail('recovers_frames', site, wcl, given, 'parsed frames %r, the text has %r' % (gotn, want),
               snip + 'assert [(f["filepath"], int(f["lineno"]), f["funcname"], f["source_line"] or "") for f in pe.frames] == %r, pe.frames\n'
               % [(w['filepath'], w['lineno'], w['funcname'], w['source_line']) for w in want])
    if (pe.exc_type, pe.exc_msg or '') != (tname, msg):
        H.fail('recovers_type_and_message', site, mlabel + ('' if frames else ', zero frames'), given,
               'parsed (%r, %r), the text has (%r, %r)' % (pe.exc_type, pe.exc_msg, tname, msg),
               snip + 'assert (pe.exc_type, pe.exc_msg or "") == %r, (pe.exc_type, pe.exc_msg)\n' % ((tname, msg),))
    ok, out = H.guard(pe.to_string, 'to_string_reproduces_text', 'ParsedException.to_string', 'to_string raises', given, snip + 'pe.to_string()\n')
    if ok and out != bare:
        bad = next((fr for fr in frames if fr[2] is None), None)
        wcl = mlabel if gotn == want and (pe.exc_type, pe.exc_msg or '') != (tname, msg) else \
            (fkind(bad, False) if bad else 'frames with source lines' if frames else 'zero frames')
        H.fail('to_string_reproduces_text', 'ParsedException.to_string', wcl, given, 'to_string() -> %r, expected %r' % (out, bare),
               snip + 'assert pe.to_string() == %r, pe.to_string()\n' % bare)


def part_texts(H):
    kinds = [(s, m) for s in SRCS for m in ((0, 1) if s is not None else (0,))]       # 3 frame kinds
    full = [(p, f, s, m) for p in PATHS for f in FUNCS for (s, m) in kinds]           # 36 frame variants
    small = [(p, f, s, m) for (p, f) in zip(PATHS, FUNCS + FUNCS[:1]) for (s, m) in kinds]   # 12
    msgs = MSGS + (MSGS_X if H.thorough else [])
    for n in range(4):
        alpha = full if (n <= 2 or H.thorough) else small
        for frames in itertools.product(alpha, repeat=n):
            if H.out_of_time(0.6):
                H.note_truncated('text enumeration stopped by the time budget at %d frames' % n)
                return
            for tname in TYPES:
                for mlabel, msg in msgs:
                    check_text(H, frames, tname, mlabel, msg, False)
                    if n <= 1 or H.thorough:
                        check_text(H, frames, tname, mlabel, msg, True)
    # extended alphabets (source lines containing ': ', 'File', 'in f'; special paths) on <= 2 frames
    xs = [(p, 'f', s, m) for p in ['<string>', '<frozen importlib._bootstrap>', 'C:\\a\\b.py'] + PATHS[:1]
          for s in SRCS + SRCS_X for m in ((0, 1) if s else (0,))]
    for n in (1, 2):
        for frames in itertools.product(xs, repeat=n):
            for mlabel, msg in MSGS[1:3] + MSGS_X:
                check_text(H, frames, 'E', mlabel, msg, False)


CHAIN_SRC = '''\
class Boom(Exception):
    pass
class Outer:
    class Inner(Exception):
        pass
class BadStr(Exception):
    def __str__(self):
        raise RuntimeError('no str')
def link_func(nxt):
    return nxt()
link_lambda = lambda nxt: nxt()
class K:
    def method(self, nxt):
        return nxt()
link_method = K().method
def link_gen(nxt):
    def gen():
        yield nxt()
    for x in gen():
        return x
def link_exec(nxt):
    exec(compile('nxt()', '<c16-exec>', 'exec'), {'nxt': nxt})
def raise_plain(exc):
    raise exc
def raise_exec(exc):
    exec(compile('raise exc', '<c16-exec>', 'exec'), {'exc': exc})
def raise_indented(exc):
    if exc is not None:
        for _ in (1,):
            raise    exc  # deeper indentation, inner blanks, trailing comment
def recurse(n, nxt):
    if n:
        return recurse(n - 1, nxt)
    return nxt()
'''
EXCS = [('one-line message', 'ValueError("plain message")'), ('empty message', 'ValueError()'),
        ('KeyError (repr message)', 'KeyError("k: v")'), ('exception class in a module, two-line message', 'M.Boom("line1\\nline2")'),
        ('nested exception class', 'M.Outer.Inner("nested")'), ('exception whose __str__ raises', 'M.BadStr()')]


def strip_markers(text):
    out = []
    for ln in text.split('\n'):
        s = ln.strip()
        if s and set(s) <= set('~^') and out and out[-1].startswith('    '):
            continue
        out.append(ln)
    return '\n'.join(out)


def nl(s):
    return s[:-1] if s.endswith('\n') else s


LIVE_SNIP = '''import sys, io, traceback
from boltons import tbutils
class Outer:
    class Inner(Exception): pass
class BadStr(Exception):
    def __str__(self): raise RuntimeError()
class Boom(Exception): pass
class M: Outer = Outer; BadStr = BadStr; Boom = Boom
def rec(n, e):
    if n: return rec(n - 1, e)
    raise e
def strip(t):
    out = []
    for ln in t.split('\\n'):
        if ln.strip() and set(ln.strip()) <= set('~^') and out and out[-1].startswith('    '): continue
        out.append(ln)
    return '\\n'.join(out)
try:
    rec(%d, %s)
except Exception:
    et, ev, tb = sys.exc_info()
std = strip(''.join(traceback.format_exception(et, ev, tb)))
f = io.StringIO(); tbutils.print_exception(et, ev, tb, file=f)
got = dict(ei=tbutils.ExceptionInfo.from_exc_info(et, ev, tb).get_formatted(), pe=f.getvalue(),
           tbi=tbutils.TracebackInfo.from_traceback(tb).get_formatted() + std.rstrip('\\n').split('\\n')[-1],
           feo=std[:std.rstrip('\\n').rfind('\\n') + 1] + ''.join(tbutils.format_exception_only(et, ev)))[%r]
assert got.rstrip('\\n') == std.rstrip('\\n'), got
'''


def check_live(H, M, chain, raiser, elabel, esrc):
    exc = eval(esrc, {'M': M})
    call = functools.partial(getattr(M, raiser), exc)
    for link in reversed(chain):
        call = functools.partial(M.recurse, link[1], call) if isinstance(link, tuple) else functools.partial(getattr(M, link), call)
    try:
        call()
        return
    except Exception:
        et, ev, tb = sys.exc_info()
    witness = 'chain %s -> %s raising %s' % (' -> '.join(map(str, chain)) or '(direct)', raiser, esrc)
    H.ev(key=witness, nontrivial=True, part='live', sample=witness)
    std_frames = [(f.filename, f.lineno, f.name, f.line or '') for f in traceback.extract_tb(tb)]
    runs = [len(list(g)) for _, g in itertools.groupby(std_frames)]
    repeated = max(runs) > 3        # the interpreter folds these: '[Previous line repeated N more times]'
    fclass = 'a frame line repeated more than 3 times in a row' if repeated else 'call chain without such repetition'

    def snip(which):
        return LIVE_SNIP % (5 if repeated else 0, esrc, which)
    std_tb = strip_markers(HEAD + '\n' + ''.join(traceback.format_tb(tb)))
    raw = ''.join(traceback.format_exception(et, ev, tb))
    std = strip_markers(raw)
    std_eo = traceback.format_exception_only(et, ev)
    assert std.startswith(std_tb)
    # frames
    ok, tbi = H.guard(lambda: TracebackInfo.from_traceback(tb), 'frames_equal_stdlib', 'TracebackInfo.from_traceback', fclass + '; raises', witness)
    tb_txt = None
    if ok:
        ok2, fr = H.guard(lambda: [(c.module_path, c.lineno, c.func_name, str(c.line or '').strip()) for c in tbi.frames],
                          'frames_equal_stdlib', 'TracebackInfo.from_traceback', fclass + '; reading a frame raises', witness)
        if ok2:
            H.check(fr == std_frames, 'frames_equal_stdlib', 'TracebackInfo.from_traceback', fclass, witness,
                    'frames %r, traceback.extract_tb %r' % (fr, std_frames))
        ok3, tb_txt = H.guard(tbi.get_formatted, 'formatted_equals_interpreter', 'TracebackInfo.get_formatted', fclass + '; raises', witness)
        if ok3:
            H.check(tb_txt == std_tb, 'formatted_equals_interpreter', 'TracebackInfo.get_formatted', fclass, witness,
                    'got %r, interpreter %r' % (tb_txt, std_tb), snip('tbi'))
    tb_bad = tb_txt != std_tb
    # exception only
    ok, eo = H.guard(lambda: tbutils.format_exception_only(et, ev), 'formatted_equals_interpreter', 'format_exception_only', elabel + '; raises', witness)
    eo_bad = not ok or list(eo) != std_eo
    if ok:
        H.check(not eo_bad, 'formatted_equals_interpreter', 'format_exception_only', elabel, witness,
                'got %r, interpreter %r' % (eo, std_eo), snip('feo'))
    # whole texts: a wrong frames part that is just TracebackInfo's text (reported above) and a wrong exception line that
    # is just format_exception_only's (reported above) are not reported a second time under another site
    def whole(site, txt, key, eo_text=None):
        if nl(txt) == nl(std):
            return
        if txt.startswith(std_tb):
            rest, ref = txt[len(std_tb):], std[len(std_tb):]
        elif tb_bad and tb_txt is not None and txt.startswith(tb_txt):
            rest, ref = txt[len(tb_txt):], std[len(std_tb):]
        else:
            H.fail('formatted_equals_interpreter', site, fclass, witness, 'got %r, interpreter %r' % (txt, std), snip(key))
            return
        if nl(rest) != nl(ref) and not (eo_bad and rest == eo_text):
            H.fail('formatted_equals_interpreter', site, elabel, witness, 'exception part %r, interpreter %r' % (rest, ref), snip(key))
    ok, ei = H.guard(lambda: ExceptionInfo.from_exc_info(et, ev, tb), 'formatted_equals_interpreter', 'ExceptionInfo.from_exc_info', elabel + '; raises', witness)
    if ok:
        ok, txt = H.guard(ei.get_formatted, 'formatted_equals_interpreter', 'ExceptionInfo.get_formatted', elabel + '; raises', witness)
        if ok:
            whole('ExceptionInfo.get_formatted', txt, 'ei')
        ok, d = H.guard(lambda: ei.to_dict()['exc_tb']['frames'], 'frames_equal_stdlib', 'ExceptionInfo.to_dict', fclass + '; raises', witness)
        if ok:
            fr = [(c.get('module_path'), c.get('lineno'), c.get('func_name'), str(c.get('line') or '').strip()) for c in d]
            H.check(fr == std_frames, 'frames_equal_stdlib', 'ExceptionInfo.to_dict', fclass, witness,
                    'frames %r, traceback.extract_tb %r' % (fr, std_frames))
    buf = io.StringIO()
    ok, _ = H.guard(lambda: tbutils.print_exception(et, ev, tb, file=buf), 'formatted_equals_interpreter', 'print_exception', elabel + '; raises', witness)
    if ok:
        whole('print_exception', buf.getvalue(), 'pe', ''.join(eo) if isinstance(eo, list) else None)
    # the interpreter's own text (with marker lines) through the parser
    if not repeated:
        ok, pe = H.guard(lambda: ParsedException.from_string(raw), 'parse_live_text', 'ParsedException.from_string', 'live interpreter text; raises', raw)
        if ok:
            try:
                fr = [(f['filepath'], int(f['lineno']), f['funcname'], f.get('source_line') or '') for f in pe.frames]
            except Exception as e:
                fr = repr(e)
            last = pe.exc_type + (': ' + pe.exc_msg if pe.exc_msg else '')
            H.check(fr == std_frames and last == nl(''.join(std_eo)), 'parse_live_text', 'ParsedException.from_string',
                    'live interpreter text', raw, 'parsed frames %r exception %r; extract_tb %r, format_exception_only %r' % (fr, last, std_frames, std_eo))


def part_live(H, tmp):
    path = os.path.join(tmp, 'c16_chain.py')
    with open(path, 'w', encoding='utf-8') as f:
        f.write(CHAIN_SRC)
    sys.path.insert(0, tmp)
    try:
        import c16_chain as M
    finally:
        sys.path.remove(tmp)
    links = ['link_func', 'link_lambda', 'link_method', 'link_gen', 'link_exec']
    raisers = ['raise_plain', 'raise_exec', 'raise_indented']
    maxd = 5 if H.thorough else 4
    for d in range(1, maxd + 1):
        for chain in itertools.product(links, repeat=d - 1):
            if H.out_of_time(0.9):
                H.note_truncated('live chain enumeration stopped by the time budget at depth %d' % d)
                return
            for raiser in (raisers if (d <= 3 or H.thorough) else raisers[:2]):
                for elabel, esrc in EXCS:
                    check_live(H, M, chain, raiser, elabel, esrc)
    # recursion: the interpreter folds a line repeated more than 3 times (n+1 frames of `recurse`)
    for n in (2, 3, 5, 8):
        for chain in [((('rec', n)),), ('link_func', ('rec', n)), (('rec', n), 'link_exec')]:
            check_live(H, M, chain, 'raise_plain', EXCS[0][0], EXCS[0][1])


def part_edited_source(H, tmp):
    """a module file that is edited and reloaded between two exceptions: the source text shown must be the CURRENT one, as
    in the traceback module (which re-validates its line cache on every rendering)"""
    import importlib
    import time as _time
    path = os.path.join(tmp, 'c16_edit.py')
    body = 'def boom(x):\n    y = x + %d  # version %d\n    raise ValueError(\'v%d\')  # marker %d\n'
    sys.path.insert(0, tmp)
    try:
        M = None
        for version in (1, 2, 3):
            with open(path, 'w', encoding='utf-8') as f:
                f.write(('# pad\n' * version) + body % (version, version, version, version))
            os.utime(path, (_time.time() + version * 10, _time.time() + version * 10))
            importlib.invalidate_caches()
            M = importlib.import_module('c16_edit') if M is None else importlib.reload(M)
            try:
                M.boom(1)
            except ValueError:
                et, ev, tb = sys.exc_info()
            witness = 'module file rewritten and reloaded, version %d' % version
            # boltons renders FIRST: the traceback module re-validates the shared line cache as a side effect
            ok, ei = H.guard(lambda: tbutils.ExceptionInfo.from_exc_info(et, ev, tb), 'frames_equal_traceback_module',
                             'ExceptionInfo.from_exc_info', 'source file edited and reloaded between exceptions; raises', witness)
            H.ev(key=('edited', version), nontrivial=True, part='live_edited', sample=witness)
            if not ok:
                continue
            ok1, fr = H.guard(lambda: [(c.module_path, c.lineno, c.func_name, str(c.line).strip()) for c in ei.tb_info.frames],
                              'frames_equal_traceback_module', 'ExceptionInfo.from_exc_info',
                              'source file edited and reloaded between exceptions; reading frames raises', witness)
            ok2, txt = H.guard(lambda: ei.get_formatted(), 'formatted_equals_interpreter', 'ExceptionInfo.get_formatted',
                               'source file edited and reloaded between exceptions; raises', witness)
            std = [(f.filename, f.lineno, f.name, (f.line or '').strip()) for f in traceback.extract_tb(tb)]
            if ok1:
                H.check(fr == std, 'frames_equal_traceback_module', 'ExceptionInfo.from_exc_info',
                        'source file edited and reloaded between exceptions', witness, 'frames %r, traceback.extract_tb %r' % (fr, std))
            if ok2:
                want = strip_markers(''.join(traceback.format_exception(et, ev, tb)))
                H.check(txt.rstrip('\n') == want.rstrip('\n'), 'formatted_equals_interpreter', 'ExceptionInfo.get_formatted',
                        'source file edited and reloaded between exceptions', witness, 'got %r, interpreter %r' % (txt, want))
    finally:
        sys.path.remove(tmp)
        sys.modules.pop('c16_edit', None)


def part_loader_source(H):
    """frames whose code is not a file on disk: the source is reachable only through the PEP 302 loader of the namespace the
    code runs in (__loader__.get_source), as for zip imports, plugin systems and templating engines.  The traceback module
    consults that loader; boltons, asked FIRST on an empty line cache, must show the same source text."""
    import importlib.machinery
    import linecache
    src = 'def inner(x):\n    return 1 // x  # virtual source\n\ndef outer(x):\n    return inner(x) + 1\n'

    class VirtualLoader:
        def get_source(self, name):
            return src
    for kind in ('__loader__ only', '__loader__ and __spec__', 'no loader at all'):
        name = 'c16_virtual_%d' % len(kind)
        fname = '/nonexistent/c16 virtual/%s.py' % name
        ns = {'__name__': name}
        if kind != 'no loader at all':
            ns['__loader__'] = VirtualLoader()
        if kind == '__loader__ and __spec__':
            ns['__spec__'] = importlib.machinery.ModuleSpec(name, ns['__loader__'])
        exec(compile(src, fname, 'exec'), ns)
        linecache.clearcache()
        try:
            ns['outer'](0)
        except ZeroDivisionError:
            et, ev, tb = sys.exc_info()
        witness = 'code exec\'d under a file name that does not exist, namespace with %s' % kind
        wc = 'source available only through the namespace loader (%s)' % kind
        H.ev(key=('loader', kind), nontrivial=True, part='live_loader', sample=witness)
        ok, ei = H.guard(lambda: tbutils.ExceptionInfo.from_exc_info(et, ev, tb), 'frames_equal_traceback_module',
                         'ExceptionInfo.from_exc_info', wc + '; raises', witness)
        if not ok:
            continue
        ok1, fr = H.guard(lambda: [(c.module_path, c.lineno, c.func_name, str(c.line).strip()) for c in ei.tb_info.frames],
                          'frames_equal_traceback_module', 'ExceptionInfo.from_exc_info', wc + '; reading frames raises', witness)
        ok2, txt = H.guard(lambda: ei.get_formatted(), 'formatted_equals_interpreter', 'ExceptionInfo.get_formatted',
                           wc + '; raises', witness)
        std = [(f.filename, f.lineno, f.name, (f.line or '').strip()) for f in traceback.extract_tb(tb)]
        if ok1:
            H.check(fr == std, 'frames_equal_traceback_module', 'ExceptionInfo.from_exc_info', wc, witness,
                    'frames %r, traceback.extract_tb %r' % (fr, std))
        if ok2:
            want = strip_markers(''.join(traceback.format_exception(et, ev, tb)))
            H.check(txt.rstrip('\n') == want.rstrip('\n'), 'formatted_equals_interpreter', 'ExceptionInfo.get_formatted',
                    wc, witness, 'got %r, interpreter %r' % (txt, want))
        H.check(kind == 'no loader at all' or any('virtual source' in f[3] for f in std), 'frames_equal_traceback_module',
                'ExceptionInfo.from_exc_info', 'harness self-check: the reference found the loader source', witness, repr(std))


def part_pseudo_files(H):
    """code compiled under a pseudo file name such as <cell-3> whose source was registered in linecache.cache (the IPython /
    doctest / attrs pattern): the traceback module shows the source lines, so must boltons"""
    import linecache
    src = 'def inner(x):\n    return 1 // x  # pseudo-file source\n\ndef outer(x):\n    return inner(x) + 1\n'
    for fname in ('<verif-cell-1>', '<doctest c16[0]>', '<generated by verif>'):
        ns = {'__name__': 'c16_pseudo'}
        exec(compile(src, fname, 'exec'), ns)
        linecache.cache[fname] = (len(src), None, src.splitlines(True), fname)
        try:
            ns['outer'](0)
        except ZeroDivisionError:
            et, ev, tb = sys.exc_info()
        witness = 'code compiled as %r with its source registered in linecache.cache' % fname
        wc = 'pseudo file name <...> whose source lives in linecache only'
        H.ev(key=('pseudo', fname), nontrivial=True, part='live_pseudo_files', sample=witness)
        ok, ei = H.guard(lambda: tbutils.ExceptionInfo.from_exc_info(et, ev, tb), 'frames_equal_traceback_module',
                         'ExceptionInfo.from_exc_info', wc + '; raises', witness)
        if not ok:
            continue
        ok1, fr = H.guard(lambda: [(c.module_path, c.lineno, c.func_name, str(c.line).strip()) for c in ei.tb_info.frames],
                          'frames_equal_traceback_module', 'ExceptionInfo.from_exc_info', wc + '; reading frames raises', witness)
        ok2, txt = H.guard(lambda: ei.get_formatted(), 'formatted_equals_interpreter', 'ExceptionInfo.get_formatted', wc + '; raises', witness)
        std = [(f.filename, f.lineno, f.name, (f.line or '').strip()) for f in traceback.extract_tb(tb)]
        if ok1:
            H.check(fr == std, 'frames_equal_traceback_module', 'ExceptionInfo.from_exc_info', wc, witness,
                    'frames %r, traceback.extract_tb %r' % (fr, std))
        if ok2:
            want = strip_markers(''.join(traceback.format_exception(et, ev, tb)))
            H.check(txt.rstrip('\n') == want.rstrip('\n'), 'formatted_equals_interpreter', 'ExceptionInfo.get_formatted', wc, witness,
                    'got %r, interpreter %r' % (txt, want))
        H.check(any('pseudo-file source' in f[3] for f in std), 'frames_equal_traceback_module', 'ExceptionInfo.from_exc_info',
                'harness self-check: the reference found the registered source', witness, repr(std))
        linecache.cache.pop(fname, None)


def part_explicit_traceback(H):
    """from_exc_info(type, value, tb) must describe the traceback it is GIVEN - as traceback.extract_tb(tb) does - also when
    that is not value.__traceback__ any more: exc_info captured in an inner handler and the exception re-raised through more
    frames before it is rendered, or a caller passing tb.tb_next to skip its own frame"""
    def lvl3():
        raise KeyError('k3')

    def lvl2():
        try:
            lvl3()
        except KeyError:
            captured.append(sys.exc_info())
            raise

    def lvl1():
        lvl2()
    captured = []
    try:
        lvl1()
    except KeyError:
        outer = sys.exc_info()
    cases = [('exc_info captured in an inner handler, exception re-raised afterwards', captured[0]),
             ('tb.tb_next passed to skip the first frame', (outer[0], outer[1], outer[2].tb_next)),
             ('the current traceback', outer)]
    for label, (et, ev, tb) in cases:
        H.ev(key=('explicit-tb', label), nontrivial=True, part='live_explicit_traceback', sample=label)
        wc = 'traceback argument that is not value.__traceback__' if tb is not ev.__traceback__ else 'current traceback'
        ok, ei = H.guard(lambda: tbutils.ExceptionInfo.from_exc_info(et, ev, tb), 'frames_equal_traceback_module',
                         'ExceptionInfo.from_exc_info', wc + '; raises', label)
        if not ok:
            continue
        fr = [(c.module_path, c.lineno, c.func_name) for c in ei.tb_info.frames]
        std = [(f.filename, f.lineno, f.name) for f in traceback.extract_tb(tb)]
        H.check(fr == std, 'frames_equal_traceback_module', 'ExceptionInfo.from_exc_info', wc, label,
                'frames %r, traceback.extract_tb(tb) %r' % (fr, std))


def run():
    H = Harness('C16',
                rule='one evaluation = one rendered traceback text through from_string/to_string (non-trivial: at least one frame '
                     'or a non-empty message), or one live exception compared with the traceback module on every reader',
                bounds=dict(quick='texts: 0..2 frames over 4 paths x 3 function names x {no source, source, source+marker line}, 3 frames over '
                                  '4 (path, function) x 3 kinds; 2 type names x 5 messages; also with a trailing newline for <= 1 frame; '
                                  '1..2 frames over extended source lines/paths.  live: all chains of depth 1..4 over {function, lambda, '
                                  'method, generator, exec} x 3 raisers (2 at depth 4) x 6 exception kinds; recursion 2,3,5,8 deep; a module edited and reloaded 3 times; code whose source '
                                  'is reachable only through the namespace loader (3 namespace kinds) or registered in linecache under a pseudo file name <...> (3 names)',
                            thorough='texts: 0..3 frames over the full 36-variant frame alphabet x 2 types x 8 messages, each also with trailing '
                                     'newline; live: depth 1..5, 3 raisers'))
    tmp = tempfile.mkdtemp(prefix='c16 \xfc-')
    try:
        if H.args.part in (None, 'live'):
            part_live(H, tmp)
            part_edited_source(H, tmp)
            part_loader_source(H)
            part_pseudo_files(H)
            part_explicit_traceback(H)
        if H.args.part in (None, 'texts'):
            part_texts(H)
    finally:
        shutil.rmtree(tmp, ignore_errors=True)
    H.finish()


main_wrapper(run)
