"""C04 bounded stand-in: crash-point replay of atomic_save / AtomicSaver on the real boltons code.

For every configuration a forked child performs `with atomic_save(D, **flags) as f: BODY` with every
file-system call and every part-file write/flush/close interposed (refmodels/fs_interpose.py).  A reference
run records the event sequence; then, for every event k, one child is killed (os._exit) immediately before
and one immediately after event k.  The parent inspects the directory.

Contract (from the property statement):
  crash_dest_old_or_complete_new   after a crash D holds exactly OLD (or is still absent) or exactly the
                                   complete NEW content (oracle: io.BytesIO); NEW only from the publication
                                   call on (never while the body is still writing)
  publish_after_write_flush_fsync  at the rename/replace/link that names D, no byte of the part file is still
                                   in the user-space buffer or un-fsynced in the kernel (event order)
  publish_after_close              ... and the part file is closed
  publish_one_atomic_step          D is changed by exactly one rename/replace/link(part, D); no other call
                                   opens D for writing, truncates, unlinks or renames it
  normal_exit_complete_no_part     a with-block that exits normally leaves D == NEW and no other file
"""
import os
import shutil
import sys
import tempfile

sys.path.insert(0, os.path.dirname(os.path.dirname(os.path.abspath(__file__))))
from bounded.harness import Harness, main_wrapper  # noqa: E402
from refmodels import fs_interpose as F  # noqa: E402

SITE = 'atomic_save'
HDR = ('from refmodels import fs_interpose as F\n'
       'OLD = lambda cfg: F.OLD if cfg.get("dpresent") else None\n'
       'NEW = lambda cfg: F.expected_bytes(F.chunks_for(cfg["pattern"], cfg["text"]), cfg["text"])\n')
WRITE_FLAGS = os.O_WRONLY | os.O_RDWR | os.O_TRUNC | os.O_CREAT | os.O_APPEND


def short(b):
    if b is None:
        return 'absent'
    return '%d bytes %r' % (len(b), b[:40])


def configs(H):
    base = []
    for text in (False, True):
        for dpresent in (False, True):
            for pattern in ('none', 'one', 'many', 'large'):
                for overwrite in (True, False):
                    base.append(dict(text=text, dpresent=dpresent, pattern=pattern, overwrite=overwrite))
    out = list(base)
    if not H.thorough:
        for c in base:
            if c['pattern'] == 'many':  # the other save options on one body pattern
                out.append(dict(c, perms=0o600))
                out.append(dict(c, ppresent=True, overwrite_part=True))
                if not c['text']:
                    out.append(dict(c, buffering=0))
        out.append(dict(base[4], api='AtomicSaver', relative=True))
        return out
    import random
    rnd = random.Random(H.seed)
    pats = ['rand:%d:%d' % (H.seed, i) for i in range(6)]
    for c in base:
        for perms in (None, 0o600):
            for pp in (False, True):
                for buffering in ((None, 0) if not c['text'] else (None,)):
                    if perms is None and not pp and buffering is None:
                        continue
                    if c['pattern'] == 'large' and (pp or perms):
                        continue
                    out.append(dict(c, perms=perms, ppresent=pp, overwrite_part=pp or None, buffering=buffering))
        if c['pattern'] == 'one':
            out.append(dict(c, api='AtomicSaver', relative=True))
            for p in pats:
                out.append(dict(c, pattern=p, perms=rnd.choice((None, 0o644)), buffering=rnd.choice((None, 1 << 16))))
    return out


def order_checks(H, cfg, log, wit):
    """event-order obligations on the reference run"""
    pubs = []
    for i, e in enumerate(log):
        op, paths = e['op'], e['paths']
        if op in F.PUBLISH_OPS and len(paths) > 1 and paths[1] == F.DEST:
            pubs.append(i)
            st = e.get('src_state', [])
            w = dict(wit, event=i, op=op)
            snip = F_snip(cfg, 'r = F.crash_run(cfg)\npub = [e for e in r["log"] if e["op"] in F.PUBLISH_OPS and e["paths"][1:] == [F.DEST]]\n'
                               'assert all(not (du or dk or op) for e in pub for du, dk, op in e["src_state"]), pub\n')
            if any(s[0] for s in st):
                H.fail('publish_after_write_flush_fsync', SITE, 'written data still in the user-space buffer at publication',
                       w, '%s(part, dest) while the part file object holds unflushed data' % op, snip)
            elif any(s[1] for s in st):
                H.fail('publish_after_write_flush_fsync', SITE, 'flushed data not fsync-ed at publication',
                       w, '%s(part, dest) before fsync of the data written to the part file' % op, snip)
            if any(s[2] for s in st):
                H.fail('publish_after_close', SITE, 'part file still open at publication', w,
                       '%s(part, dest) while the part file is open' % op, snip)
            if not st and cfg['pattern'] != 'none' and paths[0] != F.PART:
                pass  # source never opened through an interposed call: nothing known, crash replay decides
            continue
        bad = None
        if F.DEST in paths:
            if op == 'open' and e.get('flags', 0) & WRITE_FLAGS:
                bad = 'os.open(dest, flags=%#o)' % e['flags']
            elif op in ('pyopen',) and any(ch in str(e.get('pymode')) for ch in 'wax+'):
                bad = 'open(dest, %r)' % e.get('pymode')
            elif op in ('unlink', 'remove', 'truncate', 'ftruncate', 'f.truncate', 'f.write', 'write'):
                bad = '%s on dest' % op
            elif op in F.PUBLISH_OPS and paths[0] == F.DEST:
                bad = '%s(dest, ...)' % op
        if bad and not e.get('raised'):
            H.fail('publish_one_atomic_step', SITE, 'destination changed by a call other than rename/replace/link(part, dest)',
                   dict(wit, event=i), bad)
    ok_pubs = [i for i in pubs if not log[i].get('raised')]
    if len(ok_pubs) > 1:
        H.fail('publish_one_atomic_step', SITE, 'more than one publication', wit, repr([log[i]['op'] for i in ok_pubs]))
    return ok_pubs[0] if ok_pubs else None


def F_snip(cfg, body):
    return 'import sys\n' + HDR + 'cfg = %r\n' % (cfg,) + body


def run():
    H = Harness('C04',
                rule='one evaluation = one forked child running a real save and killed (os._exit) immediately before or '
                     'after one interposed event (or run to the end), followed by inspection of the directory; key = '
                     '(configuration, event index, before/after); non-trivial = the crash point lies at or after the '
                     'creation of the part file (something is on disk that is not the old destination)',
                bounds=dict(quick='text/binary x dest absent/present x body {no write, 1 write, 7 writes incl. 9000 B, one 1 MiB write} '
                                  'x overwrite T/F (32 configs) + file_perms=0o600, pre-existing part+overwrite_part, buffering=0 '
                                  'on the 7-write body, AtomicSaver with relative path; every event x {before, after}; the publishing call failing with EXDEV/EIO/EPERM/EMLINK',
                            thorough='the 32 configs x file_perms {None,0o600} x part {absent, present+overwrite_part} x '
                                     'buffering {default, 0}; relative path; 6 seeded random write patterns; every event x {before, after}'))
    root = tempfile.mkdtemp(prefix='verif-C04-')
    try:
        cfgs = configs(H)
        for ci, cfg in enumerate(cfgs):
            if H.out_of_time(0.85):
                H.note_truncated('stopped after %d of %d configurations (time budget)' % (ci, len(cfgs)))
                break
            text = cfg['text']
            new = F.expected_bytes(F.chunks_for(cfg['pattern'], text), text)
            old = F.OLD if cfg['dpresent'] else None
            wit = dict(cfg=cfg)
            ref = F.crash_run(cfg, None, root)
            log = ref['log']
            refused = (not cfg['overwrite']) and cfg['dpresent']
            H.ev(key=(ci, 'ref'), nontrivial=not refused, sample=dict(cfg=cfg, events=[e['op'] for e in log]), part='reference run')
            if ref.get('internal'):
                H.fail('normal_exit_complete_no_part', SITE, 'harness child failed', wit, ref['internal'])
                continue
            snip_ref = F_snip(cfg, 'r = F.crash_run(cfg)\nassert r["outcome"] is None and r["dest"] == NEW(cfg) and r["listing"] == [F.DEST], '
                                   '(r["outcome"], r["listing"], r["dest"] and r["dest"][:60])\n')
            if refused:
                if ref['dest'] != old:
                    H.fail('crash_dest_old_or_complete_new', SITE, 'refused save (overwrite=False, dest exists) changed dest', wit, short(ref['dest']))
            elif ref['outcome'] is not None:
                H.fail('normal_exit_complete_no_part', SITE, 'with-block whose body does not raise ends with an exception', wit, ref['outcome'], snip_ref)
            else:
                if ref['dest'] != new:
                    H.fail('normal_exit_complete_no_part', SITE, 'destination is not the complete new content after normal exit', wit,
                           'dest: %s; expected %s' % (short(ref['dest']), short(new)), snip_ref)
                if ref['listing'] != [F.DEST]:
                    H.fail('normal_exit_complete_no_part', SITE, 'extra file left after normal exit', wit, repr(ref['listing']), snip_ref)
            pub = order_checks(H, cfg, log, wit)
            if pub is not None:
                # the publishing call itself fails (cross-device link/rename, I/O error, ...): whatever the code does next,
                # the destination may only ever be changed by one successful rename/replace/link(part, dest)
                import errno as _errno
                for en in (_errno.EXDEV, _errno.EIO, _errno.EPERM, _errno.EMLINK):
                    fr = F.fault_run(cfg, faults=[pub], root=root, fault_errno=en)
                    H.ev(key=(ci, 'pubfault', en), nontrivial=True, part='publishing call fails',
                         sample=dict(cfg=cfg, errno=_errno.errorcode[en], outcome=repr(fr['exc'])))
                    d_after = fr['dest'][0] if fr['dest'] else None
                    later_ok = [e for e in fr['log'][pub + 1:] if e['op'] in F.PUBLISH_OPS and e['paths'][1:] == [F.DEST]
                                and not e.get('raised') and not e.get('fault')]
                    if d_after != old and not later_ok:
                        H.fail('publish_one_atomic_step', SITE,
                               'destination changed although the publishing call failed (non-atomic fallback)',
                               dict(wit, failing_event=log[pub]['op'], errno=_errno.errorcode[en]),
                               '%s(part, dest) raised %s; afterwards dest = %s, exception %r, no later rename/replace/link event'
                               % (log[pub]['op'], _errno.errorcode[en], short(d_after), fr['exc']),
                               F_snip(cfg, 'import errno\nr = F.crash_run(cfg)\npub = [i for i, e in enumerate(r["log"]) if e["op"] in F.PUBLISH_OPS '
                                           'and e["paths"][1:] == [F.DEST]][0]\nfr = F.fault_run(cfg, faults=[pub], fault_errno=errno.%s)\n'
                                           'assert (fr["dest"][0] if fr["dest"] else None) == OLD(cfg), fr["dest"] and fr["dest"][0][:40]\n'
                                           % _errno.errorcode[en]))
            first_open = min([i for i, e in enumerate(log) if e['op'] in ('open', 'pyopen')] or [len(log)])
            for k in range(len(log)):
                for when in ('before', 'after'):
                    r = F.crash_run(cfg, (k, when), root)
                    H.ev(key=(ci, k, when), nontrivial=(k > first_open or (k == first_open and when == 'after')),
                         sample=dict(cfg=cfg, crash=[k, when, log[k]['op']], dest=short(r['dest']), listing=r['listing']), part='crash point')
                    if r.get('internal') or r['status'] != 77:
                        H.fail('crash_dest_old_or_complete_new', SITE, 'child did not reach the crash point (event sequence not deterministic)',
                               dict(wit, crash=[k, when]), 'status %r %s' % (r['status'], r.get('internal', '')))
                        continue
                    d = r['dest']
                    if pub is not None:
                        new_ok = k > pub or (k == pub and when == 'after')
                    else:
                        new_ok = log[k]['phase'] == 'exit' and not refused
                    if d == old or (new_ok and d == new):
                        continue
                    if d is None:
                        wclass = 'destination missing after the crash'
                    elif d == new and old != new:
                        wclass = 'complete new content visible before the publication point'
                    else:
                        wclass = 'destination empty, truncated or mixed after the crash'
                    H.fail('crash_dest_old_or_complete_new', SITE, wclass,
                           dict(wit, crash=[k, when], event=log[k]['op'], phase=log[k]['phase']),
                           'dest after crash: %s; old: %s; new: %s' % (short(d), short(old), short(new)),
                           F_snip(cfg, 'r = F.crash_run(cfg, (%d, %r))\nassert r["dest"] in (OLD(cfg), NEW(cfg)) and '
                                       '(r["dest"] == OLD(cfg) or %r), r["dest"] and r["dest"][:60]\n' % (k, when, bool(new_ok))))
    finally:
        shutil.rmtree(root, ignore_errors=True)
    H.finish()


if __name__ == "__main__":
    main_wrapper(run)
