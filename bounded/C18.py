"""C18 bounded stand-in: SpooledBytesIO / SpooledStringIO against io.BytesIO / io.StringIO, MultiFileReader
against the concatenation.

Contract (from the property statement), evaluated on the real classes:
  the same history of {appending write, read(n), read(), readline, readlines, next(), full iteration, seek(p<=len),
  tell, getvalue, len} is applied in lockstep to the spooled class with max_size 1 (rolled at the first write),
  len(first write)+1 (rolls over at the second write) and 10**6 (never rolls), and to the io class (the oracle);
    same_values_as_io   the value returned by the operation equals what io returns (write's return value and
                        StopIteration-vs-value are compared as 'stop'/'line'; nothing else is normalised)
    position_after      tell() right after the operation equals the io position (code points for StringIO)
    next_read_after     at the end of the history read() returns what io returns (the position is the real one,
                        not only the reported one)
    content_after       getvalue() at the end equals the io content, and does not move tell()
  every prefix of a history is a history, so every reader is evaluated after every step.
  MultiFileReader: any mix of read(n) / read() / seek(0): each read(n) returns a prefix of what is left of the
  concatenation, no longer than n, non-empty unless nothing is left; read() returns everything left.
The failing operation is the *first* one whose value or position differs (later differences are consequences).
"""
import io
import itertools
import os
import random
import shutil
import sys
import tempfile

sys.path.insert(0, os.path.dirname(os.path.dirname(os.path.abspath(__file__))))
from bounded.harness import Harness, main_wrapper  # noqa: E402
from boltons.ioutils import SpooledBytesIO, SpooledStringIO, MultiFileReader  # noqa: E402

TOK = ['a', 'é', '\U0001F600', '\n', '\r\n', '\r']
TMP = None


def do(f, op, model=False):
    k = op[0]
    try:
        if k == 'write':
            f.write(op[1])
            return None
        if k == 'read':
            return f.read() if op[1] is None else f.read(op[1])
        if k == 'readline':
            return f.readline()
        if k == 'readlines':
            return f.readlines()
        if k == 'next':
            try:
                return ('line', next(f))
            except StopIteration:
                return ('stop',)
        if k == 'list':
            return list(itertools.islice(iter(f), 60))
        if k == 'seek':
            return f.seek(op[1])
        if k == 'tell':
            return f.tell()
        if k == 'getvalue':
            return f.getvalue()
        if k == 'len':
            return len(f.getvalue()) if model else len(f)
    except Exception as e:  # noqa
        if model:
            raise
        return ('raised', '%s: %s' % (type(e).__name__, str(e)[:80]))
    raise ValueError(op)


def conv(hist, text):
    return hist if text else tuple(('write', o[1].encode('utf-8')) if o[0] == 'write' else o for o in hist)


def run_history(cls, hist, text):
    """-> (failure|None, model) ; failure = (clause, op, detail, rolled_fail, unrolled_fail)"""
    first = len(hist[0][1].encode('utf-8')) if hist and hist[0][0] == 'write' else 0
    hist = conv(hist, text)
    sizes = (1, first + 1, 10 ** 6)
    m = io.StringIO() if text else io.BytesIO()
    fs = [cls(max_size=s, dir=TMP) for s in sizes]
    try:
        bad = []      # (variant index, clause, detail)
        last = None
        for step, op in enumerate(hist):
            last = op
            want = do(m, op, True)
            wpos = m.tell()
            for i, f in enumerate(fs):
                got = do(f, op)
                if op[0] != 'write' and got != want:
                    bad.append((i, 'same_values_as_io', '%r -> %r, io gives %r' % (op, got, want)))
                    continue
                pos = do(f, ('tell',))
                if pos != wpos:
                    bad.append((i, 'position_after', 'tell() after %r is %r, io gives %r' % (op, pos, wpos)))
            if bad:
                break
        if not bad and hist:
            wpos = m.tell()
            wrest = m.read()
            wval = m.getvalue()
            for i, f in enumerate(fs):
                rest = do(f, ('read', None))
                if rest != wrest:
                    bad.append((i, 'next_read_after', 'read() after the history gives %r, io gives %r' % (rest, wrest)))
                    continue
                val, pos = do(f, ('getvalue',)), do(f, ('tell',))
                if val != wval or pos != m.tell():
                    bad.append((i, 'content_after', 'getvalue()/tell() after the history give %r/%r, io %r/%r'
                                % (val, pos, wval, m.tell())))
            m.seek(wpos)
        if not bad:
            return None, m
        rolled = [bool(getattr(fs[i], '_rolled', i == 0)) for i, _, _ in bad]
        clause, detail = bad[0][1], bad[0][2]
        return (clause, last, 'max_size=%r: %s' % (sizes[bad[0][0]], detail), any(rolled), not all(rolled), len(bad), step), m
    finally:
        for f in fs:
            try:
                f.close()
            except Exception:  # noqa
                pass


def map_hist(hist, table):
    return tuple(('write', ''.join(table.get(c, c) for c in o[1])) if o[0] == 'write' else o for o in hist)


def lone_cr_free(hist):
    "the same history with every \\r that is not part of \\r\\n replaced by 'b' (same length)"
    out = []
    for o in hist:
        if o[0] == 'write':
            s = o[1].replace('\r\n', '\x00').replace('\r', 'b').replace('\x00', '\r\n')
            o = ('write', s)
        out.append(o)
    return tuple(out)


def report(H, cls, hist, text, f):
    clause, op, detail, rolled_fail, unrolled_fail, nbad, step = f
    hist = hist[:step + 1]          # the failing operation is the last one of the reported history
    site = '%s.%s' % (cls.__name__, {'next': '__next__', 'list': '__iter__', 'len': '__len__'}.get(op[0], op[0]))
    if op[0] in ('next', 'list'):
        # iteration is built on readline: when readline fails the same clause in the same state, that is the site
        g = run_history(cls, hist[:-1] + (('readline',),) * (1 if op[0] == 'next' else 8), text)[0]
        if g is not None and g[0] == clause and g[1] == ('readline',):
            site = cls.__name__ + '.readline'

    def still(h2):
        g = run_history(cls, h2, text)[0]
        return g is not None and g[0] == clause and g[1][0] == op[0]
    needs = []
    h = hist
    if any('\r' in o[1].replace('\r\n', '') for o in h if o[0] == 'write'):
        h2 = lone_cr_free(h)
        if still(h2):
            h = h2
        else:
            needs.append('a lone \\r in the content')
    if text and any(ord(c) > 127 for o in h if o[0] == 'write' for c in o[1]):
        if not still(map_hist(h, {'é': 'c', '\U0001F600': 'd'})):
            needs.append('a multi-byte character')
    wclass = ('needs ' + ' and '.join(needs) if needs else 'any content') + \
             ('' if rolled_fail and unrolled_fail else '; only after rollover' if rolled_fail else '; only in memory')
    hc = conv(hist, text)
    snip = '''import io, itertools
from boltons.ioutils import %(c)s
def do(f, op, model=False):
    k = op[0]
    if k == 'write': f.write(op[1]); return None
    if k == 'read': return f.read() if op[1] is None else f.read(op[1])
    if k == 'next':
        try: return ('line', next(f))
        except StopIteration: return ('stop',)
    if k == 'list': return list(itertools.islice(iter(f), 60))
    if k == 'len': return len(f.getvalue()) if model else len(f)
    return getattr(f, k)(*op[1:])
hist = %(h)r
for size in (1, %(mid)d, 10 ** 6):
    f, m = %(c)s(max_size=size), io.%(io)s()
    for op in hist:
        want, got = do(m, op, True), do(f, op)
        assert op[0] == 'write' or got == want, (size, op, got, want)
        assert f.tell() == m.tell(), (size, op, f.tell(), m.tell())
    pos = m.tell()
    rest = f.read()
    assert rest == m.read(), (size, 'read() after', rest)
    assert f.getvalue() == m.getvalue() and f.tell() == m.tell(), (size, 'getvalue/tell after', f.getvalue(), f.tell())
''' % dict(c=cls.__name__, h=list(hc), io='StringIO' if text else 'BytesIO',
           mid=(len(hist[0][1].encode('utf-8')) + 1 if hist and hist[0][0] == 'write' else 1))
    H.fail(clause, site, wclass, dict(history=repr(list(hc)), variants_failing=nbad), detail, snip)


def next_ops(m, text, writes, reads):
    "operations allowed by the statement in the io state m: appending writes only at the end of the data"
    n = len(m.getvalue())
    ops = []
    if m.tell() == n:
        ops += [('write', w) for w in writes]
    ops += [('read', k) for k in reads] + [('readline',), ('readlines',), ('next',), ('list',), ('tell',), ('getvalue',), ('len',)]
    ops += [('seek', p) for p in range(n + 1)]
    return ops


def explore(H, cls, text, hist, depth, writes, reads, part):
    f, m = run_history(cls, hist, text)
    nontriv = len(hist) >= 2
    n = H.evaluations + 1
    H.ev(key=(cls.__name__, hist), nontrivial=nontriv, part=part,
         sample=dict(cls=cls.__name__, history=repr(list(conv(hist, text)))) if n <= 4 or n & (n - 1) == 0 else None)
    if f:
        report(H, cls, hist, text, f)
        return                      # every extension fails the same way at the same step
    if depth > 0:
        for op in next_ops(m, text, writes, reads):
            explore(H, cls, text, hist + (op,), depth - 1, writes, reads, part)


def contents(k):
    for n in range(k + 1):
        for t in itertools.product(TOK, repeat=n):
            yield ''.join(t)


def part_spooled(H, cls, text, plan, frac):
    part = cls.__name__
    for k, depth in plan:
        for c in contents(k):
            if ntok_of(c) != k:
                continue
            explore(H, cls, text, (('write', c),) if c else (), depth, ['a', 'é\n'], [1, 2, None], part)
            if H.out_of_time(frac):
                H.note_truncated('%s: stopped at content %r (<=%d tokens, depth %d) by the time budget' % (part, c, k, depth))
                return


def ntok_of(c):
    return len(c.replace('\r\n', '\n'))


def appending_only(hist, text):
    m = io.StringIO() if text else io.BytesIO()
    for op in conv(hist, text):
        if op[0] == 'write' and m.tell() != len(m.getvalue()):
            return False
        do(m, op, True)
    return True


def part_directed(H, cls, text):
    "seed states that need size: content longer than READ_CHUNK_SIZE code points, lines longer than 72 bytes"
    seeds = ['é' * 21333 + 'ab\ncd', 'x' * 71 + 'é' + 'y' * 80 + '\nz' * 3, 'a' * 21335,
             ('é' * 40 + '\n') * 3 + 'tail']
    for s in seeds:
        n = len(s) if text else len(s.encode('utf-8'))
        ops = [('read', 2), ('read', 100), ('read', None), ('readline',), ('readlines',), ('next',), ('len',), ('getvalue',),
               ('tell',), ('seek', 0), ('seek', 1), ('seek', 73), ('seek', n - 3), ('seek', n), ('write', 'a')]
        for o1 in ops:
            for o2 in [None] + ops:
                hist = (('write', s), o1) + ((o2,) if o2 else ())
                if not appending_only(hist, text):
                    continue
                f, _ = run_history(cls, hist, text)
                H.ev(key=(cls.__name__, 'directed', len(s), o1, o2), part=cls.__name__ + ' directed')
                if f:
                    hs = (('write', '<%d code points: %r...>' % (len(s), s[:6])),) + hist[1:]
                    site = '%s.%s' % (cls.__name__, {'next': '__next__', 'len': '__len__'}.get(f[1][0], f[1][0]))
                    # the same clause at the same site already failing on small contents is the same defect
                    small = [k[2] for k in sorted(H.failures) if k[:2] == (f[0], site) and 'large' not in k[2]]
                    H.fail(f[0], site, small[0] if small else 'needs large content (> READ_CHUNK_SIZE code points or lines > 72 bytes)',
                           dict(history=repr(hs)), f[2])


# ---------------------------------------------------------------------------------------------------
def partitions(c, k):
    "every way of cutting c into exactly k consecutive (possibly empty) pieces"
    n = len(c)
    for cuts in itertools.combinations_with_replacement(range(n + 1), k - 1):
        b = (0,) + cuts + (n,)
        yield [c[b[i]:b[i + 1]] for i in range(k)]


def run_mfr(parts, hist, kind):
    if kind == 'bytes':
        files = [io.BytesIO(p.encode('utf-8')) for p in parts]
    elif kind == 'text':
        files = [io.StringIO(p) for p in parts]
    else:
        files = []
        for i, p in enumerate(parts):
            path = os.path.join(TMP, 'mfr%d' % i)
            with open(path, 'wb') as f:
                f.write(p.encode('utf-8'))
            files.append(open(path, 'rb'))
    whole = ''.join(parts) if kind == 'text' else ''.join(parts).encode('utf-8')
    try:
        try:
            mfr = MultiFileReader(*files)
        except Exception as e:  # noqa
            return ('constructor', 'MultiFileReader', 'raised %r' % e, False)
        pos, seeked = 0, False
        for op in hist:
            try:
                got = mfr.seek(0) if op == 'seek0' else mfr.read() if op is None else mfr.read(op)
            except Exception as e:  # noqa
                return ('no_exception', 'MultiFileReader.' + ('seek' if op == 'seek0' else 'read'), '%r raised %r' % (op, e), seeked)
            if op == 'seek0':
                pos, seeked = 0, True
                continue
            left = whole[pos:]
            ok = isinstance(got, type(whole)) and (got == left if op is None else
                                                   left.startswith(got) and len(got) <= op and (got or not left))
            if not ok:
                return ('read_after_seek0' if seeked else 'read_concatenation', 'MultiFileReader.read',
                        'read(%s) -> %r, left of the concatenation: %r' % ('' if op is None else op, got, left), seeked)
            pos += len(got)
        return None
    finally:
        for f in files:
            f.close()


def part_mfr(H, maxlen, L, frac):
    ops = [1, 2, 3, None, 'seek0']
    for kind, alpha in (('bytes', 'abcde'), ('text', 'aé\U0001F600\nb'), ('files', 'abcde')):
        for n in range(maxlen + 1):
            c = alpha[:n]
            for k in (1, 2, 3):
                for parts in partitions(c, k):
                    if kind == 'files' and (n != maxlen or L < 3):
                        continue
                    for l in range(1, (L if kind != 'files' else 3) + 1):
                        for hist in itertools.product(ops, repeat=l):
                            H.ev(key=('mfr', kind, tuple(parts), hist), nontrivial=k > 1, part='MultiFileReader',
                                 sample=dict(files=parts, ops=repr(hist)) if H.evaluations < 4 else None)
                            f = run_mfr(parts, hist, kind)
                            if f:
                                wc = ('sized read after seek(0)' if f[3] else
                                      'several member files' if run_mfr([c], hist, kind) is None else 'even a single member file')
                                H.fail(f[0], f[1], wc, dict(files=parts, kind=kind, ops=repr(hist)), f[2],
                                       'import io\nfrom boltons.ioutils import MultiFileReader\n'
                                       'parts, ops = %r, %r\nwhole = "".join(parts).encode()\n'
                                       'm = MultiFileReader(*[io.BytesIO(p.encode()) for p in parts]); pos = 0\n'
                                       'for op in ops:\n'
                                       '    if op == "seek0": m.seek(0); pos = 0; continue\n'
                                       '    got = m.read() if op is None else m.read(op); left = whole[pos:]\n'
                                       '    assert (got == left) if op is None else (left.startswith(got) and len(got) <= op and (got or not left)), (op, got, left)\n'
                                       '    pos += len(got)\n' % (parts, list(hist)))
            if H.out_of_time(frac):
                H.note_truncated('MultiFileReader: stopped at %s content length %d' % (kind, n))
                return


def part_random(H, seed, n):
    rnd = random.Random(seed)
    for _ in range(n):
        cls, text = rnd.choice([(SpooledBytesIO, False), (SpooledStringIO, True)])
        hist, m = [], (io.StringIO() if text else io.BytesIO())
        for _ in range(rnd.randint(3, 10)):
            op = rnd.choice(next_ops(m, text, [''.join(rnd.choice(TOK) for _ in range(rnd.randint(1, 4)))], [1, 2, 3, None]))
            hist.append(op)
            do(m, conv((op,), text)[0], True)
        hist = tuple(hist)
        f, _ = run_history(cls, hist, text)
        H.ev(key=('rnd', cls.__name__, hist), part='random')
        if f:
            report(H, cls, hist, text, f)


def run():
    global TMP
    H = Harness('C18',
                rule='one evaluation = one history applied in lockstep to the spooled class with max_size 1 / len(first '
                     'write)+1 / 10**6 and to the io class, value and tell() compared after every operation, read()/getvalue()/'
                     'tell() at the end; non-trivial = at least two operations. MultiFileReader: one evaluation = one '
                     '(partition, read/seek history); non-trivial = more than one member file',
                bounds=dict(
                    quick='both spooled classes: first write = every content of <=1 token over {a, e-acute, U+1F600, \\n, \\r\\n, \\r} '
                          'followed by all histories <=3, every content of 2 tokens followed by all histories <=2, 3 tokens '
                          'followed by every single operation (SpooledStringIO: all histories <=2), of {write a, write e-acute+\\n (only at end of data), read(1), read(2), '
                          'read(), readline, readlines, next, list(f), tell, getvalue, len, seek(p) 0<=p<=len}; 4 large seed contents '
                          '(> READ_CHUNK_SIZE code points, lines > 72 bytes) x histories <=2; MultiFileReader: contents <=4, all '
                          'partitions into <=3 (possibly empty) BytesIO / StringIO files x histories <=4 of {read(1), read(2), read(3), read(), seek(0)}',
                    thorough='histories <=4 after <=1 token, <=3 after 2 tokens, <=2 after 3 tokens; MultiFileReader contents <=5, '
                             'histories <=5, also real files; seeded random histories of 3..10 operations'))
    th, part = H.thorough, H.args.part
    TMP = tempfile.mkdtemp(prefix='c18-')
    try:
        plan = [(0, 4), (1, 4), (2, 3), (3, 2)] if th else [(0, 3), (1, 3), (2, 2), (3, 1)]
        if part in (None, 'bytes'):
            part_spooled(H, SpooledBytesIO, False, plan, 0.3 if not th else 0.35)
            part_directed(H, SpooledBytesIO, False)
        if part in (None, 'string'):
            part_spooled(H, SpooledStringIO, True, plan if th else plan[:3] + [(3, 2)], 0.75)
            part_directed(H, SpooledStringIO, True)
        if part in (None, 'mfr'):
            part_mfr(H, 5 if th else 4, 5 if th else 4, 0.95)
        if th and part in (None, 'random'):
            part_random(H, H.seed, 40000)
    finally:
        shutil.rmtree(TMP, ignore_errors=True)
    H.finish()


main_wrapper(run)
