"""C19 bounded stand-in: line readers split exactly at line boundaries, for every text and block size.

Contracts (from the property statement), evaluated on the real boltons code:
  splitlines : list(iter_splitlines(t)) == t.splitlines() + ([''] if t ends with a line break else []) for texts
               whose line breaks are \\n \\r \\r\\n \\v \\f \\x85 \\u2028 \\u2029; no split anywhere else
               (finite exhaustive part: 'a'+c+'b' for EVERY code point c splits iff c is one of the eight);
  reverse    : list(reverse_iter_lines(f, blocksize)) is the list of \\n- or \\r\\n-separated lines of the file,
               last to first, without line breaks, bytes for a binary file and str for a text-mode file,
               the SAME list for every blocksize >= 1. The statement does not say whether a final line break is
               followed by one more (empty) line, nor what a lone \\r is: both readings are accepted
               (4 candidate lists at most), but one candidate must fit all block sizes;
  jsonl      : JSONLIterator(f) yields the objects of the non-blank lines in order, JSONLIterator(f,
               reverse=True) the same objects reversed, for files smaller and larger than the block size;
               undecodable lines are skipped with ignore_errors and raise (at that line) without.
               A reverse-mode mismatch caused by reverse_iter_lines itself violating its contract on that very
               file is reported at reverse_iter_lines (assume/guarantee), not a second time at JSONLIterator.
"""
import io
import itertools
import json
import os
import random
import re
import shutil
import sys
import tempfile

sys.path.insert(0, os.path.dirname(os.path.dirname(os.path.abspath(__file__))))
from bounded.harness import Harness, main_wrapper  # noqa: E402

from boltons import strutils as S  # noqa: E402
from boltons import jsonutils as J  # noqa: E402

BREAKS = ['\n', '\r', '\x0b', '\x0c', '\x85', '\u2028', '\u2029']
BRSET = frozenset(BREAKS)
ONLY_STR = frozenset('\x1c\x1d\x1e')      # str.splitlines splits there too; outside the statement: either is fine
TEXT_ALPHA = ['a', ' ', '2', '8', '9'] + BREAKS
HDR = 'import io\nfrom boltons.strutils import iter_splitlines\nfrom boltons.jsonutils import reverse_iter_lines, JSONLIterator\n'


# ---- iter_splitlines ----------------------------------------------------------------------------------
def break_class(c):
    return ('Unicode separator U+2028/U+2029' if c in '\u2028\u2029' else 'NEL U+0085' if c == '\x85'
            else 'ASCII line break')


def check_splitlines(H, t):
    want = t.splitlines() + ([''] if t[-1:] in BRSET else [])
    snip = HDR + 't = %r\nassert list(iter_splitlines(t)) == t.splitlines() + ([""] if t[-1:] in %r else []), list(iter_splitlines(t))\n' % (t, ''.join(BREAKS))
    ok, got = H.guard(lambda: list(S.iter_splitlines(t)), 'splitlines_exact', 'iter_splitlines', 'raises', t, snip)
    if not ok or got == want:
        return
    missed = [c for piece in got if isinstance(piece, str) for c in piece if c in BRSET]
    if missed:
        H.fail('splitlines_exact', 'iter_splitlines', 'line break not recognised: ' + break_class(missed[0]), t,
               'got %r expected %r' % (got, want), snip)
    else:
        H.fail('splitlines_exact', 'iter_splitlines', 'split or loss at text that is not a line break', t,
               'got %r expected %r' % (got, want), snip)


def check_codepoints(H):
    n = 0
    for cp in itertools.chain(range(0, 0xD800), range(0xE000, 0x110000)):
        c = chr(cp)
        t = 'a' + c + 'b'
        try:
            got = list(S.iter_splitlines(t))
        except Exception as e:  # noqa
            got = repr(e)
        n += 1
        if c in ONLY_STR and got in ([t], ['a', 'b']):
            continue
        want = ['a', 'b'] if c in BRSET else [t]
        if got != want:
            wc = ('line break not recognised: ' + break_class(c)) if c in BRSET else \
                'split or loss at text that is not a line break'
            H.fail('splitlines_exact', 'iter_splitlines', wc, t, 'U+%04X: got %r expected %r' % (cp, got, want),
                   HDR + 'assert list(iter_splitlines(%r)) == %r\n' % (t, want))
    H.ev(key='codepoints', nontrivial=True, part='splitlines_codepoints', sample=dict(codepoints=n))
    H.evaluations += n - 1
    H.nontrivial_overflow += n - 1
    H.parts['splitlines_codepoints'] = n


# ---- reverse_iter_lines ---------------------------------------------------------------------------------
def candidates(content):
    """acceptable results (bytes lists, last line first) under the readings the statement allows"""
    out = []
    pieces = content.split(b'\n')      # every piece but the last is followed by \n: drop the \r of a \r\n
    strict = [p[:-1] if p.endswith(b'\r') else p for p in pieces[:-1]] + pieces[-1:]
    universal = re.split(b'\r\n|\n|\r', content)
    for lines in (strict, universal):
        for ls in (lines, lines[:-1] if lines[-1] == b'' else None):
            if ls is not None and ls[::-1] not in out:
                out.append(ls[::-1])
    return out


def open_file(content, mode, tmp=None, enc='utf-8'):
    if tmp:
        path = os.path.join(tmp, 'f.txt')
        with open(path, 'wb') as f:
            f.write(content)
        return open(path, 'rb') if mode == 'binary' else open(path, 'r', encoding=enc, newline='')
    raw = io.BytesIO(content)
    return raw if mode == 'binary' else io.TextIOWrapper(raw, encoding=enc)


def run_reverse(content, mode, bs, tmp=None, enc='utf-8'):
    f = open_file(content, mode, tmp, enc)
    try:
        got = list(J.reverse_iter_lines(f) if bs is None else J.reverse_iter_lines(f, blocksize=bs))
    except Exception as e:  # noqa
        got = e
    finally:
        try:
            f.close()
        except Exception:  # noqa
            pass
    return got


def reverse_verdict(content, mode, results, enc='utf-8'):
    """results: {blocksize: list | exception}. None if the contract holds, else (wclass, detail)"""
    cands = candidates(content)
    if mode == 'text':
        cands = [[x.decode(enc) for x in c] for c in cands]
    for bs, got in results.items():
        if isinstance(got, Exception):
            return 'raises', 'blocksize %r: %r' % (bs, got)
    if any(all(got == c for got in results.values()) for c in cands):
        return None
    bad = [(b, g) for b, g in results.items() if g not in cands]
    if not bad:
        return ('result depends on the blocksize', 'every result is acceptable alone but they differ: %r'
                % (dict(list(results.items())[:4]),))
    bs, got = bad[0]
    nl, cr = ('\n', '\r') if mode == 'text' else (b'\n', b'\r')
    detail = 'blocksize %r -> %r, acceptable: %r' % (bs, got, cands)
    if any(type(x) is not type(nl) for x in got):
        return 'items of the wrong type (bytes/str)', detail
    if any(nl in x or cr in x for x in got):
        return 'yielded item still contains a line break (remainder at the start of the file not split)', detail
    if len(set(map(repr, results.values()))) > 1:
        return 'result depends on the blocksize', detail
    return 'wrong lines for every blocksize', detail


def check_reverse(H, content, mode, sizes, tmp=None, enc='utf-8', part='reverse'):
    results = {bs: run_reverse(content, mode, bs, tmp, enc) for bs in sizes}
    H.ev(key=(part, content, mode, enc, bool(tmp)), nontrivial=(b'\n' in content), part=part,
         sample=dict(content=repr(content), mode=mode, blocksizes=len(sizes)))
    v = reverse_verdict(content, mode, results, enc)
    if v:
        wc, detail = v
        if enc != 'utf-8':
            wc = 'text-mode file whose encoding is not UTF-8'
        opn = ('io.BytesIO(%r)' % content if mode == 'binary'
               else 'io.TextIOWrapper(io.BytesIO(%r), encoding=%r)' % (content, enc))
        cands = candidates(content)
        if mode == 'text':
            cands = [[x.decode(enc) for x in c] for c in cands]
        snip = HDR + ('res = [list(reverse_iter_lines(%s, blocksize=bs)) for bs in %r]\n'
                      'assert any(all(r == c for r in res) for c in %r), res\n'
                      % (opn, [b for b in sizes if b is not None], cands))
        H.fail('reverse_lines', 'reverse_iter_lines', wc, dict(content=repr(content), mode=mode), detail, snip)
    return v


def contents_upto(nbytes, syms):
    """all concatenations of symbols (bytes) with total length <= nbytes"""
    level = [b'']
    yield b''
    while level:
        nxt = []
        for c in level:
            for s in syms:
                if len(c) + len(s) <= nbytes:
                    nxt.append(c + s)
        for c in nxt:
            yield c
        level = nxt


# ---- JSONLIterator ------------------------------------------------------------------------------------
def jsonl_events(f, reverse, ignore_errors, cap=64):
    ev = []
    try:
        it = J.JSONLIterator(f, ignore_errors=ignore_errors, reverse=reverse)
    except Exception as e:  # noqa
        return [('init-error', type(e).__name__)]
    while len(ev) < cap:
        try:
            ev.append(('obj', next(it)))
        except StopIteration:
            break
        except Exception:  # noqa
            ev.append(('err',))
            if not ignore_errors:
                break
    return ev


def jsonl_oracle(lines, reverse, ignore_errors):
    ev = []
    for ln in (lines[::-1] if reverse else lines):
        if not ln.strip():
            continue
        try:
            ev.append(('obj', json.loads(ln)))
        except Exception:  # noqa
            if ignore_errors:
                continue
            ev.append(('err',))
            break
    return ev


def check_jsonl(H, lines, term, last_term, mode, bs, part):
    """lines: list of bytes (no terminators); bs None = default 4096, else reverse_iter_lines is called with bs"""
    content = term.join(lines) + (term if last_term and lines else b'')
    corrupt = any(ln.strip() and jsonl_oracle([ln], False, False) == [('err',)] for ln in lines)
    blank = any(not ln.strip() for ln in lines)
    real = J.reverse_iter_lines
    for ignore in (False, True):
        H.ev(key=(part, content, mode, bs, ignore), nontrivial=len(lines) >= 2, part=part,
             sample=dict(content=repr(content) if len(content) < 80 else '%d bytes' % len(content), mode=mode,
                         blocksize=bs, ignore_errors=ignore))
        for reverse in (False, True):
            want = jsonl_oracle(lines, reverse, ignore)
            f = open_file(content, mode)
            if bs is not None:
                J.reverse_iter_lines = lambda fo, blocksize=None, _r=real, **kw: _r(fo, blocksize=bs, **kw)
            try:
                got = jsonl_events(f, reverse, ignore)
            finally:
                J.reverse_iter_lines = real
            if got == want:
                continue
            wit = dict(content=repr(content) if len(content) < 200 else '%d bytes: %r...' % (len(content), content[:60]),
                       mode=mode, reverse=reverse, ignore_errors=ignore, blocksize=bs or 4096)
            if reverse:
                v = check_reverse(H, content, mode, [bs or 4096], part=part + '_lines')
                if v:
                    continue                      # reported at reverse_iter_lines, the cause
            wc = ('corrupt line with ignore_errors' if corrupt and ignore else 'corrupt line without ignore_errors'
                  if corrupt else 'file with blank lines' if blank else 'file larger than the block size'
                  if len(content) > (bs or 4096) else 'small file of valid lines')
            opn = ('io.BytesIO(%r)' % content if mode == 'binary'
                   else 'io.TextIOWrapper(io.BytesIO(%r), encoding="utf-8")' % content)
            snip = None
            if len(content) < 300 and bs is None and (ignore or not corrupt):
                snip = HDR + 'got = list(JSONLIterator(%s, ignore_errors=%r, reverse=%r))\nassert got == %r, got\n' % (
                    opn, ignore, reverse, [e[1] for e in want])
            H.fail('jsonl_reverse_is_reversed_forward' if reverse else 'jsonl_forward_objects', 'JSONLIterator', wc, wit,
                   'events %r expected %r' % (got[:6], want[:6]), snip)


def run():
    H = Harness('C19',
                rule='a case is one text (iter_splitlines), one code point, one (file content, mode) over all its block '
                     'sizes (reverse_iter_lines) or one (JSONL file, mode, block size, ignore_errors) in both directions; '
                     'non-trivial = the text contains a line break / the content contains \\n / the file has >= 2 lines',
                bounds=dict(
                    quick='texts <= 5 over {a,space,2,8,9,\\n,\\r,\\v,\\f,\\x85,U+2028,U+2029}; a+c+b for ALL code points; '
                          'contents <= 7 bytes over {a,b,e-acute(2 bytes),\\n,\\r} x binary/text x blocksize 1..len+1 and '
                          'default, real files for <= 4 bytes; JSONL: <= 3 lines from {2 valid, 2 blank, 2 corrupt} x '
                          '\\n/\\r\\n x final terminator x binary/text x blocksize {default,1,3,7}; 4 lines with blocksize '
                          '{default,2}; multi-block files sweeping the 4096 edge; directed: files with \\v \\f \\x1c-\\x1e \\x85 U+2028 '
                          'U+2029 inside first/middle/last lines (not separators for reverse_iter_lines), JSONL files with runs '
                          'of 1200-1500 blank lines, lines nested 30000 deep',
                    thorough='texts <= 6; contents <= 9 bytes (+ U+1F600, 4 bytes, <= 6); JSONL <= 4 lines all block '
                             'sizes {default,1,2,3,5,7,16}; seeded random files'))
    rnd = random.Random(H.seed)
    tmp = tempfile.mkdtemp(prefix='c19-')
    try:
        # ---- iter_splitlines: exhaustive texts --------------------------------------------------------
        for k in range(0, (6 if H.thorough else 5) + 1):
            for p in itertools.product(TEXT_ALPHA, repeat=k):
                t = ''.join(p)
                H.ev(key=t, nontrivial=not BRSET.isdisjoint(p), part='splitlines_texts', sample=t)
                check_splitlines(H, t)
            if H.out_of_time(0.4):
                H.note_truncated('iter_splitlines texts stopped at length %d by time budget' % k)
                break
        for t in ('a\r\n\r\nb', 'x' * 5000 + '\n' + 'y' * 5000, '\r\n' * 50, 'a 28 b 29 c\u2028d\u2029', ' 2028', '\\u2028'):
            H.ev(key=t, nontrivial=True, part='splitlines_texts')
            check_splitlines(H, t)
        check_codepoints(H)

        # ---- reverse_iter_lines: exhaustive contents x block sizes --------------------------------------
        syms = [b'a', b'b', 'é'.encode(), b'\n', b'\r']
        nb = 9 if H.thorough else 7
        for content in contents_upto(nb, syms):
            sizes = list(range(1, len(content) + 2)) + [None]
            for mode in ('binary', 'text'):
                check_reverse(H, content, mode, sizes)
                if len(content) <= 4:
                    check_reverse(H, content, mode, sizes, tmp=tmp, part='reverse_real_files')
            if H.out_of_time(0.55):
                H.note_truncated('reverse_iter_lines contents stopped at %d bytes by time budget' % len(content))
                break
        extra = [('a\né\n'.encode('latin-1'), 'text', 'latin-1'), ('é\nb'.encode('latin-1'), 'text', 'latin-1'),
                 ('\U0001F600\n\U0001F600b\r\n\n'.encode(), 'text', 'utf-8'),
                 ('\U0001F600\n\U0001F600b\r\n\n'.encode(), 'binary', 'utf-8'),
                 (b'\n' * 9, 'binary', 'utf-8'), (b'x' * 5000 + b'\r\n' + b'y' * 4096 + b'\n', 'text', 'utf-8'),
                 (b'\n' + b'x' * 4095 + b'\n' + b'y' * 4095, 'binary', 'utf-8')]
        # characters that str.splitlines() treats as line breaks but reverse_iter_lines must not (only \n / \r\n separate):
        # in the first line (the remainder handled at the start of the file), in the middle and in the last line
        for ch in ('\x0b', '\x0c', '\x1c', '\x1d', '\x1e', '\x85', '\u2028', '\u2029'):
            for t in ('a%sb\nc\n' % ch, 'a\nb%sc\nd' % ch, 'a\nb%s' % ch, '%s' % ch, 'a%sb' % ch, '%s\r\n%s\n' % (ch, ch)):
                extra += [(t.encode(), 'text', 'utf-8'), (t.encode(), 'binary', 'utf-8')]
        if H.thorough:
            extra += [(c, m, 'utf-8') for c in contents_upto(6, syms[:1] + ['\U0001F600'.encode(), b'\n', b'\r'])
                      for m in ('binary', 'text')]
            pool = syms + [b'\r\n', b'\n', 'ab€'.encode()]
            extra += [(b''.join(rnd.choice(pool) for _ in range(rnd.randint(5, 40))), rnd.choice(['binary', 'text']), 'utf-8')
                      for _ in range(3000)]
        for content, mode, enc in extra:
            n = len(content)
            sizes = (list(range(1, n + 2)) if n < 64 else [1, 2, 3, 7, 4095, 4096, 4097, n - 1, n, n + 1]) + [None]
            check_reverse(H, content, mode, sizes, enc=enc, part='reverse_directed')

        # ---- JSONLIterator ---------------------------------------------------------------------------
        def mk(kind, i):
            return {'V1': b'{"k": %d}' % i, 'V2': ('["é", %d]' % i).encode(), 'B1': b'', 'B2': b' \t',
                    'C1': b'{"k": %d' % i, 'C2': b'\xff\xfe{'}[kind]
        kinds = ['V1', 'V2', 'B1', 'B2', 'C1', 'C2']
        for nlines in range(0, 5):
            if nlines <= 3:
                bss = [None, 1, 2, 3, 5, 7, 16] if H.thorough else [None, 1, 3, 7]
            else:
                bss = [None, 1, 2, 3, 5, 7, 16] if H.thorough else [None, 2]
            for ks in itertools.product(kinds, repeat=nlines):
                lines = [mk(k, i) for i, k in enumerate(ks)]
                for term in (b'\n', b'\r\n'):
                    for last_term in (True, False):
                        for mode in ('binary', 'text'):
                            if mode == 'text' and 'C2' in ks:
                                continue          # not decodable as text at all: outside the statement
                            for bs in bss:
                                check_jsonl(H, lines, term, last_term, mode, bs, 'jsonl_small')
                if H.out_of_time(0.9):
                    H.note_truncated('JSONL files of %d lines stopped by time budget' % nlines)
                    break
        # lines that are undecodable for reasons other than a syntax error (json.loads does not raise ValueError for them):
        # nesting far beyond the recursion limit; with ignore_errors they must be skipped like any other corrupt line
        deep = b'[' * 30000
        for lines in ([b'{"k": 1}', deep, b'{"k": 2}'], [deep, b'{"k": 1}'], [b'{"k": 1}', deep]):
            for mode in ('binary', 'text'):
                check_jsonl(H, lines, b'\n', True, mode, None, 'jsonl_deep_nesting')
        # long runs of blank lines (skipping must not consume stack): more than the default recursion limit of them
        for lines in ([b'{"k": 1}'] + [b''] * 1500 + [b'{"k": 2}'], [b' '] * 1200 + [b'{"k": 1}'], [b'{"k": 1}'] + [b''] * 1200):
            for mode in ('binary', 'text'):
                check_jsonl(H, lines, b'\n', True, mode, None, 'jsonl_blank_runs')
        # multi-block files: sweep the position of the 4096-byte edge across a line boundary and a 2-byte char
        for first in (b'', b'{"k": 0}', b'{"k":'):
            for pad in range(4084, 4096):
                big = ('{"i": 2, "p": "%s"}' % ('é' * ((pad - 20) // 2) + 'x' * (pad % 2))).encode()
                lines = [first, b'{"i": 1, "p": "%s"}' % (b'y' * 5000), b'', big]
                for term in (b'\n', b'\r\n'):
                    for mode in ('binary', 'text'):
                        check_jsonl(H, lines, term, True, mode, None, 'jsonl_multiblock')
        if H.thorough:
            for _ in range(400):
                lines = [mk(rnd.choice(kinds[:5]), i) + (b' ' * rnd.choice([0, 0, 3000])) for i in range(rnd.randint(1, 12))]
                check_jsonl(H, lines, rnd.choice([b'\n', b'\r\n']), rnd.random() < .5, rnd.choice(['binary', 'text']),
                            rnd.choice([None, 1, 4, 64]), 'jsonl_random')
    finally:
        shutil.rmtree(tmp, ignore_errors=True)
    H.finish()


main_wrapper(run)
