"""C08 bounded stand-in: remap / research / get_path on every small nested structure.

Contract (from the property statement), for every structure and every visit program:
  remap_equals_recursive_rebuild   iso(rebuild(root, visit), remap(root, visit)): same container types, keys, order,
                                   leaves; an exception of the rebuild (e.g. unhashable set member) must be the
                                   same exception type in remap
  shared_objects_stay_shared       (the aliasing part of the same comparison)
  default_deep_copy_equal          default callbacks: iso(root, remap(root))
  default_shares_no_mutable        ... and no dict/list/set of the result is an object of the input
  input_not_mutated                identity/value snapshot of the whole input graph unchanged after every call
  self_referential_terminates      every call returns within the per-structure alarm (1 s of CPU time for all calls on one structure)
  research_paths_retrievable       get_path(root, p) is v for every (p, v) of research(root) but the root's own
                                   report ((None,), root), which is not a nested item
Reference: refmodels/remap_ref.py (recursive, memoised on id, written from the statement).
"""
import os
import signal
import sys

if os.environ.get('PYTHONHASHSEED') != '0':      # set iteration order (str hashes) fixed => deterministic witnesses
    os.environ['PYTHONHASHSEED'] = '0'
    os.execv(sys.executable, [sys.executable, '-B'] + sys.argv)

sys.path.insert(0, os.path.dirname(os.path.dirname(os.path.abspath(__file__))))
from bounded.harness import Harness, main_wrapper  # noqa: E402
from refmodels.remap_ref import (rebuild, iso, build, spec_source, snapshot, containers, has_cycle,  # noqa: E402
                                 has_sharing, cycle_through_tuple, kind, MUTABLE, _r)

from boltons.iterutils import remap, research, get_path  # noqa: E402

HDR = ('import sys\nsys.path.insert(0, "/verif")\nfrom boltons.iterutils import remap, research, get_path\n'
       'from refmodels.remap_ref import rebuild, iso\n')
LEAVES = (0, 'x', None)
ALL_TYPES = ('dict', 'list', 'tuple', 'set', 'frozenset')

# visit programs over (path, key, value): source text, so that replay snippets carry the same program
VISITS = {
    'keep': 'lambda p, k, v: True',
    'identity': 'lambda p, k, v: (k, v)',
    'drop_by_key': 'lambda p, k, v: k != 0 and k != "a"',
    'drop_by_value': 'lambda p, k, v: not (v is None or (isinstance(v, (dict, list, tuple, set, frozenset)) and len(v) == 0))',
    'drop_by_depth': 'lambda p, k, v: len(p) != 1',
    'rewrite_key': 'lambda p, k, v: ("z", v) if (k == "a" or k == 0) else (k, v)',
    'rewrite_value': 'lambda p, k, v: (k, {0: "x", "x": None}[v]) if (isinstance(v, (int, str)) and v in (0, "x")) else (k, v)',
    'raise_and_ignore': 'lambda p, k, v: (1 // 0) if (v is None or k == "a") else (v != "x")',
}
VISIT_FUNCS = {n: eval(s) for n, s in VISITS.items()}


class Alarm(Exception):
    pass


def _on_alarm(signum, frame):
    raise Alarm()


def gen_specs(max_nodes, width, max_leaves, max_slots=99):
    """every structure in canonical depth-first numbering: node 0 is the root, a slot is a leaf, a reference to
    any existing node (earlier or enclosing) or a fresh node.  Members of set/frozenset (and of tuples that must
    be hashable) are restricted to hashable shapes; what remains unconstructible is rejected by build()."""
    nodes = []       # [type, slots, must_be_hashable]
    stack = []

    def hashable_done(j, busy=()):
        t, slots, _ = nodes[j]
        if j in stack or j in busy or t in ('dict', 'list', 'set'):
            return False
        return t == 'frozenset' or all(s[0] == 'L' or hashable_done(s[1], busy + (j,)) for s in slots)

    def rec(nleaf):
        nonlocal nslots
        if not stack:
            yield tuple((t, tuple(s)) for t, s, _ in nodes)
            return
        cur = stack[-1]
        t, slots, musth = nodes[cur]
        stack.pop()
        yield from rec(nleaf)
        stack.append(cur)
        if len(slots) >= width or len(slots) >= (3 if t == "dict" else 9) or nslots >= max_slots:
            return
        nslots += 1
        try:
            yield from more(cur, t, slots, musth, nleaf)
        finally:
            nslots -= 1

    def more(cur, t, slots, musth, nleaf):
        is_set = t in ('set', 'frozenset')
        need_h = is_set or musth
        if nleaf < max_leaves:
            for li, lf in enumerate(LEAVES):
                if is_set and slots and (slots[-1][0] != 'L' or LEAVES.index(slots[-1][1]) >= li):
                    continue
                slots.append(('L', lf))
                yield from rec(nleaf + 1)
                slots.pop()
        for j in range(len(nodes)):
            if need_h and not hashable_done(j):
                continue
            if is_set and ('R', j) in slots:
                continue
            slots.append(('R', j))
            yield from rec(nleaf)
            slots.pop()
        if len(nodes) < max_nodes:
            for t2 in (('tuple', 'frozenset') if need_h else ALL_TYPES):
                nodes.append([t2, [], need_h])
                slots.append(('R', len(nodes) - 1))
                stack.append(len(nodes) - 1)
                yield from rec(nleaf)
                stack.pop()
                slots.pop()
                nodes.pop()

    nslots = 0
    for t in ALL_TYPES:
        nodes[:] = [[t, [], False]]
        stack[:] = [0]
        yield from rec(0)


def walk(root, path):
    """follow a research path the way default_enter numbers items (sets by enumerate index)"""
    cur, through_set = root, False
    for seg in path:
        if type(cur) in (set, frozenset):
            through_set = True
            cur = list(cur)[seg]
        else:
            cur = cur[seg]
    return cur, through_set


def shape_class(root):
    return 'cyclic structure' if has_cycle(root) else ('shared sub-object' if has_sharing(root) else 'tree')


class Src:
    """source text of the structure, built only when a failure needs it (len/repr/str/+ behave like the text)"""
    def __init__(self, spec):
        self.spec, self.text = spec, None

    def __str__(self):
        if self.text is None:
            self.text = spec_source(self.spec)
        return self.text
    __repr__ = __str__

    def size(self):     # lower bound of len(repr(witness)) without building the text
        return 12 * len(self.spec) + 6 * sum(len(sl) for _, sl in self.spec)

    def __radd__(self, other):
        return other + str(self)

    def __add__(self, other):
        return str(self) + other


def fail(H, clause, site, wclass, src, detail, snip):
    """H.fail, but a witness that cannot beat the one already kept for the triple is only counted"""
    key = (clause, site, wclass)
    cur = H.failures.get(key)
    if cur is not None and isinstance(src, Src) and cur['_size'] <= src.size():
        H.fail_counts[key] += 1
        return
    H.fail(clause, site, wclass, str(src), detail() if callable(detail) else detail, snip() if callable(snip) else snip)


def mutation_culprit(H, spec, shape, calls):
    """slow path: the input changed during the calls on one structure; find the first call that does it"""
    for site, text, fn in calls:
        root = build(spec)
        s0 = snapshot(root)
        try:
            fn(root)
        except Exception:  # noqa
            pass
        if snapshot(root) != s0:
            src = spec_source(spec)
            H.fail('input_not_mutated', site, shape, src, 'input changed by ' + text,
                   HDR + src + 'from refmodels.remap_ref import snapshot\ns0 = snapshot(root)\n' + text + '\nassert snapshot(root) == s0\n')
            return
    H.fail('input_not_mutated', 'remap', shape, spec_source(spec), 'input changed by the sequence of calls', None)


def check_structure(H, spec, root, sid, quick):
    src = Src(spec)
    tuple_cycle = cycle_through_tuple(root)
    shape = 'reference cycle passing through a tuple' if tuple_cycle else shape_class(root)
    snap0 = snapshot(root)
    in_ids = containers(root)
    nontriv = len(in_ids) >= 2
    calls = [('remap', 'remap(root)', lambda r: remap(r))]

    # default callbacks: equal deep copy, no shared mutable container
    H.ev(key=(sid, 0), nontrivial=nontriv, part='remap',
         sample=dict(structure=str(src), visit='default') if nontriv and sid % 997 == 0 else None)
    try:
        out = remap(root)
    except Alarm:
        raise
    except Exception as e:  # noqa
        fail(H, 'default_deep_copy_equal', 'remap', shape, src, 'raised %s: %s' % (type(e).__name__, e),
             lambda: HDR + src + 'remap(root)\n')
        out = None
    if out is not None:
        r = iso(root, out)
        if r:
            fail(H, 'shared_objects_stay_shared' if r.startswith('aliasing') and not tuple_cycle else 'default_deep_copy_equal',
                 'remap', shape, src, r, lambda: HDR + src + 'assert iso(root, remap(root)) is None, iso(root, remap(root))\n')
        common = [c for i, c in containers(out).items() if i in in_ids and type(c) in MUTABLE]
        if common:
            fail(H, 'default_shares_no_mutable', 'remap', shape, src, 'result contains an input %s' % type(common[0]).__name__,
                 lambda: HDR + src + 'from refmodels.remap_ref import containers\nout = remap(root)\n'
                 'assert not [c for i, c in containers(out).items() if i in containers(root) and type(c) in (dict, list, set)]\n')
    # visit programs
    for vname, vf in VISIT_FUNCS.items():
        ign = vname == 'raise_and_ignore'
        kw = dict(reraise_visit=False) if ign else {}
        kws = ', reraise_visit=False' if ign else ''
        H.ev(key=(sid, vname), nontrivial=nontriv, part='remap')
        calls.append(('remap', 'remap(root, visit=%s%s)' % (VISITS[vname], kws), lambda r, vf=vf, kw=kw: remap(r, visit=vf, **kw)))
        try:
            exp, exp_exc = rebuild(root, vf, ignore_errors=ign), None
        except Exception as e:  # noqa  (the rebuild itself is impossible, e.g. an unhashable value into a set)
            exp, exp_exc = None, e
        try:
            got, got_exc = remap(root, visit=vf, **kw), None
        except Alarm:
            raise
        except Exception as e:  # noqa
            got, got_exc = None, e

        def snip(vname=vname, ign=ign, kws=kws):
            return (HDR + src + 'visit = %s\ntry:\n    exp = rebuild(root, visit, ignore_errors=%r)\nexcept Exception as e:\n'
                    '    exp = type(e)\ntry:\n    got = remap(root, visit=visit%s)\nexcept Exception as e:\n    got = type(e)\n'
                    'assert (exp is got) if isinstance(exp, type) or isinstance(got, type) else iso(exp, got) is None, (exp, got)\n'
                    % (VISITS[vname], ign, kws))
        wc = 'visit=%s, %s' % (vname, shape)
        if exp_exc is not None or got_exc is not None:
            if type(exp_exc) is not type(got_exc):
                fail(H, 'remap_equals_recursive_rebuild', 'remap', wc, src,
                     'rebuild: %r, remap: %r' % (exp_exc if exp_exc else 'returns', got_exc if got_exc else 'returns'), snip)
        else:
            r = iso(exp, got)
            if r:
                fail(H, 'shared_objects_stay_shared' if r.startswith('aliasing') else 'remap_equals_recursive_rebuild',
                     'remap', wc, src, r, snip)
    # research / get_path
    queries = [('default query', None)] + ([] if quick else [('query=leaves', lambda p, k, v: kind(v) is None)])
    for qname, q in queries:
        H.ev(key=(sid, 'research', qname), nontrivial=nontriv, part='research')
        try:
            found = research(root) if q is None else research(root, q)
        except Alarm:
            raise
        except Exception as e:  # noqa
            fail(H, 'research_paths_retrievable', 'research', shape, src, 'raised %s: %s' % (type(e).__name__, e),
                 lambda: HDR + src + 'research(root)\n')
            continue
        if found and found[0][0] == (None,) and found[0][1] is root:
            found = found[1:]          # the root's own report is not a nested item
        for p, v in found:
            try:
                through_set = walk(root, p)[1]
            except Exception:  # noqa
                through_set = False
            wc = 'path passes through a set/frozenset' if through_set else 'path through dict/list/tuple only'
            try:
                gv = get_path(root, p)
                ok = gv is v
                detail = '' if ok else 'get_path(root, %r) returned %s, research reported %s' % (p, _r(gv), _r(v))
            except Alarm:
                raise
            except Exception as e:  # noqa
                ok, detail = False, 'get_path(root, %r) raised %s: %s' % (p, type(e).__name__, str(e)[:200])
            if not ok:
                fail(H, 'research_paths_retrievable', 'get_path', wc, src, detail,
                     lambda: HDR + src + 'for p, v in research(root):\n    if not (p == (None,) and v is root):\n'
                     '        assert get_path(root, p) is v, (p, v)\n')
                break    # one report per structure and query
    calls.append(('research', 'research(root)', lambda r: research(r)))
    if snapshot(root) != snap0:
        mutation_culprit(H, spec, shape, calls)
    return shape


def run():
    H = Harness('C08',
                rule='one case = one call of remap (default callbacks or one of 8 visit programs) or research+get_path on one '
                     'structure; non-trivial = the structure has at least two container nodes',
                bounds=dict(quick='all structures with <= 4 container nodes over dict/list/tuple/set/frozenset and <= 4 item slots in '
                                  'total (<= 3 per node), leaves {0,"x",None} (+ a pass over <= 3 nodes / <= 3 slots with leaves {b"\\x00a", b"", "xy", True, 1.5}), every aliasing pattern (a slot is a leaf, any existing node '
                                  'incl. an enclosing one, or a fresh node), dict keys "a",0,None by position; x (default callbacks + 8 '
                                  'visit programs) + research (default query) with get_path on every reported path',
                            thorough='<= 4 nodes with <= 5 slots in total, <= 5 nodes with <= 4 slots, and 5 nodes with 5 slots (<= 2 per node, no leaves); research also with a leaves-only query'))
    T = H.thorough
    # envelopes (max container nodes, max slots per node, max leaf slots, max slots in total): exhaustive within each;
    # a structure that fits an earlier envelope is not evaluated again
    envelopes = [(4, 3, 3, 4)] + ([(5, 3, 3, 4), (4, 3, 3, 5), (5, 2, 0, 5)] if T else [])

    def fits(spec, env):
        return (len(spec) <= env[0] and all(len(sl) <= env[1] for _, sl in spec)
                and sum(s[0] == 'L' for _, sl in spec for s in sl) <= env[2] and sum(len(sl) for _, sl in spec) <= env[3])
    signal.signal(signal.SIGVTALRM, _on_alarm)    # CPU-time alarm: a stalled machine cannot fire it
    stats = dict(specs=0, built=0, unconstructible=0, cyclic=0, shared=0)
    alarms = 0
    for ei, (mn, width, ml, ms) in enumerate(envelopes):
        for spec in gen_specs(mn, width, ml, ms):
            if ei and any(fits(spec, e) for e in envelopes[:ei]):
                continue
            stats['specs'] += 1
            root = build(spec)
            if root is None:
                stats['unconstructible'] += 1
                continue
            stats['built'] += 1
            signal.setitimer(signal.ITIMER_VIRTUAL, 1.0)
            try:
                sc = check_structure(H, spec, root, stats['specs'], not T)
                stats['cyclic'] += sc in ('cyclic structure', 'reference cycle passing through a tuple')
                stats['shared'] += sc == 'shared sub-object'
            except Alarm:
                H.fail('self_referential_terminates', 'remap', shape_class(root), spec_source(spec),
                       'no result within 1 s of CPU time',
                       HDR + spec_source(spec) + 'import signal\nsignal.alarm(5)\nremap(root)\nresearch(root)\n')
                alarms += 1
            finally:
                signal.setitimer(signal.ITIMER_VIRTUAL, 0)
            if alarms >= 3:
                H.note_truncated('enumeration stopped after 3 calls that did not terminate')
                break
            if stats['built'] % 256 == 0 and H.out_of_time(0.85 if not T else 0.72):
                H.note_truncated('enumeration stopped by time budget in envelope %d (max_nodes=%d) after %d structures'
                                 % (ei, mn, stats['built']))
                break
        else:
            continue
        break
    # directed: sequences longer than ten items under visits that rewrite keys (position of an item in a rebuilt list/tuple is
    # its position in the input, whatever key the visit returns: '10' < '2' as strings)
    from refmodels.remap_ref import rebuild as _rebuild, iso as _iso
    for seq in (list(range(12)), tuple(range(13)), [[i] for i in range(11)], {'k': list(range(12))}):
        for vname, vf in (('stringify keys', lambda p, k, v: (str(k), v)), ('negate integer keys', lambda p, k, v: (-k, v) if isinstance(k, int) else True),
                          ('constant key', lambda p, k, v: (0, v))):
            H.ev(key=('long-seq', repr(seq)[:30], vname), nontrivial=True, part='remap', sample=dict(root=repr(seq)[:60], visit=vname))
            try:
                exp = _rebuild(seq, vf)
                got = remap(seq, visit=vf)
                r = _iso(exp, got)
            except Exception as e:  # noqa
                r = 'raised %s: %s' % (type(e).__name__, e)
            if r:
                H.fail('remap_equals_recursive_rebuild', 'remap', 'sequence of more than ten items, visit that rewrites keys (%s)' % vname,
                       'root = %r' % (seq,), r, HDR + 'root = %r\ngot = remap(root, visit=lambda p, k, v: (str(k), v))\n'
                       'assert got == %r, got\n' % (seq, seq if not isinstance(seq, dict) else None) if not isinstance(seq, dict) else None)

    # second pass, small envelope: other scalar leaves that must never be traversed (bytes incl. a zero byte and empty, a
    # multi-character string, a bool, a float) - a leaf is whatever is not a dict/list/tuple/set/frozenset
    global LEAVES
    saved = LEAVES
    LEAVES = (b'\x00a', b'', 'xy', True, 1.5)
    try:
        n_alt = 0
        for spec in gen_specs(3, 2, 2, 3):
            if not any(s[0] == 'L' for _, sl in spec for s in sl):
                continue
            root = build(spec)
            if root is None:
                continue
            n_alt += 1
            signal.setitimer(signal.ITIMER_VIRTUAL, 1.0)
            try:
                check_structure(H, spec, root, 10 ** 6 + n_alt, not T)
            except Alarm:
                H.fail('self_referential_terminates', 'remap', shape_class(root), spec_source(spec), 'no result within 1 s of CPU time',
                       HDR + spec_source(spec) + 'import signal\nsignal.alarm(5)\nremap(root)\nresearch(root)\n')
            finally:
                signal.setitimer(signal.ITIMER_VIRTUAL, 0)
        stats['other_scalar_leaves'] = n_alt
    finally:
        LEAVES = saved
    H.parts.update(('structures_' + k, v) for k, v in stats.items())
    H.finish()


main_wrapper(run)
