"""C20 bounded stand-in: executable contract of ThresholdCounter against exact counts.

Contract (from the property statement), evaluated after every single addition:
  total == number of additions
  count[k] <= true[k]                                   (never over-counts)
  true[k] - count[k] <= floor(total / floor(1/threshold))   (bounded under-count; absent key: count 0)
  len <= 2/threshold
  get_common_count() + get_uncommon_count() == total
  items/keys/values/elements/most_common/get/[]/in agree with the per-key counts
  most_common sorted by descending count; most_common() == all pairs
  update(iterable of keys | mapping key->count | **kwargs) == the corresponding adds
"""
import itertools
import math
import sys
import os

sys.path.insert(0, os.path.dirname(os.path.dirname(os.path.abspath(__file__))))
from bounded.harness import Harness, main_wrapper  # noqa: E402

from boltons.cacheutils import ThresholdCounter  # noqa: E402

HDR = 'from boltons.cacheutils import ThresholdCounter\n'


def thr_for(w):
    # a threshold with int(1/threshold) == w
    t = {1: 0.6, 2: 0.4, 3: 0.3, 4: 0.25, 5: 0.2, 60: 1 / 60.0}.get(w) or 1.0 / w
    assert int(1 / t) == w, (w, t)
    return t


def check_state(H, tc, true, n, w, thr, witness, site):
    def F(clause, wclass, detail, snip=None):
        H.fail(clause, site, wclass, witness, detail, snip)
    if tc.total != n:
        F('total_counts_additions', 'any stream', 'total=%r after %d additions' % (tc.total, n))
    slack = n // w
    try:
        items = tc.items()
        keys = tc.keys()
        values = tc.values()
    except Exception as e:
        F('readers_agree', 'reader raises', 'items/keys/values raised %r' % e)
        return
    d = dict(items)
    if len(d) != len(items):
        F('readers_agree', 'duplicate key in items', repr(items))
    for k, t in true.items():
        c = tc.get(k)
        if c > t:
            F('never_overcounts', 'any stream', 'key %r reported %r true %r' % (k, c, t))
        if t - c > slack:
            F('undercount_bounded', 'any stream', 'key %r reported %r true %r slack %r' % (k, c, t, slack))
        if t > slack and k not in tc:
            F('frequent_keys_present', 'any stream', 'key %r true %r > slack %r absent' % (k, t, slack))
        if (k in tc) != (k in d):
            F('readers_agree', 'in vs items', 'key %r' % (k,))
        if k in d:
            if tc[k] != d[k] or c != d[k]:
                F('readers_agree', '[] / get vs items', 'key %r' % (k,))
        else:
            if c != 0:
                F('readers_agree', 'get of absent key', 'key %r -> %r' % (k, c))
            try:
                tc[k]
                F('readers_agree', '[] of absent key returns', 'key %r' % (k,))
            except KeyError:
                pass
    if len(tc) != len(d):
        F('readers_agree', 'len vs items', '%r vs %r' % (len(tc), len(d)))
    if list(keys) != [k for k, _ in items] or list(values) != [v for _, v in items]:
        F('readers_agree', 'keys/values vs items', repr((keys, values, items)))
    if len(tc) > 2.0 / thr and w <= 5:
        F('size_bound', 'short stream (w<=5, len<=3w)', 'len %d > 2/threshold = %r' % (len(tc), 2.0 / thr))
    cc, uc = tc.get_common_count(), tc.get_uncommon_count()
    if cc + uc != n or cc != sum(d.values()):
        F('common_plus_uncommon', 'any stream', 'common %r uncommon %r total %r' % (cc, uc, n))
    els = sorted(tc.elements(), key=repr)
    want = sorted([k for k, v in items for _ in range(v)], key=repr)
    if els != want:
        F('readers_agree', 'elements vs items', repr((els, want)))
    try:
        mc = tc.most_common()
    except Exception as e:
        mc = e
    if not isinstance(mc, list) or sorted(mc, key=repr) != sorted(items, key=repr):
        F('most_common_all_pairs', 'n omitted', 'most_common() -> %r, items %r' % (mc, items),
          HDR + 'tc = ThresholdCounter(%r)\nfor k in %r: tc.add(k)\n'
          'assert sorted(tc.most_common()) == sorted(tc.items()), tc.most_common()\n' % (thr, witness))
    elif any(mc[i][1] < mc[i + 1][1] for i in range(len(mc) - 1)):
        F('most_common_sorted', 'n omitted', repr(mc))
    for nn in (0, 1, 2, len(items) + 1):
        try:
            m = tc.most_common(nn)
        except Exception as e:
            F('most_common_sorted', 'n given; raises', 'most_common(%d) raised %r (items %r)' % (nn, e, items))
            continue
        exp_counts = sorted(d.values(), reverse=True)[:nn]
        if [c for _, c in m] != exp_counts or any(d.get(k) != c for k, c in m) or len(set(k for k, _ in m)) != len(m):
            F('most_common_sorted', 'n given', 'most_common(%d) -> %r items %r' % (nn, m, items))


def run():
    H = Harness('C20',
                rule='every stream of additions over the key alphabet up to the length bound, contract evaluated '
                     'after every addition; a case is one (threshold, stream prefix); non-trivial = at least one '
                     'compaction happened or a key repeats; plus update() argument kinds and an adversarial '
                     'multi-level stream for the size clause',
                bounds=dict(quick='w=floor(1/threshold) in {1,2,3,4}; all streams of length <= 3w (w<=3) / 2w+2 (w=4) over w+1 keys',
                            thorough='w in {1..5}; streams <= 3w over w+1 keys (w<=4), 2w+2 for w=5; w=60 adversarial'))
    ws = [1, 2, 3, 4] + ([5] if H.thorough else [])
    for w in ws:
        thr = thr_for(w)
        keys = list(range(w + 1))
        L = 3 * w if w <= 3 else (3 * w if H.thorough and w == 4 else 2 * w + 2)
        # DFS over streams sharing prefixes: replay from scratch per stream is too slow; instead extend
        stack = [()]
        while stack:
            stream = stack.pop()
            if len(stream) == L:
                continue
            for k in keys:
                # symmetry: first occurrence of keys in increasing order
                mx = max(stream) if stream else -1
                if k > mx + 1:
                    continue
                s2 = stream + (k,)
                tc = ThresholdCounter(thr)
                true = {}
                for x in s2:
                    tc.add(x)
                    true[x] = true.get(x, 0) + 1
                nontriv = len(s2) >= w or len(set(s2)) < len(s2)
                H.ev(key=(w, s2), nontrivial=nontriv, sample=dict(threshold=thr, stream=list(s2)))
                check_state(H, tc, true, len(s2), w, thr, list(s2), 'ThresholdCounter.add')
                stack.append(s2)
            if H.out_of_time(0.6):
                H.note_truncated('stream enumeration w=%d stopped by time budget' % w)
                break

    # decimal thresholds (0.1, 0.2, ...): floor(1/threshold) is read as the decimal value (10, 5, ...), which is what
    # int(1/threshold) gives in float arithmetic; structured streams (all distinct; cyclic over w+1 keys; one heavy key)
    from fractions import Fraction
    for thr in (0.1, 0.2, 0.05, 0.01):
        w = int(Fraction(1) / Fraction(str(thr)))
        for kind in ('distinct', 'cyclic', 'heavy'):
            tc = ThresholdCounter(thr)
            true = {}
            stream = []
            for i in range(3 * w + 2):
                k = i if kind == 'distinct' else (i % (w + 1)) if kind == 'cyclic' else (0 if i % 2 else i)
                stream.append(k)
                tc.add(k)
                true[k] = true.get(k, 0) + 1
                H.ev(key=('dec', thr, kind, i), nontrivial=True, sample=dict(threshold=thr, stream=kind, length=i + 1))
                check_state(H, tc, true, i + 1, w, thr, dict(threshold=thr, stream='%s, first %d additions' % (kind, i + 1)),
                            'ThresholdCounter.add')

    # update() argument kinds
    for w in (2, 3):
        thr = thr_for(w)
        for counts in itertools.product(range(0, 4), repeat=3):
            mapping = {k: c for k, c in zip('abc', counts) if c or k == 'a'}
            seq = [k for k, c in mapping.items() for _ in range(c)]
            ref = ThresholdCounter(thr)
            for k in seq:
                ref.add(k)
            for kind in ('mapping', 'kwargs', 'iterable', 'iterator', 'mapping+kwargs', 'UserDict', 'MappingProxyType', 'ChainMap'):
                tc = ThresholdCounter(thr)
                try:
                    if kind == 'mapping':
                        tc.update(dict(mapping))
                    elif kind == 'kwargs':
                        tc.update(None, **mapping)
                    elif kind == 'UserDict':
                        import collections
                        tc.update(collections.UserDict(mapping))
                    elif kind == 'MappingProxyType':
                        import types
                        tc.update(types.MappingProxyType(dict(mapping)))
                    elif kind == 'ChainMap':
                        import collections
                        tc.update(collections.ChainMap(dict(mapping)))
                    elif kind == 'iterable':
                        tc.update(list(seq))
                    elif kind == 'iterator':
                        tc.update(iter(seq))
                    else:
                        tc.update({'a': mapping.get('a', 0)}, **{k: v for k, v in mapping.items() if k != 'a'})
                except Exception as e:
                    H.fail('update_equals_adds', 'ThresholdCounter.update', kind + ' argument raises',
                           dict(threshold=thr, mapping=mapping), repr(e))
                    continue
                H.ev(key=('upd', w, counts, kind), sample=dict(threshold=thr, update=kind, mapping=mapping))
                n = len(seq)
                if tc.total != n or sorted(tc.items()) != sorted(ref.items()):
                    H.fail('update_equals_adds', 'ThresholdCounter.update', kind + ' argument',
                           dict(threshold=thr, mapping=mapping),
                           'total %r items %r; expected total %r items %r' % (tc.total, tc.items(), n, ref.items()),
                           HDR + 'import collections, types\ntc = ThresholdCounter(0.4)\ntc.update(%s)\n'
                           'assert tc.total == 3 and tc["a"] == 3, (tc.total, tc.items())\n' % {
                               'mapping': '{"a": 3}', 'UserDict': 'collections.UserDict({"a": 3})',
                               'MappingProxyType': 'types.MappingProxyType({"a": 3})',
                               'ChainMap': 'collections.ChainMap({"a": 3})'}.get(kind)
                           if kind in ('mapping', 'UserDict', 'MappingProxyType', 'ChainMap') else None)

    # no tracked key at all (everything was dropped by a compaction): every reader answers "nothing", most_common(n) included
    for w in (2, 3, 4):
        thr = thr_for(w)
        tc = ThresholdCounter(thr)
        for k in 'abcdefgh'[:w]:
            tc.add(k)
        H.ev(key=('empty-after-compaction', w), sample=dict(threshold=thr, stream='abcdefgh'[:w]))
        if len(tc) == 0:
            for nn in (None, 0, 1, 2):
                try:
                    got = tc.most_common() if nn is None else tc.most_common(nn)
                except Exception as e:
                    got = e
                if got != []:
                    H.fail('most_common_sorted', 'ThresholdCounter.most_common', 'no tracked key at all', dict(threshold=thr, n=nn),
                           'most_common(%r) -> %r on a counter without tracked keys, expected []' % (nn, got),
                           HDR + 'tc = ThresholdCounter(%r)\nfor k in %r: tc.add(k)\nassert len(tc) == 0 and tc.most_common(1) == []\n'
                           % (thr, 'abcdefgh'[:w]))

    # a keyword that names a key of the mapping argument: both counts are added (mapping first, then the keywords)
    for w in (2, 3, 5):
        thr = thr_for(w)
        for ca, cb, ka, kc in itertools.product(range(0, 3), range(0, 3), range(1, 4), range(0, 2)):
            ref = ThresholdCounter(thr)
            for k in ['a'] * ca + ['b'] * cb + ['a'] * ka + ['c'] * kc:
                ref.add(k)
            tc = ThresholdCounter(thr)
            wit = dict(threshold=thr, update="update({'a': %d, 'b': %d}, a=%d, c=%d)" % (ca, cb, ka, kc))
            H.ev(key=('upd-both', w, ca, cb, ka, kc), sample=wit)
            try:
                tc.update({'a': ca, 'b': cb}, a=ka, c=kc)
            except Exception as e:
                H.fail('update_equals_adds', 'ThresholdCounter.update', 'mapping plus a keyword naming one of its keys; raises', wit, repr(e))
                continue
            if tc.total != ref.total or sorted(tc.items()) != sorted(ref.items()):
                H.fail('update_equals_adds', 'ThresholdCounter.update', 'mapping plus a keyword naming one of its keys', wit,
                       'total %r items %r; expected total %r items %r' % (tc.total, sorted(tc.items()), ref.total, sorted(ref.items())),
                       HDR + 'tc = ThresholdCounter(0.4)\ntc.update({"a": 1}, a=2)\nassert tc.total == 3 and tc["a"] == 3, (tc.total, tc.items())\n')

    # adversarial multi-level stream for the size clause (w additions per bucket; keys entering in
    # bucket b-j with count j+2 survive compaction b)
    for w in ([12, 60] if H.thorough else [12, 60]):
        thr = 1.0 / w
        if int(1 / thr) != w:
            continue
        tc = ThresholdCounter(thr)
        true = {}
        n = 0
        stream = []
        levels = [5, 4, 3, 2]
        kid = 0
        worst = 0
        for reps in levels:
            for _ in range(w // reps):
                kid += 1
                for _ in range(reps):
                    stream.append(kid)
        for i in range(w - 1):
            kid += 1
            stream.append(kid)
        for k in stream:
            tc.add(k)
            n += 1
            true[k] = true.get(k, 0) + 1
            worst = max(worst, len(tc))
            H.ev(key=('adv', w, n), nontrivial=True)
            if len(tc) > 2.0 / thr:
                # classify: does the state still respect the provable lossy-counting bound?
                b = tc._cur_bucket if hasattr(tc, '_cur_bucket') else n // w + 1
                theo = w * (1 + sum(1.0 / j for j in range(1, b + 1)))
                wcl = ('multi-level stream with repeated keys (>=4 count levels), within the lossy-counting bound'
                       if len(tc) <= theo else 'exceeds even the lossy-counting bound w*(1+H_b)')
                H.fail('size_bound', 'ThresholdCounter.add', wcl,
                       dict(threshold='1/%d' % w, stream='levels %r x floor(w/level) keys, then w-1 singletons' % levels,
                            additions=n),
                       'len %d > 2/threshold = %d' % (len(tc), 2 * w),
                       HDR + 'w=%d\ntc = ThresholdCounter(1.0/w)\nkid=0\nfor reps in %r:\n for _ in range(w//reps):\n  kid+=1\n  for _ in range(reps): tc.add(kid)\n'
                       'for i in range(w-1):\n kid+=1; tc.add(kid)\nassert len(tc) <= 2*w, len(tc)\n' % (w, levels))
                break
        # the other clauses on the long stream too
        check_state(H, tc, true, n, w, thr, 'adversarial stream w=%d' % w, 'ThresholdCounter.add')
    H.finish()


main_wrapper(run)
