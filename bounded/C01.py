"""C01 bounded stand-in: OrderedMultiDict (and FastIterOrderedMultiDict, urlutils.QueryParamDict) against a
plain insertion-ordered list of (key, value) pairs (refmodels/pairlist.py, written from the statement).

Contract, evaluated on the real classes:
  after construction (every argument form) and after every step of every operation history, EVERY reader
  (items/keys/values/iter* with multi on and off, iteration, reversed, len, in, [], get, getlist, todict,
  counts, inverted, sorted, sortedvalues, repr, views, ==/!= against OMDs and plain mappings, copy(),
  copy.copy, copy.deepcopy, pickle round trips) returns what the pair-list model returns and does not raise;
  every mutator returns / raises what the model does.  popitem: the statement is silent on which pairs go:
  "last pair only" and "all pairs of the last pair's key" are both accepted, result must be (k, last value of k).

Parts: readers (all readers on every constructed pair list), ctor (argument forms of the constructor),
hist (breadth-first over distinct concrete states, every operation instance from every state reached),
exotic (None / tuple / 0 keys, None / unhashable values), random (thorough: long random histories).

Failure identity: (clause, site, wclass); wclass = "<argument form>: <features shared by ALL failing
witnesses of that clause/site/form>", so one defect gives one triple independent of enumeration order.
A reader that is wrong on plainly constructed states is reported at the reader and then not re-reported
after every mutator; a reader that goes wrong only after a mutator is reported at that mutator.
"""
import copy
import itertools
import operator
import os
import pickle
import random
import sys

sys.path.insert(0, os.path.dirname(os.path.dirname(os.path.abspath(__file__))))
from bounded.harness import Harness, main_wrapper  # noqa: E402
from refmodels.pairlist import PairList  # noqa: E402

from boltons import dictutils, urlutils  # noqa: E402

HDR = ('import copy, pickle, operator\n'
       'def R(f):\n    try: return f()\n    except Exception as e: return "EXC:" + type(e).__name__\n'
       'def N(x): return (type(x).__name__, x.items(multi=True))\n'
       "K = ('a', 'b', 'c', None, 0)\n")
K = ('a', 'b', 'c', None, 0)
CLASSES = [('OrderedMultiDict', getattr(dictutils, 'OrderedMultiDict', None),
            'from boltons.dictutils import OrderedMultiDict as C\n'),
           # FastIterOrderedMultiDict is NOT in scope: the statement is about OrderedMultiDict (OMD/MultiDict aliases) and
           # QueryParamDict; the undocumented FastIter subclass has skip-list defects of its own (DESIGN.md, findings
           # outside the given properties)
           ('QueryParamDict', getattr(urlutils, 'QueryParamDict', None),
            'from boltons.urlutils import QueryParamDict as C\n')]
FEATURE_ORDER = ['one-shot iterator argument', 'argument repeats a key', 'a repeated argument key is not yet present',
                 'argument is empty', 'key absent', 'key present', 'key has several values',
                 'state has a repeated key', 'state contains the pair (None, None)', 'non-empty state', 'empty state']
STATE_FEATS = set(FEATURE_ORDER[-4:])
DERIVED = {'__ior__': 'update', 'update': '__setitem__', 'setdefault': '__setitem__', '__setitem__': '__delitem__',
           'pop': 'popall', 'popall': '__delitem__', 'popitem': 'pop'}
SV = 'single_value_reads_most_recent'
RD = 'reads_equal_pairlist'


def R(f):
    try:
        return f()
    except Exception as e:  # noqa
        return 'EXC:' + type(e).__name__


def N(x):
    return (type(x).__name__, x.items(multi=True))


G = dict(K=K, R=R, N=N, copy=copy, pickle=pickle, operator=operator)


def fn_of(src):
    """source text (also used verbatim in the replay snippet) -> function of (d, C)"""
    return eval('lambda d, C: ' + src, G)


def run_src(f, d, C):
    try:
        return f(d, C)
    except Exception as e:  # noqa
        return 'EXC:' + type(e).__name__


def state_feats(m):
    f = set()
    f.add('non-empty state' if m.p else 'empty state')
    if len(m.keys()) < len(m.p):
        f.add('state has a repeated key')
    if any(k is None and v is None for k, v in m.p):
        f.add('state contains the pair (None, None)')
    return f


# ---- readers -------------------------------------------------------------------------------------------
def make_readers():
    rs = []

    def A(name, meth, form, src, fn, base=None, clause=RD):
        rs.append(dict(name=name, meth=meth, form=form, src=src, code=fn_of(src), fn=fn,
                       base=base, clause=clause))
    for mu in (False, True):
        a = 'multi=True' if mu else ''
        fm = 'multi=%s' % mu
        cl = RD if mu else SV
        A('iteritems(%s)' % a, 'iteritems', fm, 'list(d.iteritems(%s))' % a, lambda m, cn, mu=mu: m.items(mu), clause=cl)
        A('items(%s)' % a, 'items', fm, 'd.items(%s)' % a, lambda m, cn, mu=mu: m.items(mu), 'iteritems(%s)' % a, cl)
        A('iterkeys(%s)' % a, 'iterkeys', fm, 'list(d.iterkeys(%s))' % a, lambda m, cn, mu=mu: m.keys(mu))
        A('keys(%s)' % a, 'keys', fm, 'd.keys(%s)' % a, lambda m, cn, mu=mu: m.keys(mu), 'iterkeys(%s)' % a)
        A('itervalues(%s)' % a, 'itervalues', fm, 'list(d.itervalues(%s))' % a, lambda m, cn, mu=mu: m.values(mu),
          'iteritems(%s)' % a, cl)
        A('values(%s)' % a, 'values', fm, 'd.values(%s)' % a, lambda m, cn, mu=mu: m.values(mu), 'itervalues(%s)' % a, cl)
    A('__iter__', '__iter__', 'no argument', 'list(d)', lambda m, cn: m.keys(), 'iterkeys()')
    A('__reversed__', '__reversed__', 'no argument', 'list(reversed(d))', lambda m, cn: m.reversed())
    A('__len__', '__len__', 'no argument', '(len(d), bool(d))', lambda m, cn: (m.len(), bool(m.p)))
    A('__contains__', '__contains__', 'key', '[k in d for k in K]', lambda m, cn: [m.has(k) for k in K])
    A('__getitem__', '__getitem__', 'key', '[R(lambda: d[k]) for k in K]',
      lambda m, cn: [R(lambda: m.getitem(k)) for k in K], clause=SV)
    A('get', 'get', 'key', '[(d.get(k), d.get(k, "D")) for k in K]',
      lambda m, cn: [(m.get(k), m.get(k, 'D')) for k in K], clause=SV)
    A('getlist', 'getlist', 'key', '[(d.getlist(k), d.getlist(k, "D")) for k in K]',
      lambda m, cn: [(m.getlist(k), m.getlist(k, 'D')) for k in K])
    A('todict()', 'todict', 'multi=False', 'd.todict()', lambda m, cn: m.todict(), clause=SV)
    A('todict(multi=True)', 'todict', 'multi=True', 'd.todict(multi=True)', lambda m, cn: m.todict(True))
    A('counts', 'counts', 'no argument', 'N(d.counts())', lambda m, cn: (cn, m.counts()))
    A('inverted', 'inverted', 'no argument', 'N(d.inverted())', lambda m, cn: (cn, m.inverted()))
    A('sorted', 'sorted', 'default / reverse / key / reverse with tied sort keys (stability)',
      '[R(lambda: N(d.sorted())), R(lambda: N(d.sorted(reverse=True))), '
      'R(lambda: N(d.sorted(key=lambda i: repr(i[1])))), R(lambda: N(d.sorted(key=lambda i: 0, reverse=True))), '
      'R(lambda: N(d.sorted(key=lambda i: repr(i[1]), reverse=True)))]',
      lambda m, cn: [R(lambda: (cn, m.sorted())), R(lambda: (cn, m.sorted(reverse=True))),
                     R(lambda: (cn, m.sorted(key=lambda i: repr(i[1])))), R(lambda: (cn, m.sorted(key=lambda i: 0, reverse=True))),
                     R(lambda: (cn, m.sorted(key=lambda i: repr(i[1]), reverse=True)))])
    A('sortedvalues', 'sortedvalues', 'default / reverse', '[R(lambda: N(d.sortedvalues())), '
      'R(lambda: N(d.sortedvalues(reverse=True)))]',
      lambda m, cn: [R(lambda: (cn, m.sortedvalues())), R(lambda: (cn, m.sortedvalues(reverse=True)))])
    A('__repr__', '__repr__', 'no argument', 'repr(d)', lambda m, cn: m.repr(cn))
    A('views', 'viewkeys/viewvalues/viewitems', 'no argument',
      '(list(d.viewkeys()), list(d.viewvalues()), list(d.viewitems()))',
      lambda m, cn: (m.keys(), m.values(), m.items()), clause=SV)
    cp = 'copy_pickle_equal'
    A('copy()', 'copy', 'no argument', 'N(d.copy())', lambda m, cn: (cn, m.p), clause=cp)
    A('copy.copy', 'copy.copy', 'no argument', 'N(copy.copy(d))', lambda m, cn: (cn, m.p), clause=cp)
    A('copy.deepcopy', 'copy.deepcopy', 'no argument', 'N(copy.deepcopy(d))', lambda m, cn: (cn, m.p), 'copy.copy', cp)
    for pr, base in ((0, None), (1, 0), (2, None), (pickle.HIGHEST_PROTOCOL, 2)):
        A('pickle %d' % pr, 'pickle round trip', 'protocol %s' % ('0 / 1' if pr < 2 else '>= 2'),
          'N(pickle.loads(pickle.dumps(d, %d)))' % pr, lambda m, cn: (cn, m.p), base is not None and 'pickle %d' % base, cp)
    return rs


READERS = make_readers()


def eq_readers(m):
    """dynamic readers: ==/!= against OMDs and plain mappings derived from the model state"""
    p = m.p
    others = [('an equal OMD', list(p), m.eq_pairs(p), 'eq_omd')]
    if p:
        ch = p[:-1] + [(p[-1][0], 'X')]
        others.append(('an OMD whose last value differs', ch, m.eq_pairs(ch), 'eq_omd'))
        others.append(('an OMD without the last pair', p[:-1], m.eq_pairs(p[:-1]), 'eq_omd'))
        if p[::-1] != p:
            others.append(('an OMD with the pairs reversed', p[::-1], m.eq_pairs(p[::-1]), 'eq_omd'))
        # same key set (so the same len), one more pair: at the end / at the front, under the last / the first key
        for lab, ex in (('an OMD with one more trailing pair under an existing key', p + [(p[-1][0], 'Y')]),
                        ('an OMD with one more trailing pair under an existing key', p + [(p[0][0], p[0][1])]),
                        ('an OMD with one more leading pair under an existing key', [(p[-1][0], p[-1][1])] + p)):
            others.append((lab, ex, m.eq_pairs(ex), 'eq_omd'))
    td = m.todict()
    cands = [('an equal plain dict', td), ('a plain dict with an extra key', dict(td, zz=1))]
    for k in list(td)[:1] + list(td)[-1:]:
        cands.append(('a plain dict with the same keys and one different value', dict(td, **{})))
        cands[-1][1][k] = 'X'
        o = dict(td)
        del o[k]
        o['zz'] = td[k]
        cands.append(('a plain dict of the same size with one different key', o))
    for lab, o in cands:
        others.append((lab, o, m.eq_mapping(o), 'eq_plain_mapping'))
    out = []
    for i, (lab, o, want, clause) in enumerate(others):
        omd = clause == 'eq_omd'
        for meth, sym, w, base in (('__eq__', '==', want, None), ('__ne__', '!=', not want, '== %d' % i)):
            out.append(dict(name='%s %d' % (sym, i), meth=meth, form='other is ' + lab, other=o, omd=omd, want=w,
                            base=base, clause=clause))
    return out


def src_of(r):
    if 'src' in r:
        return r['src']
    return 'd %s %s' % ('!=' if r['meth'] == '__ne__' else '==', ('C(%r)' if r['omd'] else '%r') % (r['other'],))


def read_all(C, cn, d, m, skip=()):
    """evaluate every reader; returns list of (reader, got, want) mismatches (subsumed ones removed)"""
    bad = {}
    for r in READERS:
        if r['name'] in skip:
            continue
        got = run_src(r['code'], d, C)
        want = R(lambda: r['fn'](m, cn))
        if got != want:
            bad[r['name']] = (r, got, want)
    for r in eq_readers(m):
        if r['form'] in skip:
            continue
        o = r['other']
        o = R(lambda: C(o)) if r['omd'] else o
        got = R(lambda: d != o) if r['meth'] == '__ne__' else R(lambda: d == o)
        if got is not r['want']:
            bad[r['name']] = (r, got, r['want'])
    return [v for n, v in bad.items() if v[0]['base'] not in bad]


class Agg:
    def __init__(self):
        self.g = {}

    def add(self, clause, site, form, feats, witness, detail, snip):
        key = (clause, site, form)
        rank = (len(repr(witness)), repr(witness))
        g = self.g.get(key)
        if g is None:
            self.g[key] = dict(feats=set(feats), n=1, rank=rank, w=witness, d=detail, sn=snip)
            return
        g['feats'] &= set(feats)
        g['n'] += 1
        if rank < g['rank']:
            g.update(rank=rank, w=witness, d=detail, sn=snip)

    def base_group(self, key):
        """the statement defines |= as update, update/assignment as 'drop the key's pairs, then append', pop as
        popall, and a default only matters for an absent key: a failure of such a derived operation is reported
        at the operation it is defined through when that one fails under (at most) the same conditions"""
        clause, site, form = key
        cn, _, meth = site.rpartition('.')
        mine = self.g[key]['feats']
        cands = [(meth, 'key')] if form == 'key, default' else []
        while meth in DERIVED:
            meth = DERIVED[meth]
            cands += [(meth, form), (meth, None)]
        for bm, bf in cands:
            for k2, g2 in sorted(self.g.items()):
                if k2 != key and k2[0] == clause and k2[1] == cn + '.' + bm and (bf is None or k2[2] == bf):
                    if (g2['feats'] if bf else g2['feats'] & STATE_FEATS) <= mine:
                        return k2
        return None

    def flush(self, H):
        for key in sorted(self.g):
            b = self.base_group(key)
            if b is not None:
                self.g[b].setdefault('via', []).append('%s (%s)' % (key[1], key[2]))
        for (clause, site, form), g in sorted(self.g.items()):
            if self.base_group((clause, site, form)) is not None:
                continue
            if g.get('via'):
                g['d'] += ' | same failure also through: ' + ', '.join(sorted(g['via']))
            wclass = form + ': ' + (', '.join(f for f in FEATURE_ORDER if f in g['feats']) or 'any state')
            H.fail(clause, site, wclass, g['w'], g['d'], g['sn'])
            H.fail_counts[(clause, site, wclass)] = g['n']


def site_of(cn, meth):
    if meth.startswith('copy.') or meth.startswith('pickle'):
        return '%s(%s)' % (meth, cn)
    return '%s.%s' % (cn, meth)


def prog(imp, build, steps):
    s = HDR + imp + build + '\n'
    for src, rebind in steps:
        s += 'r = R(lambda: %s)\n' % src + ('d = r\n' if rebind else '')
    return s


def report_readers(agg, cn, imp, build, steps, m, mism, site=None, form=None, feats=None):
    """site None: blame each reader; else blame the mutator/constructor `site` once (first mismatch)"""
    for r, got, want in sorted(mism, key=lambda x: x[0]['name']):
        rs = src_of(r)
        snip = prog(imp, build, steps) + 'got = R(lambda: %s)\nassert got == %r, got\n' % (rs, want)
        wit = [build] + [s for s, _ in steps]
        det = 'reader %s -> %r, pair-list model %r (pairs %r)' % (rs, got, want, m.p)
        if site is None:
            agg.add(r['clause'], site_of(cn, r['meth']), r['form'], state_feats(m), wit + [rs], det, snip)
        else:
            agg.add(RD, site, form, feats, wit, det, snip)
            return


# ---- operations ----------------------------------------------------------------------------------------
class Op:
    def __init__(self, meth, form, src, mfn, feats=None, rebind=False, special=None):
        self.meth, self.form, self.src, self.mfn = meth, form, src, mfn
        self.feats = feats or (lambda m: set())
        self.rebind, self.special = rebind, special
        self.code = fn_of(src)


def key_feats(k):
    def f(m):
        n = len(m.vals(k))
        return {'key absent'} if n == 0 else ({'key present'} | ({'key has several values'} if n > 1 else set()))
    return f


def arg_feats(pairs, it=False):
    def f(m):
        s = set()
        ks = [k for k, _ in pairs]
        dup = set(k for k in ks if ks.count(k) > 1)
        if it:
            s.add('one-shot iterator argument')
        if dup:
            s.add('argument repeats a key')
        if any(not m.has(k) for k in dup):
            s.add('a repeated argument key is not yet present')
        if not pairs:
            s.add('argument is empty')
        return s
    return f


def arg_forms(pairs):
    """(form label, source text, model form, one-shot?)"""
    out = []
    if len(dict(pairs)) == len(pairs):
        out.append(('a plain dict', repr(dict(pairs)), 'mapping', False))
    out.append(('an OMD', 'C(%r)' % (pairs,), 'pairs', False))
    out.append(('an iterable of pairs', repr(pairs), 'pairs', False))
    out.append(('an iterable of pairs', 'iter(%r)' % (pairs,), 'pairs', True))
    return out


def make_ops(keys=('a', 'b', 'c'), vals=(1, 2)):
    ops = []
    O = lambda *a, **kw: ops.append(Op(*a, **kw))  # noqa
    for k in keys:
        for v in vals:
            O('add', 'key, value', 'd.add(%r, %r)' % (k, v), lambda m, k=k, v=v: m.add(k, v), key_feats(k))
            O('__setitem__', 'key, value', 'operator.setitem(d, %r, %r)' % (k, v),
              lambda m, k=k, v=v: m.setitem(k, v), key_feats(k))
        O('__delitem__', 'key', 'operator.delitem(d, %r)' % (k,), lambda m, k=k: m.delitem(k), key_feats(k))
        O('pop', 'key', 'd.pop(%r)' % (k,), lambda m, k=k: m.pop(k), key_feats(k))
        O('popall', 'key', 'd.popall(%r)' % (k,), lambda m, k=k: m.popall(k), key_feats(k))
        O('poplast', 'key', 'd.poplast(%r)' % (k,), lambda m, k=k: m.poplast(k), key_feats(k))
        O('setdefault', 'key', 'd.setdefault(%r)' % (k,), lambda m, k=k: m.setdefault(k), key_feats(k))
        O('setdefault', 'key, default', 'd.setdefault(%r, 2)' % (k,), lambda m, k=k: m.setdefault(k, 2), key_feats(k))
    k = keys[0]
    O('pop', 'key, default', 'd.pop(%r, "D")' % (k,), lambda m, k=k: m.pop(k, 'D'), key_feats(k))
    O('popall', 'key, default', 'd.popall(%r, "D")' % (k,), lambda m, k=k: m.popall(k, 'D'), key_feats(k))
    O('poplast', 'key, default', 'd.poplast(%r, "D")' % (k,), lambda m, k=k: m.poplast(k, 'D'), key_feats(k))
    O('poplast', 'no argument', 'd.poplast()', lambda m: m.poplast())
    O('poplast', 'default only', 'd.poplast(default="D")', lambda m: m.poplast(default='D'))
    O('popitem', 'no argument', 'd.popitem()', None, special='popitem')
    O('clear', 'no argument', 'd.clear()', lambda m: m.clear())
    for k in (keys[0], keys[-1]):
        for vs in ([], [1, 2]):
            for it in (False, True):
                src = 'd.addlist(%r, %s)' % (k, ('iter(%r)' if it else '%r') % (vs,))
                O('addlist', 'key, iterable of values', src, lambda m, k=k, vs=vs: m.addlist(k, vs),
                  lambda m, k=k, vs=vs, it=it: key_feats(k)(m) | arg_feats([(k, v) for v in vs], it)(m))
    a, b, c = keys[0], keys[1], keys[-1]
    pay = [[], [(a, 1)], [(a, 1), (a, 2)], [(b, 2), (a, 1), (b, 1)], [(c, 1), (a, 2)]]
    for pairs in pay:
        for lab, src, mform, it in arg_forms(pairs):
            mp = list(dict(pairs).items()) if mform == 'mapping' else pairs
            O('update', lab, 'd.update(%s)' % src, lambda m, mform=mform, mp=mp: m.update(mform, mp), arg_feats(pairs, it))
            O('update_extend', lab, 'd.update_extend(%s)' % src, lambda m, mp=mp: m.update_extend(mp), arg_feats(pairs, it))
            if pairs in pay[2:4]:
                O('__ior__', lab, 'operator.ior(d, %s)' % src, lambda m, mform=mform, mp=mp: m.update(mform, mp),
                  arg_feats(pairs, it), rebind=True, special='ior')
    kw = [(a, 2), (c, 1)]
    if isinstance(a, str):
        O('update', 'keyword arguments', 'd.update([], %s=2, %s=1)' % (a, c), lambda m: m.update('pairs', [], kw))
        O('update', 'keyword arguments', 'd.update({%r: 1}, %s=2, %s=1)' % (b, a, c), lambda m: m.update('mapping', [(b, 1)], kw))
        O('update_extend', 'keyword arguments', 'd.update_extend([], %s=2, %s=1)' % (a, c), lambda m: m.update_extend([], kw))
        O('update_extend', 'keyword arguments', 'd.update_extend([(%r, 1)], %s=2, %s=1)' % (a, a, c),
          lambda m: m.update_extend([(a, 1)], kw))
    O('update', 'the OMD itself', 'd.update(d)', lambda m: m.update('pairs', list(m.p)))
    O('update_extend', 'the OMD itself', 'd.update_extend(d)', lambda m: m.update_extend(list(m.p)))
    O('__ior__', 'the OMD itself', 'operator.ior(d, d)', lambda m: m.update('pairs', list(m.p)), rebind=True, special='ior')
    for meth, src, rd in (('copy', 'd.copy()', 'copy()'), ('copy.copy', 'copy.copy(d)', 'copy.copy'),
                          ('copy.deepcopy', 'copy.deepcopy(d)', 'copy.deepcopy'),
                          ('pickle round trip', 'pickle.loads(pickle.dumps(d))', 'pickle %d' % pickle.HIGHEST_PROTOCOL)):
        O(meth, 'continue on the copy', src, lambda m: None, rebind=True, special='copy')
        ops[-1].reader = rd   # not applied where that copy is already reported wrong as a reader
    return ops


def fingerprint(d):
    """best-effort dump of the internal state for state de-duplication (None if internals changed)"""
    try:
        raw = tuple((k, tuple(v)) for k, v in dict.items(d))
        mp = tuple((k, len(c)) for k, c in d._map.items())
        root = d.root
        walks = []
        for link in ((1, 0) if len(root) < 6 else (1, 0, 5, 4)):
            cur, w = root[link], []
            while cur is not root and len(w) < 500:
                w.append((cur[2], cur[3]))
                cur = cur[link]
            walks.append(tuple(w))
        hash((raw, mp, tuple(walks)))
        return (raw, mp, tuple(walks))
    except Exception:  # noqa
        return None


def apply_op(C, cn, d, m, op):
    """apply op to the real object and the model; returns (d, result mismatch detail or None, assertion text)"""
    r = run_src(op.code, d, C)
    if op.special == 'popitem':
        opts = R(m.popitem_options)
        if isinstance(opts, str):
            want = opts
        else:
            real = R(lambda: d.items(multi=True))
            pick = [o for o in opts if o[1] == real] or opts[1:]
            want, m.p = pick[0][0], list(pick[0][1])
    else:
        want = R(lambda: op.mfn(m))
    if op.special == 'ior':
        ok, shown, want, asrt = r is d, r, 'the object itself', 'assert r is d, r\n'
    elif op.special == 'copy':
        shown, want = R(lambda: N(r)), (cn, m.p)
        ok, asrt = shown == want, 'assert R(lambda: N(r)) == %r, r\n' % (want,)
    else:
        ok, shown, asrt = (r == want and type(r) is type(want)), r, 'assert r == %r, r\n' % (want,)
    if op.rebind and not isinstance(r, str):
        d = r
    return d, (None if ok else 'result %r, pair-list model %r' % (shown, want)), asrt


def build(C, seed, hist, ops):
    d = C(list(seed))
    for oi in hist:
        op = ops[oi]
        r = run_src(op.code, d, C)
        if op.rebind and not isinstance(r, str):
            d = r
    return d


def explore(H, agg, cn, C, imp, ops, seeds, depth, skip, seen):
    """seen: (pairs, internal state) -> reader mismatches found there (deterministic class: same state, same
    reads); shared between explorations of one class, `visited` is per exploration"""
    visited = set()
    frontier = []
    nfp = 0
    for seed in seeds:
        m = PairList(seed)
        d = C(list(seed))
        mism = read_all(C, cn, d, m, skip)
        H.ev(key=(cn, 'seed', tuple(seed)), nontrivial=True, part='hist')
        if mism:
            report_readers(agg, cn, imp, 'd = C(%r)' % (list(seed),), [], m, mism, site_of(cn, '__init__'),
                           'an iterable of pairs', state_feats(m))
            continue
        seen[(tuple(m.p), fingerprint(d))] = []
        visited.add((tuple(m.p), fingerprint(d)))
        frontier.append((tuple(seed), (), tuple(m.p)))
    stats = []
    for lvl in range(depth):
        nxt = []
        for seed, hist, pairs in frontier:
            if H.out_of_time(0.93):
                H.note_truncated('%s: history exploration stopped by the time budget at depth %d' % (cn, lvl + 1))
                return stats
            for oi, op in enumerate(ops):
                if getattr(op, 'reader', None) in skip:
                    continue
                d = build(C, seed, hist, ops)
                m = PairList(pairs)
                feats = op.feats(m) | state_feats(m)
                d, rdet, asrt = apply_op(C, cn, d, m, op)
                after = tuple(m.p)
                fp = fingerprint(d)
                nfp += fp is None
                key = (after, fp)
                H.ev(key=(cn, pairs, oi, hist[-1:] if fp is None else 0), part='hist',
                     nontrivial=(after != pairs or len(set(k for k, _ in pairs)) < len(pairs)),
                     sample=dict(cls=cn, state=list(pairs), op=op.src))
                mism = seen.get(key)
                new = key not in visited
                visited.add(key)
                if mism is not None and fp is not None and not mism and rdet is None and not new:
                    continue
                steps = [(ops[i].src, ops[i].rebind) for i in hist] + [(op.src, op.rebind)]
                bld = 'd = C(%r)' % (list(seed),)
                if mism is None or fp is None:   # without the internal state every transition is read again
                    mism = seen[key] = read_all(C, cn, d, m, skip)
                site = site_of(cn, op.meth)
                if mism:
                    report_readers(agg, cn, imp, bld, steps, m, mism, site, op.form, feats)
                elif rdet:
                    agg.add('mutator_result', site, op.form, feats, [bld] + [s for s, _ in steps], rdet,
                            prog(imp, bld, steps[:-1]) + 'r = R(lambda: %s)\n' % op.src + asrt)
                elif new:
                    nxt.append((seed, hist + (oi,), after))
        stats.append((lvl + 1, len(nxt)))
        frontier = nxt
    if nfp:
        H.note_truncated('%s: internal state not readable, states de-duplicated by observable state only' % cn)
    return stats


def ctor_part(H, agg, cn, C, imp, skip):
    a, b = [('a', 1), ('b', 2), ('a', 2)], [('b', 1), ('a', 2)]
    cases = [('no argument', 'C()', [])]
    for pairs in ([], b, a):
        for lab, src, mform, it in arg_forms(pairs):
            cases.append((lab + (' (one-shot iterator)' if it else ''), 'C(%s)' % src, pairs))
    m0 = PairList(a)
    m0.update('mapping', [('a', 5), ('c', 6)])
    cases.append(('iterable of pairs and keyword arguments', 'C(%r, a=5, c=6)' % (a,), m0.p))
    cases.append(('keyword arguments', 'C(b=1, a=2)', b))
    cases.append(('fromkeys', "C.fromkeys(['a', 'b', 'a'])", [('a', None), ('b', None), ('a', None)]))
    cases.append(('fromkeys', "C.fromkeys(iter(['a', 'b', 'a']), 1)", [('a', 1), ('b', 1), ('a', 1)]))
    for lab, src, pairs in cases:
        m = PairList(pairs)
        d = run_src(fn_of(src), None, C)
        H.ev(key=(cn, 'ctor', src), part='ctor', sample=dict(cls=cn, construct=src))
        site = site_of(cn, 'fromkeys' if 'fromkeys' in src else '__init__')
        if isinstance(d, str):
            agg.add(RD, site, lab, state_feats(m), [src], 'constructor raised ' + d, HDR + imp + 'd = %s\n' % src)
            continue
        mism = read_all(C, cn, d, m, skip)
        if mism:
            report_readers(agg, cn, imp, 'd = ' + src, [], m, mism, site, lab, state_feats(m))


def readers_part(H, agg, cn, C, imp, keys, vals, maxlen, part):
    """every reader on every pair list built by the constructor; returns readers found wrong (to skip later)"""
    skip = set()
    alphabet = [(k, v) for k in keys for v in vals]
    for n in range(maxlen + 1):
        for pairs in itertools.product(alphabet, repeat=n):
            pairs = list(pairs)
            m = PairList(pairs)
            d = R(lambda: C(list(pairs)))
            H.ev(key=(cn, part, repr(pairs)), nontrivial=len(m.keys()) < len(pairs), part=part,
                 sample=dict(cls=cn, pairs=pairs))
            bld = 'd = C(%r)' % (pairs,)
            if isinstance(d, str):
                agg.add(RD, site_of(cn, '__init__'), 'an iterable of pairs', state_feats(m), [bld], 'raised ' + d, None)
                continue
            mism = read_all(C, cn, d, m)
            if any(r['name'] == 'iteritems(multi=True)' for r, _, _ in mism):
                report_readers(agg, cn, imp, bld, [], m, [x for x in mism if x[0]['name'] == 'iteritems(multi=True)'],
                               site_of(cn, '__init__'), 'an iterable of pairs', state_feats(m))
                continue
            report_readers(agg, cn, imp, bld, [], m, mism)
            for r, _, _ in mism:
                skip.add(r['name'] if 'want' not in r else r['form'])
    for _ in READERS:   # readers defined through a wrong reader are wrong with it
        skip |= set(r['name'] for r in READERS if r['base'] in skip)
    return skip


def random_part(H, agg, cn, C, imp, ops, skip, n_hist, length):
    xo = make_ops(keys=(None, 0, (1, 2)), vals=(None, 'v'))
    xo = [o for o in xo if o.meth in ('add', '__setitem__', 'pop', 'poplast', 'addlist', 'update', 'popitem')]
    pool = ops + xo + [Op('add', 'key, value', 'd.add(0, [0])', lambda m: m.add(0, [0]))]
    pool = [o for o in pool if getattr(o, 'reader', None) not in skip]
    for i in range(n_hist):
        rng = random.Random(H.seed * 100003 + i)
        d, m, steps = C(), PairList(), []
        for j in range(length):
            op = rng.choice(pool)
            feats = op.feats(m) | state_feats(m)
            d, rdet, asrt = apply_op(C, cn, d, m, op)
            steps.append((op.src, op.rebind))
            H.ev(key=(cn, 'rnd', H.seed, i, j), part='random')
            mism = read_all(C, cn, d, m, skip)
            if mism or rdet:
                if mism:
                    report_readers(agg, cn, imp, 'd = C()', steps, m, mism, site_of(cn, op.meth), op.form, feats)
                else:
                    agg.add('mutator_result', site_of(cn, op.meth), op.form, feats, [s for s, _ in steps], rdet,
                            prog(imp, 'd = C()', steps[:-1]) + 'r = R(lambda: %s)\n' % op.src + asrt)
                break


def run():
    H = Harness('C01',
                rule='a case is one (class, concrete state, operation instance) or one (class, constructed pair list) '
                     'on which all readers are compared with the pair-list model; non-trivial = the state has a key '
                     'with several pairs or the operation changes the pair list',
                bounds=dict(quick='3 classes; 34 readers + up to 20 ==/!= probes per state (incl. 3 copy forms, pickle protocols 0/1/2/5) on all '
                                  'pair lists of length <= 4 over keys {a,b,c} x values {1,2} and of length <= 2 over keys {None,0,(1,2)} x '
                                  'values {None,"v",[0]}; 16 constructor forms; histories: every one of 98 operation instances (all public '
                                  'mutators x argument forms dict / OMD / list / one-shot iterator / kwargs / the OMD itself, copies) from '
                                  'every distinct concrete state reached within 2 steps of the empty OMD (all histories <= 3) and within 1 '
                                  'step of 4 seed states (3 with repeated keys, sizes 3-6) (<= 2)',
                            thorough='pair lists <= 5 (exotic <= 3); histories <= 4 from empty and <= 3 from the seeds (QueryParamDict 3 / 2); '
                                     'plus 300 seeded random histories of length 30 per class over an alphabet that adds None/0/tuple keys '
                                     'and None/unhashable values'))
    agg = Agg()
    ops = make_ops()
    seeds = [[], [('a', 1), ('b', 1), ('a', 2)], [('a', 1), ('a', 1), ('b', 2), ('c', 1), ('b', 1)],
             [('c', 2), ('b', 1), ('a', 1), ('c', 1), ('a', 2), ('a', 1)], [('a', 1), ('b', 2), ('c', 1)]]
    only = H.args.part
    for ci, (cn, C, imp) in enumerate(CLASSES):
        if C is None:
            H.fail(RD, cn, 'class missing', cn, 'class not importable', None)
            continue
        skip = readers_part(H, agg, cn, C, imp, 'abc', (1, 2), 5 if H.thorough else 4, 'readers')
        skip |= readers_part(H, agg, cn, C, imp, (None, 0, (1, 2)), (None, 'v', [0]), 3 if H.thorough else 2, 'exotic')
        if only in (None, 'ctor'):
            ctor_part(H, agg, cn, C, imp, skip)
        if only in (None, 'hist'):
            d0, d1 = ((4, 3) if ci < 2 else (3, 2)) if H.thorough else (3, 2)
            seen = {}
            H.parts['%s: new states per depth from empty' % cn] = explore(H, agg, cn, C, imp, ops, seeds[:1], d0, skip, seen)
            H.parts['%s: new states per depth from seeds' % cn] = explore(H, agg, cn, C, imp, ops, seeds[1:], d1, skip, seen)
        if H.thorough and only in (None, 'random'):
            random_part(H, agg, cn, C, imp, ops, skip, 300, 30)
    agg.flush(H)
    H.finish()


main_wrapper(run)
