"""C05 bounded stand-in: real fault injection into atomic_save / AtomicSaver on the real boltons code.

For every configuration (overwrite, overwrite_part, rm_part_on_exc, text_mode, file_perms, umask, destination
and part file initially present/absent, body ok / raises / destination appears meanwhile) the save is run in
a fresh directory with every file-system call and every part-file method interposed
(refmodels/fs_interpose.py): once without fault, once per event k with OSError(EIO) raised *instead of* event
k, and once per pair (k, j>k on the path taken after fault k).  After each run the directory is inspected and
the save is retried.

Contract (from the property statement); "published" = the destination holds the complete new content:
  not published  => exception_reaches_caller;  dest_intact_on_failure (bytes, mode, inode unchanged);
                    part_removed_on_failure (rm_part_on_exc: no part file created by this save remains);
                    preexisting_part_not_reused (overwrite_part=False: the old part file is untouched);
                    retry_succeeds (a fault-free retry with the same flags completes) where the flags allow it
  published      => not refused (overwrite_false_refuses / preexisting_part_not_reused), the body did not raise
                    and no error injected at a step the statement names (create/chmod the part file, write,
                    flush, fsync, close, link/rename) was swallowed (oserror_reaches_caller);
                    permission_selection: explicit > replaced file's > 0o666 & ~umask
Faults at stat/lstat/fcntl may be absorbed (statement silent); a fault at unlink(part) waives the clean-up
clauses (nobody can remove the file then); an error after a successful link is post-completion.
"""
import itertools
import os
import shutil
import sys
import tempfile

sys.path.insert(0, os.path.dirname(os.path.dirname(os.path.abspath(__file__))))
from bounded.harness import Harness, main_wrapper  # noqa: E402
from refmodels import fs_interpose as F  # noqa: E402

NAMED = {'open': 'creating the part file', 'fdopen': 'set_cloexec/fdopen/chmod on the created part file',
         'chmod': 'set_cloexec/fdopen/chmod on the created part file', 'fchmod': 'set_cloexec/fdopen/chmod on the created part file',
         'f.write': 'write', 'write': 'write', 'f.flush': 'flush/fsync/close of the part file',
         'fsync': 'flush/fsync/close of the part file', 'fdatasync': 'flush/fsync/close of the part file',
         'f.close': 'flush/fsync/close of the part file', 'close': 'flush/fsync/close of the part file',
         'rename': 'rename/link', 'replace': 'rename/link', 'link': 'rename/link'}
GROUP = dict(NAMED, fcntl='set_cloexec/fdopen/chmod on the created part file', unlink='unlink', remove='unlink',
             stat='stat/lstat', lstat='stat/lstat')
SITES = dict(enter='AtomicSaver.setup', body='with-body write', exit='AtomicSaver.__exit__', done='AtomicSaver.__exit__')


DEFAULTS = dict(overwrite=True, overwrite_part=False, rm_part=True, text=False, perms=None, umask=0o022, dpresent=False,
                ppresent=False, body='ok', pattern='two')  # omitted from the printed witness


def expected_mode(cfg):
    if cfg.get('perms') is not None:
        return cfg['perms']
    return F.OLD_MODE if cfg.get('dpresent') else 0o666 & ~cfg.get('umask', 0o022)


def static_refusal(cfg):
    if not cfg['overwrite'] and cfg['dpresent']:
        return 'overwrite=False and the destination exists at entry'
    if cfg['ppresent'] and not cfg['overwrite_part']:
        return 'pre-existing part file and overwrite_part=False'
    return None


def fired(log):
    return [(i, e) for i, e in enumerate(log) if e.get('fault')]


def want_retry(cfg, r):
    new = F.expected_bytes(F.chunks_for(cfg['pattern'], cfg['text']), cfg['text'])
    return not (r['dest'] is not None and r['dest'][0] == new)


def evaluate(cfg, r):
    """the contract on one run; returns [(clause, wclass_hint or None, detail)]"""
    out = []
    log, exc, d, p, pre_d, pre_p = r['log'], r['exc'], r['dest'], r['part'], r['pre_dest'], r['pre_part']
    new = F.expected_bytes(F.chunks_for(cfg['pattern'], cfg['text']), cfg['text'])
    fl = fired(log)
    unlink_fault = any(e['op'] in ('unlink', 'remove') for _, e in fl)
    pub = [i for i, e in enumerate(log) if e['op'] in F.PUBLISH_OPS and e['paths'][1:] == [F.DEST]
           and not e.get('fault') and not e.get('raised')]
    pub = pub[0] if pub else len(log)
    refusal = static_refusal(cfg)
    body = cfg.get('body', 'ok')
    rm_part = cfg.get('rm_part') is not False
    published = d is not None and d[0] == new
    sh = lambda o: None if o is None else ('%d bytes %r' % (len(o[0]), o[0][:24]), oct(o[1]), o[2])  # noqa
    if not published:
        if exc is None:
            out.append(('exception_reaches_caller', None, 'the save did not complete (dest %r) but the with-statement ended normally' % (sh(d),)))
        if r.get('racer_ran'):
            if d is None or d[0] != F.RACER:
                out.append(('dest_intact_on_failure', 'destination appears during the save (overwrite=False)', 'dest %r' % (sh(d),)))
        elif d != pre_d:
            sym = ('destination removed' if d is None else 'destination created' if pre_d is None else
                   'destination content changed' if d[0] != pre_d[0] else
                   'destination permissions changed' if d[1] != pre_d[1] else 'destination replaced by an identical file')
            out.append(('dest_intact_on_failure', sym, 'dest before %r after %r' % (sh(pre_d), sh(d))))
        part_bad = False
        if cfg['ppresent'] and not cfg['overwrite_part']:
            if p != pre_p:
                part_bad = True
                out.append(('preexisting_part_not_reused', 'pre-existing part file removed' if p is None else 'pre-existing part file rewritten or replaced',
                            'part before %r after %r' % (sh(pre_p), sh(p))))
        elif rm_part and not unlink_fault and p is not None and p != pre_p:
            part_bad = True
            out.append(('part_removed_on_failure', None, 'part file left behind: %r (exception: %r)' % (sh(p), exc)))
        if (not refusal and not r.get('racer_ran') and (rm_part or cfg['overwrite_part']) and not unlink_fault
                and not part_bad and 'retry_exc' in r):
            rd = r['retry_dest']
            if r['retry_exc'] is not None or rd is None or rd[0] != new or r['retry_part'] is not None:
                out.append(('retry_succeeds', None, 'retry: exc %r dest %r part %r' % (r['retry_exc'], sh(rd), sh(r['retry_part']))))
    else:
        if refusal:
            out.append(('overwrite_false_refuses' if refusal.startswith('overwrite') else 'preexisting_part_not_reused',
                        refusal, 'the save completed: dest %r' % (sh(d),)))
        elif r.get('racer_ran'):
            out.append(('overwrite_false_refuses', 'destination appears during the save (overwrite=False)', 'the racer\'s file was replaced'))
        elif body == 'raise':
            out.append(('dest_intact_on_failure', 'destination replaced although the save failed', 'the body raised but dest is %r' % (sh(d),)))
        else:
            sw = [e['op'] for i, e in fl if e['op'] in NAMED and i < pub]
            if sw and exc is None:
                out.append(('oserror_reaches_caller', 'OSError at %s absorbed' % NAMED[sw[0]],
                            'OSError injected at %r was absorbed and the save completed silently' % (sw,)))
            elif exc is not None and (sw or not any(i >= pub for i, _ in fl)):
                out.append(('dest_intact_on_failure', 'destination replaced although the save failed', 'exception %r but dest %r' % (exc, sh(d))))
            if not any(e['op'] in ('stat', 'lstat') for _, e in fl) and d[1] != expected_mode(cfg):
                rule = ('explicit file_perms' if cfg.get('perms') is not None else
                        'permissions of the replaced file' if cfg['dpresent'] else 'umask default')
                out.append(('permission_selection', rule, 'mode %s expected %s (umask %s)' % (oct(d[1]), oct(expected_mode(cfg)), oct(cfg['umask']))))
    return out


SYMPTOM_CLAUSES = ('dest_intact_on_failure', 'oserror_reaches_caller', 'preexisting_part_not_reused', 'overwrite_false_refuses', 'permission_selection')


def cause(cfg, r):
    """(site, wclass) of what made the save fail, read off the exception the caller received"""
    log, exc = r['log'], r['exc']
    name = lambda e: (SITES.get(e['phase'], 'atomic_save'), 'OSError at %s' % GROUP.get(e['op'], e['op']))  # noqa
    k = getattr(exc, 'verif_event', None)
    if k is not None and k < len(log):
        return name(log[k])
    if isinstance(exc, F.BodyError):
        return ('atomic_save', 'body raises')
    bad = [e for e in log if (e.get('fault') or e.get('raised')) and e['op'] not in ('unlink', 'remove', 'stat', 'lstat')]
    if bad:
        return name(bad[-1])
    return ('atomic_save', static_refusal(cfg) or ('destination appears during the save (overwrite=False)'
                                                   if r.get('racer_ran') else 'fault-free save'))


def triple(cfg, r, clause, hint):
    """state clauses are identified by the symptom, clean-up/propagation clauses by the failing step"""
    if clause in SYMPTOM_CLAUSES:
        return (clause, 'atomic_save', hint)
    site, w = cause(cfg, r)
    return (clause, site, w + ('; ' + hint if hint else ''))


def snippet(cfg, faults, clause):
    return ('import sys\nfrom refmodels import fs_interpose as F\nfrom bounded import C05\ncfg = %r\n'
            'r = F.fault_run(cfg, faults=%r, retry=lambda r: C05.want_retry(cfg, r))\nv = C05.evaluate(cfg, r)\nprint(r["exc"], r["listing"], v)\n'
            'assert %r not in [c for c, _, _ in v], v\n' % (cfg, sorted(faults), clause))


REUSE_HDR = ('import os, stat, tempfile\nfrom boltons.fileutils import AtomicSaver\n'
             'def mode(p): return stat.S_IMODE(os.stat(p).st_mode)\n')


def saver_reuse(H, root):
    """the SAME AtomicSaver object used for two saves (a retry after a failed attempt, or a second save): every save must
    select the permissions from the state of the destination at the time of THAT save, and a failed attempt must not leave
    anything behind that changes the next one"""
    import stat as _stat
    from boltons.fileutils import AtomicSaver

    def mode(p):
        return _stat.S_IMODE(os.stat(p).st_mode)
    for um in (0o022, 0o027, 0o077):
        for perms in (None, 0o640):
            for first in ('absent, first attempt fails', 'present 0o644, first attempt fails, then chmod 0o600',
                          'present 0o600, first save succeeds, then chmod 0o644'):
                sub = tempfile.mkdtemp(prefix='reuse-', dir=root)
                prev = os.umask(um)
                wit = dict(umask=oct(um), file_perms=None if perms is None else oct(perms), scenario=first)
                try:
                    dest = os.path.join(sub, 'dest.bin')
                    if not first.startswith('absent'):
                        with open(dest, 'wb') as f:
                            f.write(b'old')
                        os.chmod(dest, 0o644 if '0o644, first' in first else 0o600)
                    sv = AtomicSaver(dest, file_perms=perms)
                    fails = 'fails' in first
                    try:
                        with sv as f:
                            f.write(b'first')
                            if fails:
                                raise F.BodyError('body failed')
                    except F.BodyError:
                        pass
                    if first.startswith('present'):
                        os.chmod(dest, 0o600 if fails else 0o644)
                    want_mode = perms if perms is not None else (0o666 & ~um if first.startswith('absent') else (0o600 if fails else 0o644))
                    exc = None
                    try:
                        with sv as f:
                            f.write(b'second')
                    except BaseException as e:  # noqa
                        exc = e
                    H.ev(key=('reuse', um, perms, first), nontrivial=True, part='saver object reused', sample=wit)
                    got = (open(dest, 'rb').read() if os.path.exists(dest) else None, mode(dest) if os.path.exists(dest) else None,
                           sorted(os.listdir(sub)))
                    if exc is not None or got[0] != b'second' or got[2] != ['dest.bin']:
                        H.fail('retry_succeeds', 'AtomicSaver.__enter__', 'the same AtomicSaver object used again after %s'
                               % ('a failed attempt' if fails else 'a completed save'), wit,
                               'second save: exception %r, destination %r, listing %r' % (exc, got[0], got[2]))
                    elif got[1] != want_mode:
                        H.fail('permission_selection', 'AtomicSaver._open_part_file',
                               'the same AtomicSaver object used again: permissions taken from an earlier attempt', wit,
                               'mode %s expected %s' % (oct(got[1]), oct(want_mode)),
                               REUSE_HDR + 'os.umask(0o027); d = tempfile.mkdtemp(); p = os.path.join(d, "x")\nopen(p, "w").write("v1"); os.chmod(p, 0o644)\n'
                               'sv = AtomicSaver(p)\ntry:\n    with sv as f:\n        f.write(b"a"); raise KeyError\nexcept KeyError: pass\n'
                               'os.chmod(p, 0o600)\nwith sv as f: f.write(b"b")\nassert mode(p) == 0o600, oct(mode(p))\n')
                finally:
                    os.umask(prev)
                    shutil.rmtree(sub, ignore_errors=True)


def special_mode_bits(H, root):
    """no file_perms requested: the new file gets the permissions of the file it replaces - all twelve mode bits
    (stat.S_IMODE), sticky / setgid / setuid included"""
    import stat as _stat
    from boltons.fileutils import atomic_save
    for mode in (0o1640, 0o2644, 0o4700, 0o6751, 0o0000, 0o7777):
        for um in (0o022, 0o077):
            sub = tempfile.mkdtemp(prefix='modes-', dir=root)
            prev = os.umask(um)
            wit = dict(replaced_file_mode=oct(mode), umask=oct(um))
            try:
                dest = os.path.join(sub, 'dest.bin')
                with open(dest, 'wb') as f:
                    f.write(b'old')
                os.chmod(dest, mode)
                if _stat.S_IMODE(os.stat(dest).st_mode) != mode:
                    continue                      # this file system / user cannot carry the bit: nothing to compare
                exc = None
                try:
                    with atomic_save(dest, text_mode=False) as f:
                        f.write(b'new')
                except BaseException as e:  # noqa
                    exc = e
                H.ev(key=('modes', mode, um), nontrivial=True, part='special mode bits', sample=wit)
                got = _stat.S_IMODE(os.stat(dest).st_mode)
                if exc is not None:
                    H.fail('oserror_reaches_caller', 'atomic_save', 'replaced file with special mode bits; fault-free save raises', wit, repr(exc))
                elif got != mode or open(dest, 'rb').read() != b'new':
                    H.fail('permission_selection', 'AtomicSaver._open_part_file', 'replaced file with sticky / setgid / setuid bits', wit,
                           'mode %s expected %s' % (oct(got), oct(mode)),
                           REUSE_HDR + 'from boltons.fileutils import atomic_save\nd = tempfile.mkdtemp(); p = os.path.join(d, "x")\n'
                           'open(p, "w").write("v1"); os.chmod(p, %s)\nwith atomic_save(p, text_mode=False) as f: f.write(b"n")\n'
                           'assert mode(p) == %s, oct(mode(p))\n' % (oct(mode), oct(mode)))
            finally:
                os.umask(prev)
                shutil.rmtree(sub, ignore_errors=True)


def run():
    H = Harness('C05',
                rule='one evaluation = one real save with OSError injected at a set of interposed events (none, one, or a pair), '
                     'followed by inspection of destination/part/listing and a retry; key = (configuration, fault indices); '
                     'non-trivial = every injected fault was reached, or the fault-free run of a configuration that must be refused / whose body raises',
                bounds=dict(quick='singles: overwrite x overwrite_part x rm_part_on_exc x text_mode x file_perms {None,0o600,0o644} x umask {022,077} '
                                  'x dest {absent,present} x part {absent,present} x body {ok, raises, dest appears (overwrite=False)}: every event; '
                                  'pairs: the same with text_mode=False, umask=022, file_perms in {None,0o600}; every single fault also with errno EINVAL, '
                                  'ENOTSUP, ENOSPC, EINTR (text_mode=False, umask=022, file_perms=None); the same AtomicSaver object used for two '
                                  'saves (failed attempt then retry / two completed saves) x umask {022,027,077} x file_perms {None,0o640}; replaced files with sticky/setgid/setuid bits (6 modes x 2 umasks)',
                            thorough='singles and all pairs (k, j>k along the path after fault k) for the full product'))
    root = tempfile.mkdtemp(prefix='verif-C05-')
    nfail = [0]

    def one(cfg, faults, attributed=None, fault_errno=None):
        import errno as _errno
        r = F.fault_run(cfg, faults, root, retry=lambda res: want_retry(cfg, res), fault_errno=fault_errno or _errno.EIO)
        fl = fired(r['log'])
        reached = len(fl) == len(faults)
        H.ev(key=(tuple(sorted(cfg.items(), key=str)), tuple(sorted(faults)), fault_errno),
             nontrivial=reached and bool(faults or static_refusal(cfg) or cfg['body'] != 'ok'),
             sample=dict(cfg=cfg, faults=[r['log'][i]['op'] for i in sorted(faults) if i < len(r['log'])],
                         exc=repr(r['exc']), listing=r['listing']),
             part=('fault-free', 'single fault', 'pair of faults')[min(len(faults), 2)])
        res = {}
        for clause, hint, detail in evaluate(cfg, r):
            t = triple(cfg, r, clause, hint)
            if attributed and clause in attributed:
                t = attributed[clause]
            res[clause] = t
            nfail[0] += 1
            H.fail(t[0], t[1], t[2], dict(cfg={k: v for k, v in cfg.items() if DEFAULTS.get(k, cfg) != v}, faults=[[i, r['log'][i]['op']] for i in sorted(faults) if i < len(r['log'])]),
                   detail, snippet(cfg, faults, clause))
        return r, res

    try:
        dims = list(itertools.product((True, False), (False, True), (True, False), (False, True), (None, 0o600, 0o644),
                                      (0o022, 0o077), (False, True), (False, True)))
        for ci, (ow, owp, rm, text, perms, um, dp, pp) in enumerate(dims):
            if H.out_of_time(0.85):
                H.note_truncated('stopped after %d of %d flag combinations (time budget)' % (ci, len(dims)))
                break
            pairs = H.thorough or (not text and um == 0o022 and perms != 0o644)
            for body in ('ok', 'raise') + (('racer',) if not ow and not dp else ()):
                cfg = dict(overwrite=ow, overwrite_part=owp, rm_part=rm, text=text, perms=perms, umask=um,
                           dpresent=dp, ppresent=pp, body=body, pattern='two')
                r0, res0 = one(cfg, ())
                ops0 = [e['op'] for e in r0['log']]
                single, logs = {}, {}
                for i in range(len(ops0)):
                    ri, single[i] = one(cfg, {i}, res0)
                    logs[i] = [e['op'] for e in ri['log']]
                if not text and um == 0o022 and perms is None:
                    # the error number must not matter: "the operating system reports an error at any step" (EINVAL/ENOTSUP are
                    # what a file system without fsync answers, ENOSPC/EDQUOT a full disk, EINTR an interrupted call)
                    import errno as _errno
                    for i in range(len(ops0)):
                        for en in (_errno.EINVAL, _errno.ENOTSUP, _errno.ENOSPC, _errno.EINTR):
                            one(cfg, {i}, dict(single[i], **res0), fault_errno=en)
                for i in range(len(ops0) if pairs else 0):
                    for j in range(i + 1, len(logs[i])):
                        # same defect as the fault-free run / the single fault when that already breaks the clause
                        one(cfg, {i, j}, dict(single[i], **res0))
        saver_reuse(H, root)
        special_mode_bits(H, root)
    finally:
        shutil.rmtree(root, ignore_errors=True)
    H.finish()


if __name__ == '__main__':
    main_wrapper(run)
