"""C14 bounded stand-in: strutils encoders are exactly invertible.

Contracts (from the property statement), evaluated on the real boltons.strutils functions:
  sh    : the text of args2sh(args) / escape_shell_args(args, style='sh'), handed to a real POSIX shell
          (/bin/sh = dash, /bin/bash) as the argument part of a command line, makes the child process
          receive exactly `args` (nothing expanded: the shell runs in a directory with files named a, aa, b,
          with $a set and $HOME set), and shlex.split(text) == args;
  inert : (finite, exhaustive over every Unicode scalar value but NUL) a character that args2sh leaves
          outside quotes belongs to [A-Za-z0-9_@%+=:,./-];
  cmd   : the text of args2cmd(args) / escape_shell_args(args, style='cmd') is split into exactly `args` by
          the MS C runtime rules (refmodels/mscrt.py: documented rules and both real "" variants), the
          reference itself being validated first against subprocess.list2cmdline and the documented examples;
  ints  : parse_int_list(format_int_list(L)) == sorted(set(L)); format_int_list(L) is the unique string of
          maximal ranges; complement_int_list(s, start, end) denotes exactly the integers of [start, end)
          (end defaults to max+1) that are not in s;
  gzip  : gunzip_bytes(gzip_bytes(b, level)) == b, gzip_bytes output is readable by the stdlib gzip module and
          gunzip_bytes reads what the stdlib gzip module writes.
"""
import gzip
import itertools
import json
import os
import random
import shlex
import shutil
import subprocess
import sys
import tempfile

sys.path.insert(0, os.path.dirname(os.path.dirname(os.path.abspath(__file__))))
from bounded.harness import Harness, main_wrapper  # noqa: E402
from refmodels import mscrt  # noqa: E402

from boltons import strutils as S  # noqa: E402

ALPHA = ['a', ' ', '\t', "'", '"', '\\', '$', '*', '\n', 'é']
INERT = frozenset('abcdefghijklmnopqrstuvwxyzABCDEFGHIJKLMNOPQRSTUVWXYZ0123456789_@%+=:,./-')
SEP = '@SEP@'
PYARGV = 'import sys,json; print(json.dumps(sys.argv[1:]))'
SKIPPED = ('skipped',)
HDR = 'import subprocess, json, shlex\nfrom boltons.strutils import *\n'


def lists_total(nargs, total, by_len):
    """all lists of exactly nargs strings over ALPHA with summed length <= total"""
    for lens in itertools.product(range(total + 1), repeat=nargs):
        if sum(lens) <= total:
            for combo in itertools.product(*[by_len[k] for k in lens]):
                yield list(combo)


def scan_sh(text):
    """POSIX sh quoting (XCU 2.2): (characters of `text` that are neither inside '...' / "..." nor escaped
    by a backslash -- the quoting characters themselves are not reported --, quotes balanced?)"""
    out, i, n = [], 0, len(text)
    while i < n:
        c = text[i]
        if c == "'":
            j = text.find("'", i + 1)
            if j < 0:
                return out, False
            i = j + 1
        elif c == '"':
            i += 1
            while i < n and text[i] != '"':
                i += 2 if text[i] == '\\' else 1
            if i >= n:
                return out, False
            i += 1
        elif c == '\\':
            if i + 1 >= n:
                return out, False
            i += 2
        else:
            out.append(c)
            i += 1
    return out, True


def unquoted_chars(text):
    return scan_sh(text)[0]


def sh_wclass(args):
    if any(a == '' for a in args):
        return 'list with an empty argument'
    if any("'" in a for a in args):
        return 'argument containing a single quote'
    if any(set(a) - INERT for a in args):
        return 'argument with a character outside [A-Za-z0-9_@%+=:,./-]'
    return 'arguments of inert characters only'


def cmd_wclass(args):
    if any(a == '' for a in args):
        return 'list with an empty argument'
    if any('\\"' in a for a in args):
        return 'backslash run followed by a double quote'
    if any(a.endswith('\\') and (' ' in a or '\t' in a) for a in args):
        return 'blank-containing argument ending in a backslash'
    if any('"' in a for a in args):
        return 'argument containing a double quote'
    if any(' ' in a or '\t' in a for a in args):
        return 'argument containing a blank'
    return 'arguments without blank, quote or backslash-quote'


class Shells:
    def __init__(self, H):
        self.H = H
        self.dir = tempfile.mkdtemp(prefix='c14-')
        self.cwd = os.path.join(self.dir, 'cwd')
        os.mkdir(self.cwd)
        os.mkdir(os.path.join(self.dir, 'emptybin'))
        for f in ('a', 'aa', 'b', 'é'):
            open(os.path.join(self.cwd, f), 'w').close()
        self.env = {'PATH': os.path.join(self.dir, 'emptybin'), 'a': 'EXPANDED', 'HOME': '/EXPANDED-HOME',
                    'PYTHONUTF8': '1', 'LC_ALL': 'C.UTF-8', 'PYTHONDONTWRITEBYTECODE': '1'}
        self.shells = [s for s in ('/bin/sh', '/bin/bash') if os.path.exists(s)]
        self.fallback_runs = 0
        self.single_runs = {}
        self.script = os.path.join(self.dir, 'batch.sh')

    def close(self):
        shutil.rmtree(self.dir, ignore_errors=True)

    def one(self, shell, text):
        """the literal form: sh -c "exec python -c '...' <text>" -> argv list or ('error', ...)"""
        cmd = "exec %s -c '%s' %s" % (sys.executable, PYARGV, text)
        try:
            r = subprocess.run([shell, '-c', cmd], cwd=self.cwd, env=self.env, capture_output=True, timeout=60)
        except (OSError, subprocess.TimeoutExpired, ValueError) as e:
            return ('error', repr(e))
        if r.returncode != 0:
            return ('error', r.returncode, r.stderr.decode('utf-8', 'replace')[-200:])
        try:
            return json.loads(r.stdout)
        except ValueError:
            return ('error', 'unparsable child output', r.stdout[-200:].decode('utf-8', 'replace'))

    def _batch(self, shell, texts):
        with open(self.script, 'w', encoding='utf-8') as f:
            f.write("exec %s -c '%s' %s\n" % (sys.executable, PYARGV, ''.join(t + ' ' + SEP + ' ' for t in texts)))
        try:
            r = subprocess.run([shell, self.script], cwd=self.cwd, env=self.env, capture_output=True, timeout=300)
            argv = json.loads(r.stdout) if r.returncode == 0 else None
        except (OSError, subprocess.TimeoutExpired, ValueError):
            argv = None
        if argv is None:
            return None
        out, cur = [], []
        for a in argv:
            if a == SEP:
                out.append(cur)
                cur = []
            else:
                cur.append(a)
        return out if (not cur and len(out) == len(texts)) else None

    def many(self, shell, texts):
        """argv list per text. Texts whose quoting is balanced and that leave only inert characters and blanks
        unquoted (by scan_sh) cannot disturb their neighbours and go through the shell in batches of ~300 kB;
        the others are run one by one (at most 120 per shell and run of the check, then skipped: they already
        fail the unquoted_char_is_inert / shlex clauses). A batch the shell still rejects is split (<= 60 extra runs)."""
        res = [None] * len(texts)
        chunks, cur, size = [], [], 0
        for i, t in enumerate(texts):
            uq, balanced = scan_sh(t)
            if not balanced or any(c not in INERT and c != ' ' for c in uq):
                self.single_runs[shell] = self.single_runs.get(shell, 0) + 1
                if self.single_runs[shell] <= 120:
                    res[i] = self.one(shell, t)
                else:
                    res[i] = SKIPPED
                    self.H.note_truncated('%s: more than 120 texts with unbalanced quotes or unquoted special characters; '
                                          'the further ones were not handed to the shell' % shell)
                continue
            cur.append(i)
            size += len(t.encode('utf-8', 'surrogatepass')) + 24
            if size > 300_000:
                chunks.append(cur)
                cur, size = [], 0
        if cur:
            chunks.append(cur)
        stack = chunks[::-1]
        while stack:
            idxs = stack.pop()
            got = self._batch(shell, [texts[i] for i in idxs])
            if got is not None:
                for i, g in zip(idxs, got):
                    res[i] = g
            elif len(idxs) == 1:
                res[idxs[0]] = self.one(shell, texts[idxs[0]])
            elif self.fallback_runs > 60:
                self.H.note_truncated('%s: a batch of texts was rejected by the shell and could not be split within 60 '
                                      'extra runs; its texts were not verified against that shell' % shell)
                for i in idxs:
                    res[i] = SKIPPED
            else:
                self.fallback_runs += 1
                k = max(1, len(idxs) // 8)
                stack.extend([idxs[j:j + k] for j in range(0, len(idxs), k)][::-1])
        return res


def check_shell_quoting(H, sh, cases, part):
    """cases: list of argument lists. evaluates sh + cmd contracts for all of them."""
    texts, ctexts = [], []
    for args in cases:
        ok, t = H.guard(lambda: S.args2sh(list(args)), 'sh_roundtrip', 'args2sh', 'raises', args)
        ok2, t2 = H.guard(lambda: S.escape_shell_args(list(args), style='sh'), 'sh_roundtrip', 'escape_shell_args',
                          'raises', args)
        if ok and ok2 and t != t2:
            H.fail('escape_shell_args_dispatch', 'escape_shell_args', "style='sh' differs from args2sh", args,
                   '%r vs %r' % (t2, t))
        texts.append(t if ok and isinstance(t, str) else None)
        ok, c = H.guard(lambda: S.args2cmd(list(args)), 'cmd_roundtrip', 'args2cmd', 'raises', args)
        ok2, c2 = H.guard(lambda: S.escape_shell_args(list(args), style='cmd'), 'cmd_roundtrip', 'escape_shell_args',
                          'raises', args)
        if ok and ok2 and c != c2:
            H.fail('escape_shell_args_dispatch', 'escape_shell_args', "style='cmd' differs from args2cmd", args,
                   '%r vs %r' % (c2, c))
        ctexts.append(c if ok and isinstance(c, str) else None)
    live = [i for i, t in enumerate(texts) if t is not None]
    results = {shell: dict(zip(live, sh.many(shell, [texts[i] for i in live]))) for shell in sh.shells}
    for i, args in enumerate(cases):
        nontriv = any(set(a) - INERT or not a for a in args)
        H.ev(key=(part, tuple(args)), nontrivial=nontriv, part=part,
             sample=dict(args=args, sh=texts[i], cmd=ctexts[i]))
        t = texts[i]
        if t is not None:
            snip = (HDR + 'import sys\nargs = %r\ntext = args2sh(args)\n'
                    'r = subprocess.run(["/bin/sh", "-c", "exec %%s -c \'import sys,json; print(json.dumps(sys.argv[1:]))\' %%s" '
                    '%% (sys.executable, text)], capture_output=True, env={"PYTHONUTF8": "1", "a": "X", "PATH": "/nonexistent"})\n'
                    'assert r.returncode == 0 and json.loads(r.stdout) == args, (text, r)\n'
                    'assert shlex.split(text) == args, (text, shlex.split(text))\n' % (args,))
            for shell in sh.shells:
                got = results[shell].get(i)
                if got != args and got is not SKIPPED:
                    H.fail('sh_roundtrip', 'args2sh', sh_wclass(args), args,
                           '%s received %r for text %r' % (shell, got, t), snip)
            try:
                got = shlex.split(t)
            except ValueError as e:
                got = ('error', str(e))
            if got != args:
                H.fail('sh_roundtrip', 'args2sh', sh_wclass(args), args, 'shlex.split(%r) = %r' % (t, got), snip)
            uq = [c for c in unquoted_chars(t) if c not in INERT and c != ' ']
            if uq:
                H.fail('unquoted_char_is_inert', 'args2sh', 'character outside [A-Za-z0-9_@%+=:,./-] left unquoted',
                       args, 'unquoted %r in %r' % (uq, t))
        c = ctexts[i]
        if c is not None:
            got = mscrt.split_all(c)
            wrong = [v for v in mscrt.VARIANTS if got[v] != args]
            if wrong:
                wc = cmd_wclass(args)
                if 'documented' not in wrong:
                    wc += ' (only under the undocumented "" rule: %s)' % '/'.join(wrong)
                H.fail('cmd_roundtrip', 'args2cmd', wc, args,
                       'MS CRT rules (%s) split %r into %r' % (wrong[0], c, got[wrong[0]]),
                       'from boltons.strutils import args2cmd\nimport sys\nsys.path.insert(0, "/verif")\n'
                       'from refmodels import mscrt\nargs = %r\n'
                       'assert all(v == args for v in mscrt.split_all(args2cmd(args)).values()), args2cmd(args)\n' % (args,))


def codepoints():
    return itertools.chain(range(1, 0xD800), range(0xE000, 0x110000))


def check_inert_exhaustive(H, contexts):
    n = 0
    for cp in codepoints():
        ch = chr(cp)
        for ctx in contexts:
            arg = ctx % ch if ctx else ch
            try:
                t = S.args2sh([arg])
            except Exception as e:  # noqa
                H.fail('unquoted_char_is_inert', 'args2sh', 'raises', [arg], repr(e))
                continue
            n += 1
            if t == arg:
                bad = [c for c in arg if c not in INERT]
            elif t[:1] == "'" and t[-1:] == "'" and "'" not in t[1:-1]:
                bad = []                              # one single-quoted word: nothing is outside quotes
            else:
                bad = [c for c in unquoted_chars(t) if c not in INERT]
            if bad:
                H.fail('unquoted_char_is_inert', 'args2sh', 'character outside [A-Za-z0-9_@%+=:,./-] left unquoted',
                       [arg], 'U+%04X: unquoted %r in %r' % (cp, bad, t),
                       'from boltons.strutils import args2sh\nimport re\nt = args2sh([%r])\n'
                       'assert t[0] == "\'" or re.fullmatch("[A-Za-z0-9_@%%+=:,./-]*", t), t\n' % (arg,))
        if (cp & 0xFFFF) == 0:
            H.ev(key=('inert-plane', cp >> 16), nontrivial=True, part='inert_codepoints',
                 sample=dict(codepoints_so_far=n))
    H.evaluations += n
    H.parts['inert_codepoints'] = n
    H.nontrivial_overflow += n
    return n


# ---- integer lists ----------------------------------------------------------------------------------
def ref_format(ints):
    xs, out, i = sorted(set(ints)), [], 0
    while i < len(xs):
        j = i
        while j + 1 < len(xs) and xs[j + 1] == xs[j] + 1:
            j += 1
        out.append('%d' % xs[i] if i == j else '%d-%d' % (xs[i], xs[j]))
        i = j + 1
    return ','.join(out)


def ref_parse(text):
    out = []
    for tok in text.split(','):
        tok = tok.strip()
        if not tok:
            continue
        if '-' in tok:
            a, b = tok.split('-')
            out.extend(range(int(a), int(b) + 1))
        else:
            out.append(int(tok))
    return sorted(out)


def list_wclass(L):
    if len(set(L)) < len(L):
        return 'list with a repeated value'
    if list(L) != sorted(L):
        return 'unsorted list of distinct values'
    return 'sorted list of distinct values'


def check_int_list(H, L, kind=list):
    L = list(L)
    want = sorted(set(L))
    snip = 'from boltons.strutils import *\nL = %r\nassert parse_int_list(format_int_list(L)) == sorted(set(L)), format_int_list(L)\n' % (L,)
    H.ev(key=('ints', tuple(L), kind.__name__), nontrivial=len(L) >= 2, part='int_lists', sample=dict(int_list=L))
    ok, s = H.guard(lambda: S.format_int_list(kind(L)), 'format_canonical', 'format_int_list', 'raises', L, snip)
    if not ok:
        return
    if s != ref_format(L):
        H.fail('format_canonical', 'format_int_list', list_wclass(L), L,
               'format_int_list -> %r, maximal ranges are %r' % (s, ref_format(L)),
               'from boltons.strutils import *\nassert format_int_list(%r) == %r\n' % (L, ref_format(L)))
    ok, p = H.guard(lambda: S.parse_int_list(s), 'parse_format_roundtrip', 'parse_int_list', 'raises', L, snip)
    if ok and p != want:
        H.fail('parse_format_roundtrip', 'parse_int_list', list_wclass(L), L,
               'format -> %r, parse -> %r, expected %r' % (s, p, want), snip)


def check_complement(H, members, text, rs, re_):
    want_end = re_ if re_ is not None else (max(members) + 1 if members else (rs if rs is not None else 0))
    want = [i for i in range(rs or 0, want_end) if i not in members]
    kw = {}
    if rs is not None:
        kw['range_start'] = rs
    if re_ is not None:
        kw['range_end'] = re_
    wc = ('range_end omitted' if re_ is None else 'empty window (start >= end)' if (rs or 0) >= re_
          else 'explicit non-empty window')
    wit = dict(range_string=text, **kw)
    snip = ('from boltons.strutils import *\nout = complement_int_list(%r, **%r)\n'
            'assert parse_int_list(out) == %r, out\n' % (text, kw, want))
    H.ev(key=('compl', text, rs, re_), nontrivial=bool(want), part='complement', sample=wit)
    ok, out = H.guard(lambda: S.complement_int_list(text, **kw), 'complement_exact', 'complement_int_list',
                      'raises', wit, snip)
    if not ok:
        return
    try:
        got = ref_parse(out)
    except Exception:  # noqa
        got = 'unparsable'
    if got != want:
        H.fail('complement_exact', 'complement_int_list', wc, wit, 'returned %r = %r, missing integers are %r'
               % (out, got, want), snip)


def check_gzip(H, b, level):
    wit = dict(data=repr(b) if len(b) <= 40 else '%d bytes' % len(b), level=level)
    snip = ('from boltons.strutils import *\nb = %r\nassert gunzip_bytes(gzip_bytes(b, %d)) == b\n' % (b, level)
            if len(b) <= 200 else None)
    H.ev(key=('gz', b, level), nontrivial=bool(b), part='gzip', sample=wit)
    wc = 'empty byte string' if not b else 'byte string of %s' % ('<= 3 bytes' if len(b) <= 3 else '> 3 bytes')
    ok, z = H.guard(lambda: S.gzip_bytes(b, level), 'gzip_roundtrip', 'gzip_bytes', 'raises', wit, snip)
    if not ok:
        return
    ok, back = H.guard(lambda: S.gunzip_bytes(z), 'gzip_roundtrip', 'gunzip_bytes', 'raises', wit, snip)
    if ok and back != b:
        H.fail('gzip_roundtrip', 'gzip_bytes', wc, wit, 'round trip gives %r' % (back[:40],), snip)
    try:
        std = gzip.decompress(z)
    except Exception as e:  # noqa
        std = e
    if std != b:
        H.fail('gzip_roundtrip', 'gzip_bytes', wc + ' (stdlib gzip reader)', wit, 'gzip.decompress -> %r' % (std,), snip)
    ok, back = H.guard(lambda: S.gunzip_bytes(gzip.compress(b, level)), 'gzip_roundtrip', 'gunzip_bytes',
                       'raises on stdlib gzip data', wit)
    if ok and back != b:
        H.fail('gzip_roundtrip', 'gunzip_bytes', wc + ' (stdlib gzip writer)', wit, 'got %r' % (back[:40],))


def run():
    H = Harness('C14',
                rule='a case is one argument list (both encoders, every oracle), one code point, one integer list, '
                     'one (range string, window) or one (byte string, level); non-trivial = the list has an empty '
                     'argument or a character outside the inert set / the integer list has >= 2 items / the '
                     'complement is non-empty / the byte string is non-empty',
                bounds=dict(
                    quick='args: all lists of <=1 string of length <=4, 2 strings of total length <=4, 3 strings of total '
                          'length <=3 over {a,space,tab,\',",\\,$,*,newline,e-acute}; every code point 1..0x2FF and every '
                          '257th code point alone and in 2 contexts through the shells; inert set: ALL code points but NUL '
                          'and surrogates, alone and as a%sa; ints: all lists <=5 over 0..7 + multi-digit subsets; complement: all '
                          'subsets of 0..7 x start 0..9 x end None,0..9; gzip: all single bytes, strings <=3 over 6 bytes, '
                          '3 large, levels 1-9',
                    thorough='args: 1 string <=5 (+ <=6 if time), 2 strings total <=5, 3 strings total <=4; inert set also '
                             'in context \'%s; ints: all lists <=6 over 0..7; seeded random long argument lists'))
    rnd = random.Random(H.seed)

    # ---- reference model validation ---------------------------------------------------------------
    bad, n = mscrt.self_test()
    H.ev(key='mscrt-selftest', nontrivial=True, part='refmodel_validation', sample=dict(list2cmdline_samples=n))
    if bad:
        print('CHECKER-ERROR MS CRT reference model fails its validation: %s' % bad[:3])
        sys.exit(3)

    sh = Shells(H)
    try:
        # ---- exhaustive lists over the significant alphabet ------------------------------------------
        by_len = {k: [''.join(p) for p in itertools.product(ALPHA, repeat=k)] for k in range(7)
                  if k <= (5 if H.thorough else 4)}
        plan = [(1, 5), (2, 5), (3, 4)] if H.thorough else [(1, 4), (2, 4), (3, 3)]
        check_shell_quoting(H, sh, [[]], 'args_exhaustive')
        for nargs, total in plan:
            buf = []
            for args in lists_total(nargs, total, by_len):
                buf.append(args)
                if len(buf) >= 60000:
                    check_shell_quoting(H, sh, buf, 'args_exhaustive')
                    buf = []
                    if H.out_of_time(0.6):
                        H.note_truncated('argument lists (%d strings, total <= %d) stopped by time budget' % (nargs, total))
                        break
            check_shell_quoting(H, sh, buf, 'args_exhaustive')

        # ---- every low code point / a stride of all planes, alone and in context, through the shells ----
        cps = sorted(set(range(1, 0x300)) | set(range(1, 0x110000, 257)) | {0x2028, 0x2029, 0xFEFF, 0xFFFE, 0x10FFFF})
        cps = [c for c in cps if not 0xD800 <= c < 0xE000]
        cases = []
        for c in cps:
            cases += [[chr(c)], ['a' + chr(c)], [chr(c) + "'", chr(c)]]
        check_shell_quoting(H, sh, cases, 'args_codepoints')

        # ---- the literal one-case form sh -c "exec python -c ... <text>" -------------------------------
        directed = [[], [''], ['', ''], ['a b', ''], ["'"], ["''"], ['"'], ['\\'], ["\\'"], ['$a'], ['${a}'], ['$(a)'], ['`a`'],
                    ['*'], ['~'], ['a*', '?'], ['\n'], ['a\nb'], ['é'], ['-n'], ['a;b'], ['a|b', '&'], ['#a'], ['!a'],
                    ['a=b'], ['{a,b}'], ['[a]'], ["a'b'c"], ['a\\\nb'], ['\t'], [' '], ['\U0001F600 x'], ['>', 'a'], ['\x7f\x01']]
        for args in directed:
            H.ev(key=('directed', tuple(args)), nontrivial=True, part='args_directed_sh_c', sample=dict(args=args))
            ok, t = H.guard(lambda: S.args2sh(list(args)), 'sh_roundtrip', 'args2sh', 'raises', args)
            if not ok:
                continue
            for shell in sh.shells:
                got = sh.one(shell, t)
                if got != args:
                    H.fail('sh_roundtrip', 'args2sh', sh_wclass(args), args, '%s -c "exec python ... %s" received %r'
                           % (shell, t, got))
        check_shell_quoting(H, sh, directed, 'args_directed')

        # ---- seeded random longer lists (thorough) ----------------------------------------------------
        if H.thorough:
            pool = ALPHA + list(';|&<>()`~#!?[]{}=%-') + ['\r', '\x01', '\u2028', '\U0001F600', 'b', '0']
            cases = [[''.join(rnd.choice(pool) for _ in range(rnd.randint(0, 12))) for _ in range(rnd.randint(0, 6))]
                     for _ in range(60000)]
            check_shell_quoting(H, sh, cases, 'args_random')
            if not H.out_of_time(0.35):
                buf = [[''.join(p)] for p in itertools.product(ALPHA, repeat=6)]
                for j in range(0, len(buf), 100000):
                    if H.out_of_time(0.6):
                        H.note_truncated('single strings of length 6 stopped by time budget')
                        break
                    check_shell_quoting(H, sh, buf[j:j + 100000], 'args_exhaustive')
    finally:
        sh.close()

    # ---- finite exhaustive obligation over all code points ---------------------------------------------
    check_inert_exhaustive(H, ['', 'a%sa', "'%s"] if H.thorough else ['', 'a%sa'])

    # ---- integer lists -------------------------------------------------------------------------------
    for k in range(0, (6 if H.thorough else 5) + 1):
        for L in itertools.product(range(8), repeat=k):
            check_int_list(H, L)
    for L in itertools.combinations_with_replacement(range(8), 6):
        check_int_list(H, L)
        check_int_list(H, L[::-1])
    big = [0, 1, 2, 9, 10, 11, 12, 99, 100, 101, 1000]
    for r in range(len(big) + 1):
        for L in itertools.combinations(big, r):
            check_int_list(H, L)
            check_int_list(H, L, kind=set)
    for r in range(9):
        for members in itertools.combinations(range(8), r):
            texts = {ref_format(members), ','.join(map(str, members)), ','.join(map(str, members[::-1] + members[:1]))}
            for text in sorted(texts):
                for rs in [None] + list(range(0, 10)):
                    for re_ in [None] + list(range(0, 10)):
                        check_complement(H, set(members), text, rs, re_)
    for members in ([9, 10, 11, 99], [100, 1000], [15]):
        for rs, re_ in ((None, None), (5, None), (8, 101), (0, 1002), (99, 100)):
            check_complement(H, set(members), ref_format(members), rs, re_)

    # ---- gzip ----------------------------------------------------------------------------------------
    datas = [bytes([i]) for i in range(256)]
    datas += [bytes(p) for k in (0, 2, 3) for p in itertools.product([0x00, 0x61, 0xff, 0x1f, 0x8b, 0x0a], repeat=k)]
    r2 = random.Random(12345)
    datas += [b'a' * 10000, bytes(r2.getrandbits(8) for _ in range(70000)), b'ab\x00' * 30000]
    if H.thorough:
        datas += [bytes(rnd.getrandbits(8) for _ in range(rnd.randint(4, 3000))) for _ in range(300)]
    for b in datas:
        for level in range(1, 10):
            check_gzip(H, b, level)
    H.finish()


main_wrapper(run)
