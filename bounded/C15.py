"""C15 bounded stand-in: backoff / backoff_iter against an exact rational reference curve.

Contract (from the property statement), float results compared with exact Fraction arithmetic on the real
numbers the float parameters denote; rounding tolerated: 4+i ulps at position i (i float multiplications):
  valid (0 <= start <= stop, stop > 0, factor >= 1), no jitter:
    first_is_start / zero_followed_by_min_1_stop / geometric_growth_capped (value i == b_i of the reference
    curve b_0=start, 0 -> min(1,stop), b_{i+1} = min(b_i*factor, stop)) / non_decreasing / never_exceeds_stop
    exactly_count_values (count given), repeat_is_endless (backoff_iter, first 12 + one more),
    default_count_last_is_stop (count=None, factor > 1; factor == 1 with count=None is not specified: skipped)
  jitter j in [-1, 1]: value i between b_i and b_i*(1-j) inclusive, for patched random draws incl. 0 and 1-2^-53
  invalid parameters: ValueError, and nothing yielded before it
  backoff(...) == list(backoff_iter(...))
"""
import itertools
import math
import os
import random
import sys
from fractions import Fraction

sys.path.insert(0, os.path.dirname(os.path.dirname(os.path.abspath(__file__))))
from bounded.harness import Harness, main_wrapper  # noqa: E402
from refmodels.backoff_ref import F, valid, base_curve, close, within  # noqa: E402

from boltons import iterutils  # noqa: E402

HDR = 'import sys, itertools\nfrom boltons.iterutils import backoff, backoff_iter\n'
CAP = 4000          # safety cap on values drawn for count=None
REPEAT_TAKE = 12


class Draws:
    """deterministic stand-in for random.random(): extreme draws first, then a seeded stream"""
    def __init__(self, seed):
        self.rng = random.Random(seed)
        self.fixed = [0.0, 1.0 - 2.0 ** -53, 0.5]
        self.i = 0

    def __call__(self):
        self.i += 1
        if self.i <= len(self.fixed):
            return self.fixed[self.i - 1]
        if self.i % 5 == 0:
            return self.fixed[(self.i // 5) % 2]
        return self.rng.random()


def run_call(kind, start, stop, count, factor, jitter, seed):
    """-> ('ok', values, more) | ('exc', exception, n_yielded_before)"""
    kw = dict(count=count, factor=factor, jitter=jitter)
    orig = random.random
    random.random = Draws(seed)
    got = []
    try:
        if kind == 'backoff':
            return 'ok', list(iterutils.backoff(start, stop, **kw)), False
        it = iterutils.backoff_iter(start, stop, **kw)
        if count == 'repeat':
            lim = REPEAT_TAKE + 1
        elif count is None:
            lim = CAP
        else:
            lim = count + 2
        for v in itertools.islice(it, lim):
            got.append(v)
        return 'ok', got, False
    except Exception as e:  # noqa
        return 'exc', e, len(got)
    finally:
        random.random = orig


def zclass(start, stop):
    if float(start) == 0:
        return 'start == 0 and stop < 1' if float(stop) < 1 else 'start == 0 and stop >= 1'
    return 'start > 0'


def call_src(kind, start, stop, count, factor, jitter):
    if kind == 'backoff':
        return 'backoff(%r, %r, count=%r, factor=%r, jitter=%r)' % (start, stop, count, factor, jitter)
    return 'list(itertools.islice(backoff_iter(%r, %r, count=%r, factor=%r, jitter=%r), %d))' % (
        start, stop, count, factor, jitter, REPEAT_TAKE + 1 if count == 'repeat' else CAP)


def min_len(start, stop, factor):
    n = 1
    while base_curve(start, stop, factor, n)[-1] < F(stop) and n < CAP:
        n += 1
    return n


def last_snip(src, start, stop, factor, jitter):
    fstop = float(stop)
    if jitter:
        return HDR + 'got = %s\nassert len(got) >= %d, got\n' % (src, min_len(start, stop, factor))
    return HDR + 'got = %s\nassert got and abs(got[-1] - %r) <= 1e-12 * %r, got\n' % (src, fstop, fstop)


def check_valid(H, kind, start, stop, count, factor, jitter, seed):
    site = kind
    wit = dict(call=kind, start=start, stop=stop, count=count, factor=factor, jitter=jitter)
    zc = zclass(start, stop)
    src = call_src(kind, start, stop, count, factor, jitter)
    st, val, _ = run_call(kind, start, stop, count, factor, jitter, seed)
    fstop = float(stop)
    if st == 'exc':
        if count is None:
            H.fail('default_count_last_is_stop', site, zc, wit,
                   'valid parameters raised %s: %s' % (type(val).__name__, val),
                   last_snip(src, start, stop, factor, jitter))
        else:
            H.fail('valid_params_accepted', site, zc, wit, 'raised %s: %s' % (type(val).__name__, val),
                   HDR + 'got = %s\n' % src)
        return
    got = val
    n = len(got)
    if any(not isinstance(v, (int, float)) or v != v for v in got):
        H.fail('geometric_growth_capped', site, zc, wit, 'non-numeric value in %r' % (got[:8],))
        return
    # length
    if count == 'repeat':
        if n < REPEAT_TAKE + 1:
            H.fail('repeat_is_endless', site, zc, wit, 'stopped after %d values' % n,
                   HDR + 'got = %s\nassert len(got) == %d, len(got)\n' % (src, REPEAT_TAKE + 1))
    elif count is not None:
        if n != count:
            H.fail('exactly_count_values', site, zc, wit, '%d values for count=%r' % (n, count),
                   HDR + 'got = %s\nassert len(got) == %d, got\n' % (src, count))
    elif n >= CAP:
        H.fail('default_count_last_is_stop', site, zc, wit, 'more than %d values with count=None' % CAP)
        return
    curve = base_curve(start, stop, factor, n)
    exp_f = [float(b) for b in curve]
    tol_snip = ('exp = %r\nassert len(got) >= len(exp) and all(abs(g - e) <= 1e-12 * max(abs(e), 1e-300) '
                'for g, e in zip(got, exp)), got\n' % (exp_f,))
    if not jitter:
        for i, (g, b) in enumerate(zip(got, curve)):
            if not close(g, b, 4 + i):   # i multiplications: <= i/2 ulp accumulated rounding
                if i == 0:
                    cl = 'first_is_start'
                elif i == 1 and float(start) == 0:
                    cl = 'zero_followed_by_min_1_stop'
                else:
                    cl = 'geometric_growth_capped'
                H.fail(cl, site, zc, wit, 'value %d is %r, reference %r (got %r)' % (i, g, float(b), got[:8]),
                       HDR + 'got = %s\n' % src + tol_snip)
                break
        if any(g > fstop for g in got):
            H.fail('never_exceeds_stop', site, zc, wit, 'got %r' % (got[:10],),
                   HDR + 'got = %s\nassert all(g <= %r for g in got), got\n' % (src, fstop))
        if any(got[i] > got[i + 1] for i in range(n - 1)):
            H.fail('non_decreasing', site, zc, wit, 'got %r' % (got[:10],),
                   HDR + 'got = %s\nassert all(a <= b for a, b in zip(got, got[1:])), got\n' % src)
    else:
        j = Fraction(1) if jitter is True else F(jitter)
        for i, (g, b) in enumerate(zip(got, curve)):
            if not within(g, b, b * (1 - j), 6 + i):
                H.fail('jitter_bounded', site, 'jitter > 0' if j > 0 else 'jitter < 0', wit,
                       'value %d is %r, allowed between %r and %r' % (i, g, float(b), float(b * (1 - j))))
                break
    if count is None and F(factor) > 1:
        # last un-jittered value is stop: the reference curve at the last produced position has reached stop
        ok = n > 0 and curve[-1] >= F(stop) - 8 * Fraction(math.ulp(fstop))
        if ok and not jitter:
            ok = close(got[-1], F(stop), 4 + n)
        if not ok:
            H.fail('default_count_last_is_stop', site, zc, wit, 'got %r, stop %r' % (got[-6:], fstop),
                   last_snip(src, start, stop, factor, jitter))
    return got


def check_invalid(H, kind, start, stop, count, factor, jitter, why):
    wit = dict(call=kind, start=start, stop=stop, count=count, factor=factor, jitter=jitter)
    st, val, nbefore = run_call(kind, start, stop, count, factor, jitter, 1)
    src = call_src(kind, start, stop, count, factor, jitter)
    snip = (HDR + 'try:\n    got = %s\nexcept ValueError:\n    sys.exit(0)\n'
            'raise AssertionError("no ValueError: %%r" %% (got[:5],))\n' % src)
    if st == 'ok':
        H.fail('invalid_params_raise_valueerror', kind, why, wit, 'no exception, got %r' % (val[:6],), snip)
    elif not isinstance(val, ValueError):
        H.fail('invalid_params_raise_valueerror', kind, why, wit,
               'raised %s instead of ValueError: %s' % (type(val).__name__, val), snip)
    elif nbefore:
        H.fail('invalid_params_raise_valueerror', kind, why, wit, '%d values yielded before the ValueError' % nbefore, snip)


def invalid_reasons(start, stop, count, factor, jitter):
    r = []
    if float(start) < 0:
        r.append('start < 0')
    if float(stop) <= 0:
        r.append('stop <= 0')
    if float(stop) < float(start):
        r.append('stop < start')
    if float(factor) < 1:
        r.append('factor < 1')
    if count not in (None, 'repeat') and count < 0:
        r.append('count < 0')
    if jitter is not True and jitter is not False and not (-1 <= float(jitter) <= 1):
        r.append('jitter outside [-1, 1]')
    return r


def one_case(H, start, stop, count, factor, jitter, seed, part):
    reasons = invalid_reasons(start, stop, count, factor, jitter)
    kinds = ['backoff_iter'] + ([] if count == 'repeat' else ['backoff'])
    res = {}
    nfail0 = sum(H.fail_counts.values())
    for kind in kinds:
        if kind == 'backoff' and sum(H.fail_counts.values()) != nfail0:
            break   # backoff delegates to backoff_iter: the same failure is reported once, at backoff_iter
        key = (kind, start, stop, count, factor, jitter)
        if reasons:
            H.ev(key=key, nontrivial=True, part=part + ':invalid',
                 sample=dict(call=kind, start=start, stop=stop, count=count, factor=factor, jitter=jitter))
            why = reasons[0] if len(reasons) == 1 else 'several invalid parameters'
            if reasons == ['stop <= 0', 'stop < start'] or (float(stop) < 0 and set(reasons) == {'stop <= 0', 'stop < start'}):
                why = 'stop <= 0'
            check_invalid(H, kind, start, stop, count, factor, jitter, why)
            continue
        if count is None and F(factor) == 1:
            continue  # unspecified: the sequence never reaches stop; any behaviour accepted
        # non-trivial: the cap is reached within the produced values or start == 0 or jitter set
        nontriv = bool(jitter) or float(start) == 0 or count in (None, 'repeat') or \
            (count > 1 and F(start) * F(factor) ** (count - 1) >= F(stop))
        H.ev(key=key, nontrivial=nontriv, part=part,
             sample=dict(call=kind, start=start, stop=stop, count=count, factor=factor, jitter=jitter))
        res[kind] = check_valid(H, kind, start, stop, count, factor, jitter, seed)
    if len(res) == 2 and not jitter and None not in res.values() and res['backoff'] != res['backoff_iter']:
        H.fail('backoff_equals_backoff_iter', 'backoff', zclass(start, stop),
               dict(start=start, stop=stop, count=count, factor=factor), repr(res)[:400])


def run():
    H = Harness('C15',
                rule='one case = one call (backoff or backoff_iter) with one parameter tuple; non-trivial = jitter set, '
                     'or start == 0, or count None/repeat, or the cap at stop is reached within count values; invalid '
                     'tuples are evaluated against the ValueError clause',
                bounds=dict(quick='grid start{0,.1,.25,1,3} x stop{.1,.5,1,10,1e3} x factor{1,1.5,2,10} x count{None,0..6,repeat} '
                                  'x jitter{off,-1,-.5,.5,1,True}; invalid single/multiple parameters; stop = start*f^k (k<=12) +-2ulp',
                            thorough='grid 11 starts x 10 stops x 7 factors x count{None,0..9,repeat} x 11 jitters (int and float '
                                     'spellings); powers k<=40 +-3ulp; 30000 seeded random parameter tuples'))
    T = H.thorough
    starts = [0, 0.1, 0.25, 1, 3] + ([0.0, 1e-3, 0.5, 2, 7.5, 100.0] if T else [])
    stops = [0.1, 0.5, 1, 10, 1e3] + ([1e-3, 0.25, 2.0, 60, 1e6] if T else [])
    factors = [1, 1.5, 2, 10] + ([1.0, 1.01, 3] if T else [])
    counts = [None, 'repeat'] + list(range(0, 10 if T else 7))
    jitters = [False, -1, -0.5, 0.5, 1, True] + ([-0.75, -0.1, 0.1, 0.75, 1.0] if T else [])
    seed = H.seed
    for start, stop, factor, count, jitter in itertools.product(starts, stops, factors, counts, jitters):
        one_case(H, start, stop, count, factor, jitter, seed, 'grid')
    # invalid parameters around valid baselines
    bad = dict(start=[-1, -0.001, -1e300], stop=[0, 0.0, -1, -0.5], factor=[0.999, 0.5, 0, -2],
               count=[-1, -5], jitter=[1.5, -1.5, 2, -2, 1.0000000000000002])
    for (s0, t0) in [(1, 10), (0, 5), (0.25, 0.25), (0, 0.5)]:
        for c0 in (None, 3, 0, 'repeat'):
            base = dict(start=s0, stop=t0, count=c0, factor=2.0, jitter=False)
            for name, vals in bad.items():
                for v in vals:
                    p = dict(base)
                    p[name] = v
                    one_case(H, p['start'], p['stop'], p['count'], p['factor'], p['jitter'], seed, 'invalid')
            for (n1, n2) in itertools.combinations(bad, 2):
                p = dict(base)
                p[n1], p[n2] = bad[n1][0], bad[n2][0]
                one_case(H, p['start'], p['stop'], p['count'], p['factor'], p['jitter'], seed, 'invalid')
    # long runs: "exactly count values" and the endless 'repeat' form must survive thousands of steps
    for start, stop, factor in [(1, 10, 2.0), (0.5, 1e6, 10.0), (0, 3, 1.5), (2, 2, 1.0)]:
        for cnt in (1100, 3000):
            one_case(H, start, stop, cnt, factor, False, seed, 'long')
        globals()['REPEAT_TAKE'] = 2500
        try:
            one_case(H, start, stop, 'repeat', factor, False, seed, 'long')
        finally:
            globals()['REPEAT_TAKE'] = 12
    # stop > start swapped
    for s0, t0 in [(2, 1), (10, 0.5), (1e3, 999.9999)]:
        for c0 in (None, 3):
            one_case(H, s0, t0, c0, 2.0, False, seed, 'invalid')
    # rounding of the logarithm: stop = start * factor^k up to a few ulps
    kmax, du = (40, 3) if T else (12, 2)
    for start in [0.1, 0.25, 1, 3, 0.3] + ([1e-3, 7.5] if T else []):
        for factor in [1.5, 2, 3, 10, 1.1] + ([1.01, 7] if T else []):
            for k in range(0, kmax + 1):
                ex = F(start) * F(factor) ** k
                if ex > 10 ** 300:
                    break
                s = float(ex)
                cands = {s}
                a = b = s
                for _ in range(du):
                    a, b = math.nextafter(a, math.inf), math.nextafter(b, -math.inf)
                    cands.update((a, b))
                # also a hair above/below the exact power, well outside the rounding tolerance of the comparison (a
                # logarithm that is rounded or truncated before ceil() shows here, not within a few ulps)
                for rel in (1e-13, 1e-11, 1e-9, 1e-7, 1e-5):
                    cands.update((s * (1 + rel), s * (1 - rel)))
                for stop in sorted(cands):
                    if stop >= start:
                        one_case(H, start, stop, None, factor, False, seed, 'powers')
            if H.out_of_time(0.7):
                H.note_truncated('powers part stopped by time budget')
                break
    # also start == 0 with stop a power of the factor, below and above 1
    for factor in (1.5, 2, 10):
        for k in range(-6, 7):
            for stop in {float(F(factor) ** k)} | {math.nextafter(float(F(factor) ** k), d) for d in (0, math.inf)}:
                one_case(H, 0, stop, None, factor, False, seed, 'powers')
    if T:
        rng = random.Random(1000 + seed)
        for i in range(30000):
            if H.out_of_time(0.9):
                H.note_truncated('random tuples stopped by time budget at %d' % i)
                break
            start = rng.choice([0, 0, rng.uniform(0, 2), 10 ** rng.uniform(-6, 6)])
            stop = max(start, rng.choice([rng.uniform(0, 2), 10 ** rng.uniform(-6, 8), start * rng.uniform(1, 100) or 0.3]))
            if stop <= 0:
                stop = 0.5
            factor = rng.choice([1, 2, rng.uniform(1, 1.2), rng.uniform(1, 20)])
            if factor != 1 and start > 0 and math.log(stop / start) > 150 * math.log(factor):
                factor = (stop / start) ** (1 / 150.0) * 1.001   # keep the default count <= ~150
            if factor != 1 and start == 0 and stop > 1 and math.log(stop) > 150 * math.log(factor):
                factor = stop ** (1 / 150.0) * 1.001
            count = rng.choice([None, None, 'repeat'] + list(range(0, 30)))
            jitter = rng.choice([False, False, True, rng.uniform(-1, 1)])
            one_case(H, start, stop, count, factor, jitter, seed + i, 'random')
    H.finish()


main_wrapper(run)
