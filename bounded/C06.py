"""C06 bounded stand-in: URL component round trip, quoting tables, fixed points, totality.

Contract (from the property statement), on the real boltons.urlutils:
  quote_output_legal     quote_X_part(s, full_quote=True) uses only characters RFC 3986 allows in X (or %XX)
  unquote_undoes_quote   unquote(quote_X_part(s, full_quote=True)) == NFC(s)
  unquote_decodes_escapes  unquote(t) == reference decoder (every well-formed %XX -> byte, bytes as UTF-8,
                         everything else untouched; ill-formed UTF-8: any str accepted, statement silent)
  component_recovered    parts -> to_text(full_quote=True) -> URL(): username, password, path segments, query
                         keys/values, fragment == NFC(original) (a blank value may come back as None), scheme,
                         host, port unchanged (default port may come back as None); nothing leaks to a neighbour
  rendered_text_legal    that text matches the RFC 3986 URI grammar component by component
  full_quote_fixed_point / minimal_quote_fixed_point   on well-formed texts x: render(parse(render(parse(x))))
                         == render(parse(x)); minimal only when no decoded component contains '%'
  totality               URL(text) returns a URL or raises URLParseError; find_all_links(text) never raises
One defect = one triple: a failure is attributed to the (component kind, character) that fails on its own
in the same position; fixed-point failures caused by such a character reuse that triple.
"""
import itertools
import os
import re
import sys
from unicodedata import normalize

sys.path.insert(0, os.path.dirname(os.path.dirname(os.path.abspath(__file__))))
from bounded.harness import Harness, main_wrapper  # noqa: E402
from refmodels import rfc3986 as R  # noqa: E402

from boltons import urlutils as U  # noqa: E402
from boltons.urlutils import URL, URLParseError, unquote, find_all_links  # noqa: E402

HDR = 'from boltons.urlutils import *\n'
NFC = lambda s: normalize('NFC', s)  # noqa: E731
# significant symbols: gen-delims, sub-delims, '%', space, controls, non-ASCII (2-, 3-, 4-byte, combining pair,
# NFC-unstable), plain letters/digits that could complete an escape
SYMS = list(":/?#[]@!$&'()*+,;=") + ['%', ' ', '\x00', '\x7f', '\n', '\u00e9', '\u20ac', '\U0001F600',
                                      'e\u0301', '\u212b', 'a', '4', '1']
UNRES = r'A-Za-z0-9._~\-'
SUB = "!$&'()*+,;="
LEGAL = dict(userinfo=UNRES + SUB + ':', path=UNRES + SUB + ':@', query=UNRES + SUB + ':@/?', fragment=UNRES + SUB + ':@/?')
LEGAL_RE = {k: re.compile('(?:[%s]|%%[0-9A-Fa-f]{2})*' % v) for k, v in LEGAL.items()}
LEGAL_RE['host'] = re.compile(r'\[[0-9A-Fa-f:.]+\]|(?:[%s]|%%[0-9A-Fa-f]{2})*' % (UNRES + SUB))
QUOTERS = dict(userinfo='quote_userinfo_part', path='quote_path_part', query='quote_query_part', fragment='quote_fragment_part')
KIND = dict(username='username/password', password='username/password', segment='path segment',
            key='query key/value', value='query key/value', fragment='fragment')
_ESC = re.compile('((?:%[0-9A-Fa-f]{2})+)')


def ref_unquote(t):
    out, valid = [], True
    for i, bit in enumerate(_ESC.split(t)):
        if i % 2:
            b = bytes(int(bit[j + 1:j + 3], 16) for j in range(0, len(bit), 3))
            try:
                out.append(b.decode('utf-8'))
            except UnicodeDecodeError:
                valid = False
        else:
            out.append(bit)
    return ''.join(out), valid


def strings(maxlen, syms=SYMS):
    for n in range(maxlen + 1):
        for tup in itertools.product(syms, repeat=n):
            yield ''.join(tup), tup


def bad_chars(kind, piece):
    return sorted(set(LEGAL_RE[kind].sub('', piece)))


# ---- component round trip -----------------------------------------------------------------------
HOSTS = dict(name='example.com', idn='b\u00fccher.de', ipv4='127.0.0.1', ipv6='::1')
POSITIONS = ('username', 'password', 'segment', 'key', 'value', 'fragment')


def parts_for(pos, s, filled):
    """component values with s at position pos; other components benign (filled) or empty (bare)"""
    c = dict(username='u', password='pw', segs=['x', 'y'], query=[('k1', 'v1'), ('k2', 'v2')], fragment='f') if filled \
        else dict(username='', password='', segs=[], query=[], fragment='')
    if pos in ('username', 'password', 'fragment'):
        c[pos] = s
    elif pos == 'segment':
        c['segs'] = c['segs'][:1] + [s] + c['segs'][1:]
    else:
        c['query'] = c['query'][:1] + [(s, 'v') if pos == 'key' else ('k', s)] + c['query'][1:]
    return c


def build(env, c):
    scheme, hk, port = env
    if hk == 'ipv6':        # from_parts cannot mark a host as IPv6: parse a skeleton, then assign
        u = URL('%s://[%s]' % (scheme, HOSTS[hk]))
        u.port, u.username, u.password, u.fragment = port, c['username'], c['password'], c['fragment']
        u.path_parts = ('',) + tuple(c['segs'])
        for k, v in c['query']:
            u.query_params.add(k, v)
        return u
    return URL.from_parts(scheme=scheme, host=HOSTS[hk], port=port, username=c['username'], password=c['password'],
                          path_parts=('',) + tuple(c['segs']), query_params=list(c['query']), fragment=c['fragment'])


def observe(v):
    return dict(scheme=v.scheme, host=v.host, port=v.port, username=v.username or '', password=v.password or '',
                segs=list(v.path_parts), query=[(k, w or '') for k, w in v.query_params.items(multi=True)],
                fragment=v.fragment or '')


def expected(env, c):
    return dict(scheme=env[0], host=HOSTS[env[1]], port=env[2], username=NFC(c['username']), password=NFC(c['password']),
                segs=[''] + [NFC(s) for s in c['segs']], query=[(NFC(k), NFC(w)) for k, w in c['query']],
                fragment=NFC(c['fragment']))


def default_port(scheme):
    try:
        return URL.from_parts(scheme=scheme).default_port
    except Exception:  # noqa
        return {'http': 80, 'git+ssh': 22}.get(scheme)


def roundtrip(env, c):
    """-> (problems: list of (clause, what), text)"""
    u = build(env, c)
    text = u.to_text(full_quote=True)
    probs = []
    s, a, p, q, f = R.parse(text)
    ui, _, hp = (a or '').rpartition('@')
    host = hp[:hp.rfind(':')] if re.search(r':\d*$', hp) else hp
    for kind, piece in [('userinfo', ui), ('host', host), ('query', q or ''), ('fragment', f or '')] + [('path', x) for x in p.split('/')]:
        if not LEGAL_RE[kind].fullmatch(piece):
            probs.append(('rendered_text_legal', 'raw %r in the %s of %r' % (bad_chars(kind, piece) if kind != 'host' else piece, kind, text)))
    got, want = observe(URL(text)), expected(env, c)
    dport = default_port(env[0])
    for k in want:
        if got[k] != want[k] and not (k == 'port' and want[k] == dport and got[k] is None):
            probs.append(('component_recovered', '%s: put %r, got back %r (text %r)' % (k, want[k], got[k], text)))
    return probs, text


_cache = {}


def fails(env, pos, s, filled):
    """the set of clauses that fail for s alone at pos (empty set: none)"""
    key = (env, pos, s, filled)
    if key not in _cache:
        try:
            _cache[key] = frozenset(p[0] for p in roundtrip(env, parts_for(pos, s, filled))[0])
        except Exception:  # noqa
            _cache[key] = frozenset(['component_recovered'])
    return _cache[key]


def ctx_name(pos, filled):
    return '%s, other components %s: any text' % (KIND[pos], 'present' if filled else 'empty')


def wclasses(env, pos, s, syms, filled, clause):
    """the classes of witness a failing case belongs to (stable, independent of enumeration order)"""
    c = parts_for(pos, s, filled)
    if not c['username'] and c['password'] and clause in fails(env, 'password', 'zz', False):
        return ['password with an empty username']
    if clause in fails(env, pos, 'zz', filled):
        return [ctx_name(pos, filled)]
    cul = sorted(set(c for c in syms if clause in fails(env, pos, c, filled)))
    if cul:
        return ['%s containing %r' % (KIND[pos], c) for c in cul]
    return ['%s: %s' % (KIND[pos], 'empty string' if not s else 'multi-character interaction')]


def rt_snippet(env, c):
    if env[1] == 'ipv6':
        mk = ('u = URL("%s://[%s]"); u.port, u.username, u.password, u.path_parts, u.fragment = %r, %r, %r, %r, %r\nfor k, w in %r:\n    u.query_params.add(k, w)\n'
              % (env[0], HOSTS[env[1]], env[2], c['username'], c['password'], ('',) + tuple(c['segs']), c['fragment'], c['query']))
    else:
        mk = ('u = URL.from_parts(scheme=%r, host=%r, port=%r, username=%r, password=%r, path_parts=%r, query_params=%r, fragment=%r)\n'
              % (env[0], HOSTS[env[1]], env[2], c['username'], c['password'], ('',) + tuple(c['segs']), c['query'], c['fragment']))
    return HDR + (mk +
                  'v = URL(u.to_text(full_quote=True))\n'
                  'got = (v.username or "", v.password or "", list(v.path_parts), [(k, w or "") for k, w in v.query_params.items(multi=True)], v.fragment)\n'
                  'assert got == %r, (u.to_text(full_quote=True), got)\n'
                  % (tuple(expected(env, c)[k] for k in ('username', 'password', 'segs', 'query', 'fragment')),))


def check_roundtrip(H, env, pos, s, syms, filled):
    c = parts_for(pos, s, filled)
    wit = dict(scheme=env[0], host=HOSTS[env[1]], port=env[2], position=pos, text=s, other_components='present' if filled else 'empty')
    try:
        probs, text = roundtrip(env, c)
    except Exception as e:  # noqa
        probs = [('component_recovered', 'raised %s: %s' % (type(e).__name__, e))]
    _cache[(env, pos, s, filled)] = frozenset(p[0] for p in probs)
    for clause in sorted(set(p[0] for p in probs)):
        detail = '; '.join(p[1] for p in probs if p[0] == clause)
        for wc in wclasses(env, pos, s, syms, filled, clause):
            H.fail(clause, 'URL.to_text(full_quote=True) -> URL()', wc, wit, detail, rt_snippet(env, c))


# ---- well-formed texts for the fixed-point clauses --------------------------------------------------
TOK = ['a', '%41', '%2F', '%3F', '%23', '%25', '%C3%A9', '%e2%82%ac', '%0A', '%20', '%00', '%3B', '%26', '%3D', '%2B', '%3A', '%40',
       '%5B', ';', '=', '+', '&', ':', '@', '!', "'", '(', '*', ',', '$', '.', '~', '-']
PCH = [t for t in TOK]                                   # all are pchar tokens
QCH = TOK + ['/', '?']


def skeleton_texts():
    schemes = ['http:', 'x:', 'mailto:', 'git+ssh:', 'HTTP:', '']
    auths = [None, '//', '//h', '//u@h', '//u:p@h:81', '//h:', '//h:80', '//[::1]', '//[::1]:81', '//1.2.3.4',
             '//xn--bcher-kva.de', '//u%40:p%3A@h', '//:p@h', '//@h', '//a%20b', '//H.Example']
    paths = ['', '/', '/a', 'a', '/a/', 'a/b', '/./a/../b', '/a//b', '.', '..', './a:b', '//a', '///a/b', '//']
    for s, a, p, q, f in itertools.product(schemes, auths, paths, (None, '', 'k=v', 'a&b;c=&=d'), (None, '', 'f')):
        if a is not None and p and not p.startswith('/'):
            continue                                      # path-abempty under an authority
        if a is None and p.startswith('//'):
            continue
        if not s and a is None and ':' in p.split('/')[0]:
            continue                                      # path-noscheme
        yield s + (a or '') + p + ('?' + q if q is not None else '') + ('#' + f if f is not None else '')


def content_texts(maxlen):
    for pre, post, toks, pos in (('http://h/', '/z?k=v#f', PCH, 'segment'), ('', '/z', [t for t in PCH if t not in (':',)], 'segment'),
                                 ('x:', '', PCH, 'segment'), ('http://h/p?', '#f', QCH, 'key'), ('http://h/p?k=', '&z=1', QCH, 'value'),
                                 ('?', '', QCH, 'key'), ('http://h/p#', '', QCH, 'fragment'), ('#', '', QCH, 'fragment'),
                                 ('http://', '@h/', [t for t in PCH if t not in ('@', ':')], 'username'),
                                 ('http://u:', '@h/', [t for t in PCH if t != '@'], 'password')):
        for body, tup in strings(maxlen, toks):
            yield pre + body + post, pos, tup, (pre, post)


def fixed_point(text, full):
    """-> (ok, t1, t2, has_percent)"""
    u1 = URL(text)
    t1 = u1.to_text(full_quote=full)
    t2 = URL(t1).to_text(full_quote=full)
    o = observe(u1)
    pct = any('%' in str(x) for x in [o['username'], o['password'], o['fragment'], o['host']] + o['segs'] + [z for kv in o['query'] for z in kv])
    return t1 == t2, t1, t2, pct


def _empty_auth_dslash(text):
    try:
        sc, au, pa = R.parse(text)[:3]
    except Exception:  # noqa
        return False
    return au == '' and pa.startswith('//')


def check_fixed(H, text, pos=None, tup=(), frame=None):
    for full in (True, False):
        clause = 'full_quote_fixed_point' if full else 'minimal_quote_fixed_point'
        try:
            ok, t1, t2, pct = fixed_point(text, full)
        except Exception as e:  # noqa
            wc, t1 = 'raises on a well-formed text', None
            try:
                t1 = URL(text).to_text(full_quote=full)
                if R.parse(text)[1] is None and R.parse(t1)[1]:
                    wc = 'netloc scheme, no authority, rootless path starting with "." or "..": the segment is rendered as a host'
            except Exception:  # noqa
                pass
            H.fail(clause, 'URL() -> to_text -> URL() -> to_text', wc, text, 'first rendering %r, then %s: %s' % (t1, type(e).__name__, e),
                   HDR + 't1 = URL(%r).to_text(full_quote=%r)\nassert URL(t1).to_text(full_quote=%r) == t1, t1\n' % (text, full, full))
            continue
        if ok or (pct and not full):
            continue
        detail = 'render(parse(x)) = %r, parsed and rendered again = %r' % (t1, t2)
        snip = HDR + 't1 = URL(%r).to_text(full_quote=%r)\nt2 = URL(t1).to_text(full_quote=%r)\nassert t1 == t2, (t1, t2)\n' % (text, full, full)
        cul = []
        if frame:                                         # which single token fails on its own in this frame and mode?
            for tok in sorted(set(tup)):
                try:
                    if not fixed_point(frame[0] + tok + frame[1], full)[0]:
                        cul.append(unquote(tok))
                except Exception:  # noqa
                    cul.append(unquote(tok))
        try:
            blank_pair = ('', '') in observe(URL(text))['query']
        except Exception:  # noqa
            blank_pair = False
        if cul:
            for c in cul:                                 # same triple as the round-trip failure of that character, if any
                in_full = 'component_recovered' in fails(('http', 'name', None), pos, c, True)
                H.fail('component_recovered' if in_full else clause, 'URL.to_text(full_quote=True) -> URL()' if in_full else
                       'URL.to_text(full_quote=False) -> URL()', '%s containing %r' % (KIND[pos], c), text, detail, snip)
        else:
            H.fail(clause if not blank_pair else 'full_quote_fixed_point', 'URL() -> to_text -> URL() -> to_text',
                   'query containing a pair with empty key and blank value ("=") next to other pairs' if blank_pair else
                   'well-formed text, no single culprit token' if frame else
                   'empty authority followed by a path that starts with "//"' if _empty_auth_dslash(text) else 'URL structure (skeleton)',
                   text, detail, snip)


# ---- totality -----------------------------------------------------------------------------------------
TSYMS = list(':/?#[]@%;&=+') + [' ', '\x00', '\n', 'a', '1', '.', '-', '\u00e9', '\ud800']
LABELS = ['xn--a', 'xn--', 'xn---', 'xn--a.com', 'XN--A', 'xn--\u00e9', 'xn--bcher-kva', 'xn--0', 'a.xn--a', 'xn--a-', 'xn--zz--',
          'a' * 64, 'a..b', '.', '..', 'a.', '.a', '1.2.3', '1.2.3.4.5', '::1', '[', ']', '[]', '[::1', '::1]', '[::zz]', '[1.2.3.4]',
          '[v1.a]', 'h:', 'h:x', 'h:' + '9' * 5000, 'h:-1', 'h:\u0661', 'u:p:q@h', '@', ':@:', 'u@[::1]:x', '\u212a.com', '\u00df.de',
          'a\u200db', '%00', '%', '%zz', '\x00', 'a\x00', '[:\x00]', '\ufffd', '\U0001F600.com']


def exc_class(e):
    msg = str(e)
    if isinstance(e, UnicodeError):
        return 'host text rejected by the idna codec (UnicodeError)'
    if isinstance(e, ValueError) and 'null' in msg:
        return 'NUL character in the host (ValueError from inet_pton)'
    return 'other: ' + type(e).__name__


def check_url_total(H, text):
    try:
        URL(text)
    except URLParseError:
        pass
    except Exception as e:  # noqa
        H.fail('totality', 'URL', exc_class(e), text, 'URL(%r) raised %s: %s' % (text, type(e).__name__, e),
               HDR + 'try:\n    URL(%r)\nexcept URLParseError:\n    pass\n' % text)


def check_fal_total(H, text, kw):
    try:
        res = find_all_links(text, **kw)
        assert isinstance(res, list)
    except Exception as e:  # noqa
        site = 'find_all_links'
        subs = set(text[i:j] for i in range(len(text)) for j in range(i + 1, len(text) + 1)) if len(text) < 80 else set(text.split())
        for tok in subs:                                  # the same escape from URL() on a matched piece? then the same triple
            for cand in (tok, 'https://' + tok):
                try:
                    URL(cand)
                except URLParseError:
                    pass
                except Exception as e2:  # noqa
                    if type(e2) is type(e):
                        site = 'URL'
        H.fail('totality', site, exc_class(e), dict(text=text, **kw), 'find_all_links raised %s: %s' % (type(e).__name__, e),
               HDR + 'find_all_links(%r, **%r)\n' % (text, kw))


def run():
    H = Harness('C06',
                rule='one case = one contract evaluation on one input (string x quote function; (scheme, host, port, position, '
                     'string, context); URL text; arbitrary text); non-trivial = the string/text contains a character outside '
                     'RFC 3986 unreserved (a delimiter, %, control, space or non-ASCII) or is empty',
                bounds=dict(quick='quote/unquote: all strings <= 2 symbols over 36 significant symbols x 4 quote functions, all code points '
                                  '< 0x300 singly; unquote: all strings <= 5 over 12 symbols; round trip: 6 positions x 2 contexts x strings '
                                  '<= 1 in all 40 (scheme, host form, port) environments and <= 2 in 6 environments, + all symbol pairs in all '
                                  'positions at once; fixed points: 8k skeleton texts + 10 frames x token strings <= 2 over 33 tokens; '
                                  'totality: 7 prefixes x all strings <= 3 over 21 symbols + 50 host labels, find_all_links on 4 framings',
                            thorough='strings <= 3 (quote, round trip in 4 environments, fixed-point frames), unquote <= 6, totality <= 4'))
    big = H.thorough
    triv = re.compile('[%s]+' % UNRES)

    # 1. per-function quoting: legality, unquote inverse
    singles = [chr(i) for i in range(0x300)]
    for kind, fname in QUOTERS.items():
        fn = getattr(U, fname, None)
        if fn is None:
            H.fail('quote_output_legal', fname, 'function missing', fname, 'boltons.urlutils has no %s' % fname)
            continue
        gen = itertools.chain(((s, (s,)) for s in singles), strings(3 if big else 2))
        for s, tup in gen:
            H.ev(key=(kind, s), nontrivial=not triv.fullmatch(s), sample=dict(fn=fname, s=s), part='quote')
            ok, q = H.guard(lambda: fn(s, full_quote=True), 'quote_output_legal', fname, 'raises', s)
            if not ok:
                continue
            for c in bad_chars(kind, q):
                H.fail('quote_output_legal', fname, 'raw %r in the output' % c, s, '%s(%r, full_quote=True) -> %r' % (fname, s, q),
                       HDR + 'assert %r not in %s(%r, full_quote=True)\n' % (c, fname, s))
            ok, back = H.guard(lambda: unquote(q), 'unquote_undoes_quote', 'unquote', 'raises', q)
            if ok and back != NFC(s):
                cul = [c for c in sorted(set(tup)) if unquote(fn(c, full_quote=True)) != NFC(c)]
                H.fail('unquote_undoes_quote', fname, 'string containing %r' % cul[0] if cul else 'multi-character string', s,
                       'quoted %r, unquoted %r, want %r' % (q, back, NFC(s)),
                       HDR + 'from unicodedata import normalize\nassert unquote(%s(%r, full_quote=True)) == normalize("NFC", %r)\n' % (fname, s, s))

    # 2. unquote against the reference decoder
    for t, tup in strings(6 if big else 5, ['%', '4', '1', 'C', '3', 'A', '9', 'g', 'e', 'f', '\u00e9', ' ']):
        want, valid = ref_unquote(t)
        H.ev(key=('unq', t), nontrivial='%' in t, sample=dict(unquote=t), part='unquote')
        ok, got = H.guard(lambda: unquote(t), 'unquote_decodes_escapes', 'unquote', 'raises', t)
        if ok and (got != want if valid else not isinstance(got, str)):
            H.fail('unquote_decodes_escapes', 'unquote', 'well-formed escapes of valid UTF-8 mixed with other text' if valid else 'non-str result',
                   t, 'unquote -> %r, reference -> %r' % (got, want), HDR + 'assert unquote(%r) == %r, unquote(%r)\n' % (t, want, t))
        if H.out_of_time(0.25):
            H.note_truncated('unquote enumeration stopped by time budget')
            break

    # 3. component round trip
    envs = []
    for scheme, hk, port in itertools.product(('http', 'mailto', 'x', 'git+ssh'), HOSTS, (None, 'default', 8080)):
        dp = default_port(scheme)
        if port == 'default':
            if dp is None:
                continue
            port = dp
        envs.append((scheme, hk, port))
    few = [('http', 'name', None), ('http', 'ipv6', 8080), ('mailto', 'idn', None), ('x', 'ipv4', 8080),
           ('git+ssh', 'name', 22), ('git+ssh', 'ipv6', None)]
    assert all(e in envs for e in few)
    H.parts['environments'] = len(envs)
    plan = [(1, envs), (2, few)] + ([(3, few[:4])] if big else [])
    done = set()
    for maxlen, es in plan:
        for s, tup in strings(maxlen):
            for env in es:
                if (s, env) in done:
                    continue
                done.add((s, env))
                for pos in POSITIONS:
                    for filled in (True, False):
                        H.ev(key=(env, pos, s, filled), nontrivial=not triv.fullmatch(s),
                             sample=dict(env=env, position=pos, s=s, filled=filled), part='roundtrip')
                        check_roundtrip(H, env, pos, s, tup, filled)
            if H.out_of_time(0.6):
                H.note_truncated('round trip: strings of length %d stopped by time budget' % maxlen)
                break
    # empty path segments (leading, interior, trailing, several in a row) are segments like any other: recovered exactly
    for segs in (['', 'a'], ['', '', 'a'], ['a', '', 'b'], ['a', '', ''], ['', ''], ['', 'a', ''], ['', '', '', 'a', 'b']):
        c = dict(username='u', password='pw', segs=list(segs), query=[('k', 'v')], fragment='f')
        for env in few:
            H.ev(key=('empty-segs', env, tuple(segs)), nontrivial=True, sample=dict(env=env, segments=segs), part='roundtrip_empty_segments')
            try:
                probs, text = roundtrip(env, c)
            except Exception as e:  # noqa
                probs, text = [('component_recovered', 'raises %s: %s' % (type(e).__name__, e))], None
            for clause, what in probs:
                H.fail(clause, 'URL.to_text(full_quote=True) -> URL()', 'path with empty segments', dict(env=env, segments=segs), what,
                       rt_snippet(env, c))

    for a, b in itertools.product(SYMS, repeat=2):        # every position filled with special text at once
        c = dict(username=a + b, password=b + a, segs=[a, b, a + b], query=[(a, b)] + ([(b, a)] if a != b else []) + [(a + b, b + a)],
                 fragment=b + a)
        for env in few:
            H.ev(key=('all', env, a, b), sample=dict(env=env, all_positions=[a, b]), part='roundtrip_all_positions')
            try:
                probs = roundtrip(env, c)[0]
            except Exception as e:  # noqa
                probs = [('component_recovered', 'raised %r' % e)]
            for clause in sorted(set(p[0] for p in probs)):
                single = [(p, x) for p in POSITIONS for x in (a, b) if clause in fails(env, p, x, True) and clause not in fails(env, p, 'zz', True)]
                wcs = sorted(set('%s containing %r' % (KIND[p], x) for p, x in single)) or ['special characters in all components at once']
                for wc in wcs:
                    H.fail(clause, 'URL.to_text(full_quote=True) -> URL()', wc, dict(env=env, components=c),
                           '; '.join(p[1] for p in probs if p[0] == clause), rt_snippet(env, c))

    # 4. fixed points on well-formed texts
    for text in skeleton_texts():
        H.ev(key=('fp', text), sample=dict(url=text), part='fixed_point_skeletons')
        check_fixed(H, text)
    for text, pos, tup, frame in content_texts(3 if big else 2):
        H.ev(key=('fp', text), nontrivial=bool(tup), sample=dict(url=text), part='fixed_point_contents')
        check_fixed(H, text, pos, tup, frame)
        if H.out_of_time(0.8):
            H.note_truncated('fixed point: content texts stopped by time budget')
            break

    # 4b. long queries: the number of pairs must not matter (no pair limit, no merged tail)
    for n_pairs in (1, 64, 255, 256, 257, 258, 300, 1000, 5000):
        for sep_text in ('k%d=v%d', 'k%d=a%%26b%d', 'k%d'):
            q = '&'.join((sep_text % ((i, i) if sep_text.count('%d') == 2 else (i,))) for i in range(n_pairs))
            text = 'http://h/p?' + q
            H.ev(key=('fp-long', n_pairs, sep_text), nontrivial=n_pairs > 1, sample=dict(url='%s... (%d pairs)' % (text[:40], n_pairs)),
                 part='fixed_point_long_queries')
            try:
                u = URL(text)
                got = len(list(u.query_params.iteritems(multi=True)))
                t1 = u.to_text(full_quote=True)
                ok = got == n_pairs and URL(t1).to_text(full_quote=True) == t1 and \
                    all(k == 'k%d' % i for i, (k, v) in enumerate(u.query_params.iteritems(multi=True)))
                detail = '%d pairs parsed, fixed point %r' % (got, URL(t1).to_text(full_quote=True) == t1)
            except Exception as e:  # noqa
                ok, detail = False, 'raises %s: %s' % (type(e).__name__, e)
            if not ok:
                H.fail('full_quote_fixed_point', 'URL() -> to_text -> URL() -> to_text', 'query with hundreds of pairs',
                       '%s... (%d pairs of the form %s)' % (text[:40], n_pairs, sep_text), detail,
                       HDR + 'q = "&".join("k%%d=v%%d" %% (i, i) for i in range(%d))\nu = URL("http://h/p?" + q)\n'
                             'assert len(list(u.query_params.iteritems(multi=True))) == %d\n' % (n_pairs, n_pairs))

    # 5. totality
    prefixes = ('', '//', 'http://', 'http://[', 'http://u@', 'http://xn--', 'x:')
    texts = [p + s for s, _ in strings(4 if big else 3, TSYMS) for p in prefixes]
    texts += [p + lab + q for lab in LABELS for p in ('http://', '//', 'x://u@', '') for q in ('', '/p?q#f', ':80')]
    for text in texts:
        H.ev(key=('tot', text), sample=dict(URL=text), part='totality_URL')
        check_url_total(H, text)
        if H.out_of_time(0.9):
            H.note_truncated('totality: URL() texts stopped by time budget')
            break
    bodies = [s for s, _ in strings(3 if big else 2, TSYMS)] + LABELS
    for body in bodies:
        for frame in ('see http://%s now', 'www.%s', '(x:/%s) http://a.b:%s', '%s'):
            text = frame.replace('%s', body)
            for kw in (dict(), dict(with_text=True, default_scheme=False), dict(schemes=('http',))):
                H.ev(key=('fal', text, tuple(kw)), sample=dict(find_all_links=text), part='totality_find_all_links')
                check_fal_total(H, text, kw)
        if H.out_of_time(0.97):
            H.note_truncated('totality: find_all_links stopped by time budget')
            break
    H.finish()


main_wrapper(run)
