"""C09 bounded stand-in: chunking / windowing / splitting / stripping / grouping helpers of boltons.iterutils
against reference models written from the statement (refmodels/iterutils_ref.py; str.split / str.strip for
split and strip).

Inputs: every sequence up to the length bound over a 3-symbol alphabet {x, y, SEP}, presented as list, tuple,
one-shot iterator (SEP = None), list / iterator (SEP = 0), str ('x','y',',') and bytes.  For every helper the
*_iter form is evaluated against the reference; the list-returning form must then yield the same items.
Results are compared element-wise (list(chunk) / list(window) / list(group)): the statement does not fix the
container type of a chunk.
"""
import itertools
import os
import sys

sys.path.insert(0, os.path.dirname(os.path.dirname(os.path.abspath(__file__))))
from bounded.harness import Harness, main_wrapper  # noqa: E402
from refmodels.iterutils_ref import (UNSET, ref_chunked, ref_windowed, ref_split_strings, ref_strip,  # noqa: E402
                                     ref_key, ref_unique, ref_dup_keys, ref_buckets, chunk_ranges_violations)

from boltons import iterutils as iu  # noqa: E402

HDR = 'import sys\nfrom boltons.iterutils import *\n'

# kind -> (alphabet, constructor, source text of the constructor applied to a list literal, fill value)
KINDS = {
    'list/None': (('x', 'y', None), list, '%r', None),
    'tuple/None': (('x', 'y', None), tuple, 'tuple(%r)', None),
    'iter/None': (('x', 'y', None), iter, 'iter(%r)', None),
    'list/0': (('x', 'y', 0), list, '%r', None),
    'iter/0': (('x', 'y', 0), iter, 'iter(%r)', None),
    'str': (('x', 'y', ','), ''.join, '"".join(%r)', 'z'),
    'bytes': ((120, 121, 44), bytes, 'bytes(%r)', 122),
}
FUNCS = {   # callables used as parameters, with their source text for replay snippets
    'is_none': (lambda e: e is None, 'lambda e: e is None'),
    'is_sep': (lambda e: e in (None, 0, ',', 44), 'lambda e: e in (None, 0, ",", 44)'),
    'is_x': (lambda e: e in ('x', 120, 1), 'lambda e: e in ("x", 120, 1)'),
    'repr': (repr, 'repr'),
}


def in_class(kind):
    return {'str': 'str input', 'bytes': 'bytes input'}.get(kind) or (
        'one-shot iterator input' if kind.startswith('iter') else 'list/tuple input')


def safe(fn):
    try:
        return True, fn()
    except Exception as e:  # noqa
        return False, e


def norm(out):
    """list of element lists; anything that is not an iterable of iterables is left for the comparison to reject"""
    try:
        return [list(c) for c in out]
    except TypeError:
        return out


class Case:
    """one (kind, index sequence): builds fresh sources and replay text"""
    def __init__(self, kind, idx):
        self.kind, self.idx = kind, idx
        self.A, self.ctor, self.ctor_src, self.fillv = KINDS[kind]
        self.elems = [self.A[i] for i in idx]

    def mk(self):
        return self.ctor(list(self.elems))

    def src(self):
        return self.ctor_src % (self.elems,)


def two_forms(H, clause, f_iter, f_list, case, args_src, call_iter, call_list, expected, wclass, params, normf=norm,
              diagnose=None):
    """evaluate the *_iter form against `expected`, then the list form against the *_iter form"""
    key = (f_iter, case.kind, case.idx, args_src)
    wit = dict(func=f_iter, src=case.src(), args=args_src)
    H.ev(key=key, nontrivial=len(case.idx) >= 2, part=f_iter.replace('_iter', ''),
         sample=wit if len(case.idx) >= 2 else None)
    ok, out = safe(lambda: list(call_iter(case.mk())))
    got = normf(out) if ok else out
    if not ok or got != expected:
        wc = diagnose(out if ok else None, got, expected) if diagnose else wclass
        snip = HDR + 'out = list(%s(%s%s))\nassert %s == %r, out\n' % (
            f_iter, case.src(), args_src, params.get('norm_src', '[list(c) for c in out]'), expected)
        H.fail(clause, f_iter, wc, wit, ('raised %r' % (out,)) if not ok else 'got %r, reference %r' % (got, expected),
               snip)
        return
    if f_list is None:
        return
    ok2, out2 = safe(lambda: call_list(case.mk()))
    if not ok2 or not isinstance(out2, list) or normf(out2) != got:
        H.fail('iter_form_equals_list_form', f_list, wclass, dict(func=f_list, src=case.src(), args=args_src),
               'list form %r, iter form %r' % (out2, got),
               HDR + 'a = %s(%s%s)\nb = list(%s(%s%s))\nassert a == b, (a, b)\n' % (
                   f_list, case.src(), args_src, f_iter, case.src(), args_src))


# ------------------------------------------------------------------------------------------------
def check_chunked(H, case, sizes, counts):
    wc0 = in_class(case.kind)
    for size in sizes:
        for fill in (UNSET, case.fillv):
            kw = {} if fill is UNSET else {'fill': fill}
            kws = '' if fill is UNSET else ', fill=%r' % (fill,)
            wc = wc0 + (', fill given' if kw else '')
            exp = ref_chunked(case.elems, size, fill)
            two_forms(H, 'chunked_concat_and_sizes', 'chunked_iter', 'chunked', case, ', %d%s' % (size, kws),
                      lambda s: iu.chunked_iter(s, size, **kw), lambda s: iu.chunked(s, size, **kw), exp, wc, {})
            for count in counts:
                H.ev(key=('chunked/count', case.kind, case.idx, size, count, bool(kw)), nontrivial=len(case.idx) >= 2,
                     part='chunked')
                ok, out = safe(lambda: iu.chunked(case.mk(), size, count, **kw))
                expc = ref_chunked(case.elems, size, fill, count)
                if not ok or norm(out) != expc:
                    H.fail('chunked_concat_and_sizes', 'chunked', wc + ', count given',
                           dict(src=case.src(), size=size, count=count, fill=kws), 'got %r, reference %r' % (out, expc),
                           HDR + 'out = chunked(%s, %d, %d%s)\nassert [list(c) for c in out] == %r, out\n' % (
                               case.src(), size, count, kws, expc))


def check_windowed(H, case, sizes):
    wc0 = in_class(case.kind)
    for size in sizes:
        for fill in (UNSET, None, 'F'):
            kw = {} if fill is UNSET else {'fill': fill}
            kws = '' if fill is UNSET else ', fill=%r' % (fill,)
            wc = wc0 + (', fill given' if kw else '')
            exp = ref_windowed(case.elems, size, fill)
            two_forms(H, 'windowed_contiguous_slices', 'windowed_iter', 'windowed', case, ', %d%s' % (size, kws),
                      lambda s: iu.windowed_iter(s, size, **kw), lambda s: iu.windowed(s, size, **kw), exp, wc, {})
    for end in (UNSET, None, 'F'):
        kw = {} if end is UNSET else {'end': end}
        kws = '' if end is UNSET else ', end=%r' % (end,)
        two_forms(H, 'windowed_contiguous_slices', 'pairwise_iter', 'pairwise', case, kws,
                  lambda s: iu.pairwise_iter(s, **kw), lambda s: iu.pairwise(s, **kw),
                  ref_windowed(case.elems, 2, end), in_class(case.kind) + (', fill given' if kw else ''), {})


def sep_modes(case):
    """(label, sep value or UNSET, source text, indices of the alphabet that are separators, groups?)"""
    A = case.A
    S = A[2]
    if isinstance(S, int):
        S = float(S)     # equal to the separator element but not the same object/type: matching is by ==
    none_idx = frozenset(i for i, a in enumerate(A) if a is None)
    modes = [('sep omitted (None)', UNSET, '', none_idx, True),
             ('sep=None', None, ', None', none_idx, True),
             ('sep=value', S, ', %r' % (S,), frozenset([2]), False),
             ('sep=[value]', [S], ', [%r]' % (S,), frozenset([2]), False),
             ('sep={value, y}', {S, A[1]}, ', {%r, %r}' % (S, A[1]), frozenset([1, 2]), False),
             ('sep=callable', FUNCS['is_sep'][0], ', ' + FUNCS['is_sep'][1], frozenset([2]), False)]
    return [m for m in modes if not (m[0] == 'sep=value' and S is None)]


def check_split(H, case, maxsplits):
    A = case.A
    chars = {}
    for i, a in enumerate(A):
        chars[a] = i

    for label, sep, sep_src, sepidx, grouping in sep_modes(case):
        sc = ' ' if grouping else ','

        def to_strings(out):
            res = []
            for g in out:
                try:
                    res.append(''.join((sc if chars[e] in sepidx else 'xyz'[chars[e]])
                                       if isinstance(e, (str, int, type(None))) and e in chars else '?' for e in g))
                except TypeError:
                    res.append('?')
            return res
        for ms in maxsplits:
            s, exp = ref_split_strings(case.idx, sepidx, grouping, ms)
            if sep is UNSET and ms is None:
                args, args_src = (), ''
            else:
                args = ((None if sep is UNSET else sep),) + (() if ms is None else (ms,))
                args_src = (sep_src or ', None') + ('' if ms is None else ', %d' % ms)
            src_holder = []

            def mk_and_keep(f):
                def call(sr):
                    src_holder[:] = [sr]
                    return f(sr, *args)
                return call

            def diagnose(out, got, expected):
                if ms == 0 and out is not None and len(out) == 1 and isinstance(out[0], list) and len(out[0]) == 1 \
                        and src_holder and out[0][0] is src_holder[0]:
                    return 'maxsplit=0'
                if grouping and ms is not None and out is not None and got and '?' not in ''.join(got):
                    if (got[:-1] == expected[:-1] and len(got) == len(expected) and got[-1].lstrip(sc) == expected[-1]
                            and got[-1] != expected[-1]) or (got[:-1] == expected and got[-1].strip(sc) == ''):
                        return 'sep=None with maxsplit: separators lead the remainder'
                return 'other input (%s, maxsplit %s)' % (label, 'given' if ms is not None else 'omitted')
            norm_src = ('["".join((%r if e in %r else "xyz"[%r.index(e)]) for e in g) for g in out]'
                        % (sc, [A[i] for i in sorted(sepidx)], list(A)))
            two_forms(H, 'split_matches_str_split', 'split_iter', 'split', case, args_src,
                      mk_and_keep(iu.split_iter), lambda sr: iu.split(sr, *args), exp, label,
                      dict(norm_src=norm_src), normf=to_strings, diagnose=diagnose)


def check_strip(H, case):
    A = case.A
    S = float(A[2]) if isinstance(A[2], int) else A[2]    # matching is by ==, not identity
    variants = [(S, ', %r' % (S,))] + ([(UNSET, '')] if S is None else [])
    for which in ('strip', 'lstrip', 'rstrip'):
        exp = [[A[i]] for i in ref_strip(case.idx, 2, which)]
        for sv, sv_src in variants:
            args = () if sv is UNSET else (sv,)
            fi, fl = getattr(iu, which + '_iter'), getattr(iu, which)
            two_forms(H, 'strip_matches_str_strip', which + '_iter', which, case, sv_src,
                      lambda s: fi(s, *args), lambda s: fl(s, *args), exp, in_class(case.kind),
                      dict(norm_src='[[e] for e in out]'), normf=lambda out: [[e] for e in out])


# ------------------------------------------------------------------------------------------------
GROUP_ALPHABETS = {'x/y/None': ('x', 'y', None), '1/1.0/2': (1, 1.0, 2), 'chars': ('x', 'y', ',')}


def same_items(a, b):
    """equal lists, element by element including the element types (1 and 1.0 are different elements)"""
    return len(a) == len(b) and all(type(x) is type(y) and x == y for x, y in zip(a, b))


def check_grouping(H, aname, idx, ctor_name):
    A = GROUP_ALPHABETS[aname]
    elems = [A[i] for i in idx]
    ctor, ctor_src = {'list': (list, '%r'), 'tuple': (tuple, 'tuple(%r)'), 'iter': (iter, 'iter(%r)'),
                      'str': (''.join, '"".join(%r)')}[ctor_name]
    mk = lambda: ctor(list(elems))  # noqa: E731
    src = ctor_src % (elems,)
    wc = in_class(ctor_name if ctor_name != 'iter' else 'iter/')
    keys = [('key omitted', None, ''), ('key=callable', FUNCS['repr'][0], ', key=' + FUNCS['repr'][1]),
            ('key=predicate', FUNCS['is_x'][0], ', key=' + FUNCS['is_x'][1])]
    if aname == '1/1.0/2':
        keys.append(('key=attribute name', 'real', ', key="real"'))
    nt = len(idx) >= 2
    for klabel, key, ksrc in keys:
        kf = ref_key(key)
        kw = {} if key is None else {'key': key}
        # unique
        H.ev(key=('unique', aname, idx, ctor_name, klabel), nontrivial=nt, part='unique',
             sample=dict(func='unique_iter', src=src, key=klabel) if nt else None)
        exp = ref_unique(elems, key)
        ok, out = safe(lambda: list(iu.unique_iter(mk(), **kw)))
        if not ok or not same_items(out, exp):
            H.fail('unique_first_occurrences', 'unique_iter', wc + ', ' + klabel, dict(src=src, key=klabel),
                   'got %r, reference %r' % (out, exp),
                   HDR + 'out = list(unique_iter(%s%s))\nassert repr(out) == %r, out\n' % (src, ksrc, repr(exp)))
        else:
            ok2, out2 = safe(lambda: iu.unique(mk(), **kw))
            if not ok2 or not isinstance(out2, list) or not same_items(out2, out):
                H.fail('iter_form_equals_list_form', 'unique', wc, dict(src=src, key=klabel), 'unique %r, unique_iter %r' % (out2, out),
                       HDR + 'assert repr(unique(%s%s)) == repr(list(unique_iter(%s%s)))\n' % (src, ksrc, src, ksrc))
        # redundant
        dups = ref_dup_keys(elems, key)
        H.ev(key=('redundant', aname, idx, ctor_name, klabel), nontrivial=nt, part='redundant')
        ok, out = safe(lambda: iu.redundant(mk(), **kw))
        good = ok and isinstance(out, list) and len(out) == len(dups)
        if good:
            ks = [kf(v) for v in out]
            good = all(any(k == dk for dk, _ in dups) for k in ks) and all(any(k == dk for k in ks) for dk, _ in dups) \
                and all(any(v is e or (type(v) is type(e) and v == e) for e in elems) for v in out)
        if not good:
            H.fail('redundant_reports_repeated_keys', 'redundant', wc + ', ' + klabel, dict(src=src, key=klabel),
                   'got %r, keys seen more than once %r' % (out, [k for k, _ in dups]),
                   HDR + 'out = redundant(%s%s)\nkf = %s\nassert sorted(map(repr, map(kf, out))) == %r, out\n' % (
                       src, ksrc, {'key omitted': 'lambda e: e', 'key=attribute name': 'lambda e: e.real'}.get(klabel, ksrc[6:]),
                       sorted(repr(k) for k, _ in dups)))
        ok, out = safe(lambda: iu.redundant(mk(), groups=True, **kw))
        H.ev(key=('redundant/groups', aname, idx, ctor_name, klabel), nontrivial=nt, part='redundant')
        good = ok and isinstance(out, list) and len(out) == len(dups)
        if good:
            for g in out:
                m = [dg for dk, dg in dups if g and dk == kf(g[0])]
                good = good and len(m) == 1 and same_items(list(g), m[0])
        if not good:
            H.fail('redundant_reports_repeated_keys', 'redundant', wc + ', ' + klabel + ', groups=True', dict(src=src, key=klabel),
                   'got %r, reference groups %r' % (out, [g for _, g in dups]),
                   HDR + 'out = redundant(%s%s, groups=True)\nassert sorted(map(repr, out)) == %r, out\n' % (
                       src, ksrc, sorted(repr(g) for _, g in dups)))
        # bucketize (key omitted = bool)
        bkey = bool if key is None else kf
        check_buckets(H, 'bucketize', lambda: iu.bucketize(mk(), **kw), elems, [bkey(e) for e in elems], elems,
                      wc + ', ' + klabel, src, 'bucketize(%s%s)' % (src, ksrc), (aname, idx, ctor_name, klabel), nt)
    # bucketize: key list, value_transform, key_filter
    if ctor_name != 'iter':
        klist = [i % 2 for i in range(len(elems))]
        check_buckets(H, 'bucketize', lambda: iu.bucketize(mk(), key=list(klist)), elems, klist, elems,
                      wc + ', key=list', src, 'bucketize(%s, key=%r)' % (src, klist), (aname, idx, ctor_name, 'klist'), nt)
    vt = lambda v: (v,)  # noqa: E731
    check_buckets(H, 'bucketize', lambda: iu.bucketize(mk(), key=repr, value_transform=vt), elems,
                  [repr(e) for e in elems], [vt(e) for e in elems], wc + ', value_transform', src,
                  'bucketize(%s, key=repr, value_transform=lambda v: (v,))' % src, (aname, idx, ctor_name, 'vt'), nt)
    keep = [(e, repr(e)) for e in elems if repr(e) != repr(A[0])]
    check_buckets(H, 'bucketize', lambda: iu.bucketize(mk(), key=repr, key_filter=lambda k: k != repr(A[0])),
                  [e for e, _ in keep], [k for _, k in keep], [e for e, _ in keep], wc + ', key_filter', src,
                  'bucketize(%s, key=repr, key_filter=lambda k: k != %r)' % (src, repr(A[0])),
                  (aname, idx, ctor_name, 'kfilter'), nt)
    # partition
    for klabel, key, ksrc in [keys[0], keys[2]]:
        pk = bool if key is None else key
        kw = {} if key is None else {'key': key}
        H.ev(key=('partition', aname, idx, ctor_name, klabel), nontrivial=nt, part='partition')
        ok, out = safe(lambda: iu.partition(mk(), **kw))
        exp = ([e for e in elems if pk(e)], [e for e in elems if not pk(e)])
        if not ok or len(out) != 2 or not same_items(list(out[0]), exp[0]) or not same_items(list(out[1]), exp[1]):
            H.fail('bucketize_partition_every_element_once_in_order', 'partition', wc + ', ' + klabel, dict(src=src, key=klabel),
                   'got %r, reference %r' % (out, exp),
                   HDR + 'out = partition(%s%s)\nassert repr((list(out[0]), list(out[1]))) == %r, out\n' % (src, ksrc, repr(exp)))


def check_buckets(H, site, call, elems, keys, values, wclass, src, call_src, evkey, nt):
    H.ev(key=(site,) + evkey, nontrivial=nt, part='bucketize')
    ok, out = safe(call)
    exp = ref_buckets(values, keys)
    good = ok and isinstance(out, dict) and len(out) == len(exp)
    if good:
        for k, b in exp:
            good = good and k in out and same_items(list(out[k]), b)
    if not good:
        H.fail('bucketize_partition_every_element_once_in_order', site, wclass, dict(src=src, call=call_src),
               'got %r, reference %r' % (out, exp),
               HDR + 'out = %s\nassert sorted((repr(k), repr(list(v))) for k, v in out.items()) == %r, out\n' % (
                   call_src, sorted((repr(k), repr(b)) for k, b in exp)))


def check_chunk_ranges(H, sizes, chunks, offsets):
    for size, chunk, offset in itertools.product(sizes, chunks, offsets):
        for overlap in range(chunk):
            for align in (False, True):
                H.ev(key=('chunk_ranges', size, chunk, offset, overlap, align), nontrivial=size > chunk, part='chunk_ranges',
                     sample=dict(func='chunk_ranges', input_size=size, chunk_size=chunk, input_offset=offset,
                                 overlap_size=overlap, align=align) if size > chunk else None)
                args = 'input_size=%d, chunk_size=%d, input_offset=%d, overlap_size=%d, align=%r' % (size, chunk, offset, overlap, align)
                ok, out = safe(lambda: list(itertools.islice(iu.chunk_ranges(size, chunk, offset, overlap, align), 10 * (size + 2))))
                wc = ('align=True' if align else 'align=False') + (', overlap > 0' if overlap else ', no overlap')
                if not ok or any(not (isinstance(r, tuple) and len(r) == 2) for r in out):
                    H.fail('chunk_ranges_bounds', 'chunk_ranges', wc, args, 'got %r' % (out,))
                    continue
                for clause in chunk_ranges_violations(out, size, chunk, offset, overlap, align):
                    H.fail(clause, 'chunk_ranges', wc, args, 'ranges %r' % (out,),
                           HDR + 'sys.path.insert(0, "/verif")\nfrom refmodels.iterutils_ref import chunk_ranges_violations as V\n'
                           'R = list(chunk_ranges(%s))\nassert %r not in V(R, %d, %d, %d, %d, %r), R\n' % (
                               args, clause, size, chunk, offset, overlap, align))


def run():
    H = Harness('C09',
                rule='one case = one helper call on one (input kind, sequence, parameter tuple); every *_iter form is compared '
                     'with the reference and the list form with the *_iter form; non-trivial = input of length >= 2 '
                     '(chunk_ranges: input_size > chunk_size)',
                bounds=dict(quick='all sequences of length <= 5 over {x, y, SEP} as list/tuple/iterator (SEP None), list/iterator '
                                  '(SEP 0), str, bytes; size 1..7; fill unset/given; count 0..3; sep omitted/None/value/[value]/'
                                  '{value,y}/callable; maxsplit None,0..3; grouping: 3 alphabets x list/tuple/iterator/str x 3-4 key '
                                  'kinds; chunk_ranges input_size 0..12, chunk 1..6, offset 0..7, every overlap < chunk, align both',
                            thorough='same with length <= 7 (grouping <= 8), maxsplit up to 6, count 0..5, chunk_ranges input_size 0..40, '
                                     'chunk 1..9, offset 0..12'))
    T = H.thorough
    L = 7 if T else 5
    sizes = range(1, 8)
    counts = range(0, 6) if T else range(0, 4)
    maxsplits = [None, 0, 1, 2, 3] + ([4, 6] if T else [])
    for n in range(0, L + 1):
        for idx in itertools.product(range(3), repeat=n):
            for kind in KINDS:
                case = Case(kind, idx)
                check_chunked(H, case, sizes, counts)
                check_windowed(H, case, sizes)
                check_split(H, case, maxsplits)
                check_strip(H, case)
        if H.out_of_time(0.6):
            H.note_truncated('sequence enumeration stopped by time budget after length %d' % n)
            break
    for n in range(0, (8 if T else 5) + 1):
        for idx in itertools.product(range(3), repeat=n):
            for aname in GROUP_ALPHABETS:
                for ctor_name in (('list', 'str') if aname == 'chars' else ('list', 'tuple', 'iter')):
                    check_grouping(H, aname, idx, ctor_name)
        if H.out_of_time(0.8):
            H.note_truncated('grouping enumeration stopped by time budget after length %d' % n)
            break
    if T:
        check_chunk_ranges(H, range(0, 41), range(1, 10), range(0, 13))
    else:
        check_chunk_ranges(H, range(0, 13), range(1, 7), range(0, 8))
    H.finish()


main_wrapper(run)
