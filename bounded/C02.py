"""C02 bounded stand-in: LRI/LRU against the reference cache of the property statement.

Contract, evaluated after every step of every history (both classes, max_size 1..3, on_miss None / f / f raising for one key):
  capacity                      len(c) <= max_size
  readers_agree                 len / in / iter / keys / values / items / dict() agree and do not raise
  contents_match_reference      dict(c) and every lookup == reference cache; removed_key_not_returned
  eviction_order                fresh inserts evict the keys in the reference's stamp order
  return_value                  value / exception of every operation == reference
  on_miss_calls                 on_miss called exactly for lookups of absent keys (result cached: contents)
  counters                      (hit, miss, soft_miss) == reference; soft_miss <= miss
  eq_by_contents                ==/!= against dict / LRI with equal or different contents
  ior_equals_update             c |= m  behaves as c.update(m)  (contents, capacity, order) and returns c
  copy_*                        same class/capacity/contents/order, independent, source unchanged
The statement is silent on which key popitem() removes (any present key accepted), on counters of a
copy and on whether copy() carries on_miss (not demanded). Membership/len/iteration/==/pop are not lookups.
"""
import operator
import os
import random
import sys

sys.path.insert(0, os.path.dirname(os.path.dirname(os.path.abspath(__file__))))
from bounded.harness import Harness, main_wrapper  # noqa: E402
from refmodels.refcache import RefCache, probe_order  # noqa: E402

from boltons import cacheutils  # noqa: E402

HDR = ('from boltons.cacheutils import LRI, LRU\ncalls = []\n'
       'def om(k):\n    calls.append(k)\n    if k == RAISE_FOR: raise ValueError(k)\n    return k * 2\n'
       'def t(s):\n    try: exec(s, globals())\n    except (KeyError, ValueError): pass\n')

# update()/|= argument kinds: name -> (positional factory or None, kwargs, source text, description)
UPD = {
    'dict': (lambda: {'a': 1, 'b': 2}, {}, "{'a': 1, 'b': 2}", 'dict'),
    'pairs': (lambda: iter([('c', 1), ('a', 2), ('c', 2)]), {}, "iter([('c', 1), ('a', 2), ('c', 2)])",
              'iterator of pairs with a repeated key'),
    'dict+kw': (lambda: {'b': 1}, {'a': 2}, "{'b': 1}, a=2", 'dict plus keyword arguments'),
    'kw': (None, {'a': 2}, 'a=2', 'keyword arguments only'),
    'dict+kw same key': (lambda: {'a': 1, 'b': 2}, {'a': 3}, "{'a': 1, 'b': 2}, a=3",
                         'dict plus keyword arguments repeating one of its keys'),
    'pairs+kw same key': (lambda: [('b', 1), ('a', 1)], {'b': 3}, "[('b', 1), ('a', 1)], b=3",
                          'pair list plus keyword arguments repeating one of its keys'),
    'big': (lambda: dict.fromkeys('abcd', 1), {}, "dict.fromkeys('abcd', 1)", 'dict larger than max_size'),
    'long pairs': (lambda: [('a', 1), ('b', 2), ('c', 1), ('c', 2)], {}, "[('a', 1), ('b', 2), ('c', 1), ('c', 2)]",
                   'pair list longer than max_size that repeats a key among its last pairs'),
    'long pairs 2': (lambda: [('b', 1), ('a', 2), ('b', 2)], {}, "[('b', 1), ('a', 2), ('b', 2)]",
                     'pair list longer than max_size that repeats a key among its last pairs'),
}
IOR = {'dict': (lambda: {'b': 2, 'c': 1}, "{'b': 2, 'c': 1}"), 'pairs': (lambda: [('a', 2)], "[('a', 2)]"),
       'long pairs': (lambda: [('a', 1), ('b', 2), ('b', 3)], "[('a', 1), ('b', 2), ('b', 3)]")}
SITE = {'set': '__setitem__', 'getitem': '__getitem__', 'get': 'get', 'getd': 'get', 'del': '__delitem__',
        'setdefault': 'setdefault', 'pop': 'pop', 'popd': 'pop', 'popitem': 'popitem', 'clear': 'clear',
        'copy': 'copy', 'update': 'update', 'ior': '__ior__'}


def ops_for(keys):
    ops = [('set', k, v) for k in keys for v in (1, 2)]
    for kind in ('getitem', 'get', 'getd', 'del', 'setdefault', 'pop', 'popd'):
        ops += [(kind, k) for k in keys]
    ops += [('popitem',), ('clear',), ('copy',)]
    ops += [('update', n) for n in UPD] + [('ior', n) for n in IOR]
    return ops


def src(op):
    k = op[0]
    a = repr(op[1]) if len(op) > 1 else ''
    return {'set': lambda: 'c[%s] = %r' % (a, op[2]), 'getitem': lambda: 'c[%s]' % a, 'get': lambda: 'c.get(%s)' % a,
            'getd': lambda: "c.get(%s, 'G')" % a, 'del': lambda: 'del c[%s]' % a,
            'setdefault': lambda: "c.setdefault(%s, 'S')" % a, 'pop': lambda: 'c.pop(%s)' % a,
            'popd': lambda: "c.pop(%s, 'P')" % a, 'popitem': lambda: 'c.popitem()', 'clear': lambda: 'c.clear()',
            'copy': lambda: 'd = c.copy()', 'update': lambda: 'c.update(%s)' % UPD[op[1]][2],
            'ior': lambda: 'c |= %s' % IOR[op[1]][1]}[k]()


def outcome(fn):
    try:
        return ('ret', fn())
    except RecursionError:
        return ('exc', 'RecursionError')
    except Exception as e:  # noqa
        return ('exc', type(e).__name__)


def do_real(c, op):
    k = op[0]
    if k == 'set':
        return outcome(lambda: c.__setitem__(op[1], op[2]))
    if k == 'update':
        pos, kw = UPD[op[1]][0], UPD[op[1]][1]
        return outcome((lambda: c.update(pos(), **kw)) if pos else (lambda: c.update(**kw)))
    if k == 'ior':
        return outcome(lambda: operator.ior(c, IOR[op[1]][0]()))
    f = {'getitem': lambda: c[op[1]], 'get': lambda: c.get(op[1]), 'getd': lambda: c.get(op[1], 'G'),
         'del': lambda: c.__delitem__(op[1]), 'setdefault': lambda: c.setdefault(op[1], 'S'),
         'pop': lambda: c.pop(op[1]), 'popd': lambda: c.pop(op[1], 'P'), 'popitem': lambda: c.popitem(),
         'clear': lambda: c.clear(), 'copy': lambda: c.copy()}[k]
    return outcome(f)


def do_model(m, op, real_out):
    """expected outcome; popitem follows the real choice when that choice is legal"""
    k = op[0]
    if k == 'popitem':
        if not m.data:
            return ('exc', 'KeyError')
        if real_out[0] == 'ret' and isinstance(real_out[1], tuple) and len(real_out[1]) == 2 \
                and real_out[1][0] in m.data and m.data[real_out[1][0]] == real_out[1][1]:
            m.remove(real_out[1][0])
            return real_out
        return ('ret', 'some (key, value) pair of the cache')
    if k == 'update':
        pos, kw = UPD[op[1]][0], UPD[op[1]][1]
        return outcome(lambda: m.update(pos() if pos else (), **kw))
    if k == 'ior':
        return outcome(lambda: m.update(IOR[op[1]][0]()))
    f = {'set': lambda: m.assign(op[1], op[2]), 'getitem': lambda: m.getitem(op[1]), 'get': lambda: m.get(op[1]),
         'getd': lambda: m.get(op[1], 'G'), 'del': lambda: m.delete(op[1]), 'setdefault': lambda: m.setdefault(op[1], 'S'),
         'pop': lambda: m.pop(op[1]), 'popd': lambda: m.pop(op[1], 'P'), 'clear': lambda: m.clear(),
         'copy': lambda: None}[k]
    return outcome(f)


def wclass_of(m, op):
    k = op[0]
    if k in ('update',):
        return UPD[op[1]][3]
    if k == 'ior':
        return 'any operand'
    if k in ('popitem', 'clear', 'copy'):
        return 'non-empty cache' if m.data else 'empty cache'
    if op[1] in m.data:
        return 'key present'
    return 'key absent, cache full' if len(m.data) >= m.max_size else 'key absent, cache not full'


class Ctx:
    """one configuration: class, max_size, on_miss kind"""
    def __init__(self, H, cname, ms, om):
        self.H, self.cname, self.ms, self.om = H, cname, ms, om
        self.cls = getattr(cacheutils, cname)
        self.keys = 'abcd'[:ms + 1]
        self.ops = ops_for(self.keys)

    def new(self):
        calls = []

        bad = self.keys[0] if self.om == 'x' else None

        def on_miss(k):
            calls.append(k)
            if k == bad:
                raise ValueError(k)
            return k * 2

        def ref_on_miss(k):
            if k == bad:
                raise ValueError(k)
            return k * 2
        c = self.cls(max_size=self.ms, on_miss=on_miss if self.om else None)
        m = RefCache(self.ms, self.cname == 'LRU', ref_on_miss if self.om else None)
        return c, m, calls

    def replay(self, hist):
        c, m, calls = self.new()
        for op in hist:
            do_model(m, op, do_real(c, op))
        return c, m, calls

    def witness(self, hist):
        om = {'x': 'k*2, raising ValueError for key %r' % self.keys[0], True: 'k*2'}.get(self.om)
        return dict(cls=self.cname, max_size=self.ms, on_miss=om, history=[src(o) for o in hist])

    def snip(self, hist, tail):
        body = 'c = %s(max_size=%d%s)\n' % (self.cname, self.ms, ', on_miss=om' if self.om else '')
        body += ''.join('t(%r)\n' % src(o) for o in hist)
        return 'RAISE_FOR = %r\n' % (self.keys[0] if self.om == 'x' else None) + HDR + body + tail + '\n'

    def fail(self, clause, site, wclass, hist, detail, tail=None, snip_hist=None):
        self.H.fail(clause, site, wclass, self.witness(hist), detail,
                    None if tail is None else self.snip(hist if snip_hist is None else snip_hist, tail))

    def site(self, op):
        if op[0] == 'getitem' and self.cname == 'LRU':
            return 'LRU.__getitem__'
        return 'LRI.' + SITE[op[0]]


def state_key(c, m, calls):
    try:
        internal = (tuple(c._get_flattened_ll()), tuple(sorted(c._link_lookup, key=repr)))
    except Exception:  # internals renamed: fall back to the public view only
        internal = ()
    return (m.key(), internal, outcome(lambda: tuple(c.items())),
            outcome(lambda: (c.hit_count, c.miss_count, c.soft_miss_count)), tuple(calls))


class low_recursion:
    """make a runaway recursion in a reader fail fast"""
    def __enter__(self):
        self.old = sys.getrecursionlimit()
        sys.setrecursionlimit(len(list(iter_frames())) + 80)

    def __exit__(self, *a):
        sys.setrecursionlimit(self.old)


def iter_frames():
    f = sys._getframe()
    while f:
        yield f
        f = f.f_back


def passive(cx, c, m, hist, op):
    """readers that must not change anything + counters. returns ok"""
    site, wc = cx.site(op), wclass_of(cx._pre_m, op)
    ior, cp = op[0] == 'ior', op[0] == 'copy'

    def F(clause, detail, tail):
        if ior:
            clause, tail = 'ior_equals_update', IOR_TAIL
        elif cp:
            clause = 'copy_leaves_source_unchanged'
        cx.fail(clause, site, wc, hist, detail, tail)
        return False

    n = outcome(lambda: len(c))
    if n[0] != 'ret' or n[1] > cx.ms:
        return F('capacity', 'len %r > max_size %d' % (n[1], cx.ms), 'assert len(c) <= c.max_size, len(c)')
    want = m.data
    views = [outcome(lambda: dict(c)), outcome(lambda: dict(c.items())), outcome(lambda: dict(zip(c.keys(), c.values()))),
             outcome(lambda: dict.fromkeys(iter(c))), outcome(lambda: {k: (k in c) for k in cx.keys})]
    if any(v[0] != 'ret' for v in views) or n[1] != len(views[0][1]) or views[0][1] != views[1][1] \
            or views[0][1] != views[2][1] or set(views[0][1]) != set(views[3][1]) or len(views[3][1]) != n[1]:
        return F('readers_agree', 'len %r dict %r items %r keys/values %r iter %r' % ((n,) + tuple(views[:4])),
                 'assert len(c) == len(dict(c)) == len(list(c)) and dict(c) == dict(c.items()) == dict(zip(c.keys(), c.values()))')
    if views[0][1] != want or views[4][1] != {k: (k in want) for k in cx.keys}:
        return F('contents_match_reference', 'dict(c) = %r in: %r; reference %r' % (views[0][1], views[4][1], want),
                 'assert dict(c) == %r, dict(c)' % (want,))
    cn = outcome(lambda: (c.hit_count, c.miss_count, c.soft_miss_count))
    if cn != ('ret', m.counters()) or m.soft > m.miss:
        return F('counters', '(hit, miss, soft_miss) = %r, reference %r' % (cn[1], m.counters()),
                 'assert (c.hit_count, c.miss_count, c.soft_miss_count) == %r, (c.hit_count, c.miss_count, c.soft_miss_count)'
                 % (m.counters(),))
    return True


IOR_TAIL = 'm = dict(c)\nassert len(c) <= c.max_size and all(c[k] == m[k] for k in m), (len(c), c.max_size)'


def eq_checks(cx, c, m, hist):
    """== / != by contents (pure readers; evaluated once per distinct state). returns ok"""
    want = dict(m.data)
    other, diff = dict(want), dict(want)
    if diff:
        diff[next(iter(diff))] = 'other'
    else:
        diff['q'] = 0
    same_cache = cacheutils.LRI(max_size=8)
    for k, v in want.items():
        same_cache[k] = v
    with low_recursion():
        res = [outcome(lambda: c == other), outcome(lambda: c != other), outcome(lambda: other == c),
               outcome(lambda: c == diff), outcome(lambda: c != diff), outcome(lambda: c == same_cache),
               outcome(lambda: c == c)]
    expq = [('ret', True), ('ret', False), ('ret', True), ('ret', False), ('ret', True), ('ret', True), ('ret', True)]
    if res != expq:
        bad = 'equal-length dict' if res[:5] != expq[:5] else 'cache'
        cx.fail('eq_by_contents', 'LRI.__eq__', bad + ' operand', hist,
                '[c==same, c!=same, same==c, c==diff, c!=diff, c==LRI(same), c==c] = %r' % (res,),
                'assert (c == %r) is True and (c == %r) is False' % (other, diff))
    after = outcome(lambda: (dict(c), c.hit_count, c.miss_count, c.soft_miss_count))
    if after != ('ret', (want,) + m.counters()):
        cx.fail('eq_by_contents', 'LRI.__eq__', 'comparison changes the cache', hist, repr(after))
        return False
    return True


ORDER_TAIL = ('ev = []\nfor i in range(%d):\n    b = set(%s); %s[("z", i)] = 0; ev.append(tuple(sorted(b - set(%s))))\n'
              'assert ev == %r, ev')


def destructive(cx, hist):
    """eviction order and every lookup, on fresh replays of the history. returns ok"""
    op = hist[-1]
    site, wc = cx.site(op), wclass_of(cx._pre_m, op)
    override = {'ior': 'ior_equals_update', 'copy': 'copy_leaves_source_unchanged'}.get(op[0])
    c2, m2, _ = cx.replay(hist)
    got, want = outcome(lambda: probe_order(c2, cx.ms)), probe_order(m2, cx.ms)
    ok = True
    if got != ('ret', want):
        cx.fail(override or 'eviction_order', site, wc, hist, 'fresh inserts evicted %r, reference %r' % (got[1], want),
                IOR_TAIL if op[0] == 'ior' else ORDER_TAIL % (cx.ms, 'c', 'c', 'c', want))
        ok = False
    for k in cx.keys:                 # one fresh replay per key: a lookup may insert (on_miss) and evict
        c3, m3, _ = cx.replay(hist)
        had = k in m3.data
        g, w = outcome(lambda: c3[k]), outcome(lambda: m3.getitem(k))
        if g != w:
            cl = 'removed_key_not_returned' if (not had and g[0] == 'ret' and not cx.om) else 'contents_match_reference'
            cx.fail(override or cl, site, wc, hist, 'then c[%r] -> %r, reference %r' % (k, g, w),
                    IOR_TAIL if op[0] == 'ior' else
                    'r = c.get(%r, "absent")\nassert r == %r, r' % (k, w[1] if w[0] == 'ret' else 'absent'))
            return False
    return ok


def check_copy(cx, hist, d, m_before):
    """the object returned by copy(): class, capacity, contents, order, independence"""
    c_src, _, _ = cx.replay(hist)     # the source after the copy (its own state is checked by passive/destructive)
    ok = True

    def F(clause, wclass, detail, tail=None):
        cx.fail(clause, 'LRI.copy', wclass, hist, detail, tail)
        return False
    if type(d) is not cx.cls or outcome(lambda: d.max_size) != ('ret', cx.ms):
        return F('copy_same_contents_capacity_order', 'any source',
                 'copy is %s max_size %r' % (type(d).__name__, getattr(d, 'max_size', None)),
                 'assert type(d) is type(c) and d.max_size == c.max_size')
    if outcome(lambda: dict(d)) != ('ret', m_before.data):
        return F('copy_same_contents_capacity_order', 'any source',
                 'copy contents %r, source %r' % (outcome(lambda: dict(d)), m_before.data),
                 'assert dict(d) == %r, dict(d)' % (m_before.data,))
    view = lambda x: outcome(lambda: (dict(x), x.hit_count, x.miss_count, x.soft_miss_count))  # noqa: E731
    src_view = view(c_src)
    dict_order = outcome(lambda: list(d))
    want = probe_order(m_before.copy(), cx.ms)
    got = outcome(lambda: probe_order(d, cx.ms))
    if got != ('ret', want):
        wcl = ('any source' if dict_order == ('ret', m_before.order())
               else 'source whose dict iteration order differs from its recency order')
        ok = F('copy_same_contents_capacity_order', wcl,
               'fresh inserts into the copy evicted %r, reference %r' % (got[1], want), ORDER_TAIL % (cx.ms, 'd', 'd', 'd', want))
    # independence: the probe mutated the copy; now mutate the source; neither may see the other
    if view(c_src) != src_view:
        ok = F('copy_independent', 'any source', 'mutating the copy changed the source',
               'b = dict(c); d["w"] = 5; d.clear(); assert dict(c) == b')
    snap = outcome(lambda: dict(d))
    outcome(lambda: c_src.__setitem__('w', 5))
    outcome(lambda: c_src.pop(cx.keys[0], None))
    outcome(lambda: c_src.clear())
    if outcome(lambda: dict(d)) != snap or outcome(lambda: len(d)) != ('ret', len(snap[1]) if snap[0] == 'ret' else -1):
        ok = F('copy_independent', 'any source', 'mutating the source changed the copy',
               "b = dict(d); c['w'] = 5; c.clear(); assert dict(d) == b")
    return ok


def step(cx, hist, op):
    """replay hist, apply op, evaluate the per-transition contract. returns (ok, state key, c, m)"""
    c, m, calls = cx.replay(hist)
    cx._pre_m = m_before = m.copy()
    hist2 = hist + (op,)
    site, wc = cx.site(op), wclass_of(m_before, op)
    r = do_real(c, op)
    e = do_model(m, op, r)
    if op[0] == 'copy':
        if r[0] != 'ret':
            cx.fail('copy_same_contents_capacity_order', site, wc, hist2, 'copy() raised %s' % r[1], '')
            return False, None, c, m
        ok = check_copy(cx, hist2, r[1], m_before)
    elif op[0] == 'ior':
        if r[0] != 'ret' or r[1] is not c:
            cx.fail('ior_equals_update', site, wc, hist2, '|= gave %r' % (r,), IOR_TAIL)
            return False, None, c, m
        ok = True
    elif r != e:
        if e[0] == 'ret' and op[0] not in ('set', 'del'):
            tail = 'r = %s\nassert r == %r, r' % (src(op), e[1])
            if op[0] == 'popitem':
                tail = 'b = dict(c)\nr = c.popitem()\nassert r[0] in b and b[r[0]] == r[1], r'
        else:
            tail = src(op) if e[0] == 'ret' else 'try:\n    %s\n    raise AssertionError\nexcept %s: pass' % (src(op), e[1])
        cx.fail('return_value', site, wc, hist2, '%s -> %r, reference %r' % (src(op), r, e), tail, snip_hist=hist)
        return False, None, c, m      # the states have diverged (an exception aborts the operation)
    else:
        ok = True
    if calls != m.calls:
        cx.fail('on_miss_calls', site, wc, hist2, 'on_miss called with %r, reference %r' % (calls, m.calls),
                'assert calls == %r, calls' % (m.calls,))
        ok = False
    ok = passive(cx, c, m, hist2, op) and ok
    return ok, (state_key(c, m, calls) if ok else None), c, m


def explore(cx, depth, deadline_frac):
    H = cx.H
    c0, m0, calls0 = cx.new()
    seen = {state_key(c0, m0, calls0)}
    frontier = [()]
    part = '%s/%d/%s' % (cx.cname, cx.ms, {'x': 'x', True: 'f'}.get(cx.om, '-'))
    stats = dict(states=1, transitions=0, depth=0)
    for d in range(1, depth + 1):
        nxt = []
        for hist in frontier:
            if H.out_of_time(deadline_frac):
                H.note_truncated('%s: stopped at depth %d by time budget' % (part, d))
                return stats
            for op in cx.ops:
                ok, key, c, m = step(cx, hist, op)
                stats['transitions'] += 1
                hist2 = hist + (op,)
                n = H.evaluations + 1
                H.ev(key=(part, hist2), nontrivial=len(m.data) > 0 or d > 1, part=part,
                     sample=dict(cx.witness(hist2), state=sorted(m.data.items())) if n <= 4 or n & (n - 1) == 0 else None)
                if not ok or key in seen:
                    continue
                seen.add(key)
                stats['states'] += 1
                if eq_checks(cx, c, m, hist2) and destructive(cx, hist2):
                    nxt.append(hist2)
        frontier = nxt
        stats['depth'] = d
    return stats


def random_histories(H, n, length):
    rnd = random.Random(H.seed)
    for i in range(n):
        cx = Ctx(H, rnd.choice(['LRI', 'LRU']), rnd.choice([1, 2, 3]), rnd.choice([False, True, 'x']))
        hist = ()
        for j in range(length):
            op = rnd.choice(cx.ops)
            ok, key, c, m = step(cx, hist, op)
            hist += (op,)
            H.ev(key=('rnd', H.seed, i, j), nontrivial=True, part='random')
            if not ok or not eq_checks(cx, c, m, hist) or not destructive(cx, hist):
                break                      # as in explore(): nothing is built on a state that already diverged
        if H.out_of_time(0.95):
            H.note_truncated('random histories stopped after %d of %d' % (i, n))
            break


def run():
    H = Harness('C02',
                rule='one evaluation = the whole contract after one operation appended to one history (breadth-first over '
                     'distinct concrete states: equal ring+dict+counters => equal future); every history of the 13 mutating '
                     'operation kinds (x keys, x argument kinds) up to the depth bound, passive readers and == after every '
                     'step, eviction order and all lookups probed on a fresh replay for every new state; non-trivial = the '
                     'cache is non-empty or the history has >= 2 steps',
                bounds=dict(quick='LRI+LRU x max_size 1..3 (keys = first max_size+1 of a,b,c,d; values 1,2) x on_miss in {None, k*2, k*2 raising ValueError for the first key (max_size 1..2)}; all '
                                  'histories up to depth 6 (max_size 1), 4 (max_size 2), 3 (max_size 3) over 28..49 operation instances',
                            thorough='same configurations; depth 10 (max_size 1), 7 (max_size 2), 4 (max_size 3); '
                                     '+ 300 random histories of 24 steps from --seed'))
    depth = {1: 10, 2: 7, 3: 4} if H.thorough else {1: 6, 2: 4, 3: 3}
    configs = [(cn, ms, om) for ms in (1, 2, 3) for cn in ('LRI', 'LRU') for om in (False, True, 'x') if not (om == 'x' and ms == 3)]
    summary = {}
    for i, (cn, ms, om) in enumerate(configs):
        cx = Ctx(H, cn, ms, om)
        st = explore(cx, depth[ms], 0.12 + 0.8 * (i + 1) / len(configs))
        summary['%s/%d/%s' % (cn, ms, {'x': 'x', True: 'f'}.get(om, '-'))] = st
    H.bounds = dict(H.bounds, reached=summary)
    if H.thorough:
        random_histories(H, 300, 24)
    H.finish()


main_wrapper(run)
