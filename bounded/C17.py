"""C17 bounded stand-in: OneToOne / ManyToMany stay mutual inverses, FrozenDict immutable and content-hashed.

Contracts (from the property statement), evaluated on the real classes after EVERY step of every history of
operations applied to the forward object or to its .inv, with arguments given as dict / list of pairs /
one-shot iterator / kwargs, on an object replayed directly and on objects obtained from it by copy(), by the
constructor and by update() (the source instance must then stay unchanged):
  OneToOne   mutual_inverse        dict(o.inv) == {v: k for k, v in dict(o).items()}, same length
             inv_inv_identity      o.inv.inv is o
             effect_equals_model   dict(o) == injective-map model (refmodels/bimap.py): assignment evicts both old
                                   partners; update / |= = assignments in argument order whatever the argument form
             mutator_result        pop / popitem / setdefault return what the model returns (popitem: any pair)
             instances_independent mutating a copy / an instance built or updated from o leaves o unchanged
  ManyToMany pairs_transposed, no_empty_entries, inv_inv_identity, effect_equals_model (pair-set model; readers
             [], get, in, len, keys agree with the pairs), instances_independent;  replace() onto an existing key:
             merging and overwriting are both accepted
  FrozenDict frozen_mutators_raise (TypeError and unchanged), frozen_hash_order_independent,
             frozen_hash_error_consistent, frozen_copies_equal (updated / copy / deepcopy / pickle)
wclass = "<argument family>: <features shared by all failing witnesses of that clause and site>".
"""
import copy
import itertools
import operator
import os
import pickle
import sys

sys.path.insert(0, os.path.dirname(os.path.dirname(os.path.abspath(__file__))))
from bounded.harness import Harness, main_wrapper  # noqa: E402
from refmodels.bimap import InjectiveMap, PairSet  # noqa: E402

from boltons import dictutils  # noqa: E402
from boltons.dictutils import OneToOne, ManyToMany, FrozenDict  # noqa: E402

HDR = ('import copy, pickle, operator\nfrom boltons.dictutils import OneToOne, ManyToMany, FrozenDict\n'
       'def R(f):\n    try: return f()\n    except Exception as e: return "EXC:" + type(e).__name__\n')
FEATURE_ORDER = ['applied to .inv', 'argument is a one-shot iterator', 'argument is a dict', 'argument is a list of pairs',
                 'argument is another instance', 'keyword arguments given', 'argument is empty', 'key absent', 'key present',
                 'value already under another key', 'new key already present', 'object derived from another instance',
                 'non-empty state']


STATE_FEATS = {'applied to .inv', 'object derived from another instance', 'non-empty state'}
DERIVED = {'__ior__': 'update', 'update': '__setitem__', 'setdefault': '__setitem__'}


def R(f):
    try:
        return f()
    except Exception as e:  # noqa
        return 'EXC:' + type(e).__name__


G = dict(R=R, copy=copy, pickle=pickle, operator=operator, OneToOne=OneToOne, ManyToMany=ManyToMany, FrozenDict=FrozenDict)


def fn_of(src, arg='x'):
    return eval('lambda %s: %s' % (arg, src), G)


class Agg:
    def __init__(self):
        self.g = {}

    def add(self, clause, site, form, feats, witness, detail, snip):
        key = (clause, site, form)
        rank = (len(repr(witness)), repr(witness))
        g = self.g.get(key)
        if g is None:
            self.g[key] = dict(feats=set(feats), n=1, rank=rank, w=witness, d=detail, sn=snip)
            return
        g['feats'] &= set(feats)
        g['n'] += 1
        if rank < g['rank']:
            g.update(rank=rank, w=witness, d=detail, sn=snip)

    def subsumed(self, key):
        """|= is update(), update()/setdefault() are assignments, a default only matters for an absent key: a failure of
        such a derived operation is reported at the operation it is defined through when that one fails too under (at
        most) the same conditions; the constructor fills a new instance through update()"""
        clause, site, form = key
        cn, _, meth = site.rpartition('.')
        g = self.g[key]
        cands = [(meth, 'key')] if form == 'key, default' else []
        if clause == 'instances_independent' and meth == '__init__':
            cands.append(('update', form))
        while meth in DERIVED:
            meth = DERIVED[meth]
            cands += [(meth, form), (meth, None)]
        for bm, bf in cands:
            for k2, g2 in self.g.items():
                if k2 != key and k2[0] == clause and k2[1] == cn + '.' + bm and (bf is None or k2[2] == bf):
                    if (g2['feats'] if bf else g2['feats'] & STATE_FEATS) <= g['feats']:
                        return True
        return False

    def flush(self, H):
        for (clause, site, form), g in sorted(self.g.items()):
            if self.subsumed((clause, site, form)):
                continue
            wclass = form + ': ' + (', '.join(f for f in FEATURE_ORDER if f in g['feats']) or 'any state')
            H.fail(clause, site, wclass, g['w'], g['d'], g['sn'])
            H.fail_counts[(clause, site, wclass)] = g['n']


class Op:
    def __init__(self, meth, form, src, mfn, feats=None, special=None):
        self.meth, self.form, self.src, self.mfn, self.special = meth, form, src, mfn, special
        self.feats = feats or (lambda m, s: set())
        self.fn = fn_of(src.replace('{x}', 'x'))


def pair_forms(pairs, kw=None):
    """(source text of the argument list, features)"""
    out = []
    if kw is not None:
        kws = ', '.join('%s=%r' % kv for kv in kw)
        return [('%r, %s' % (pairs, kws), {'argument is a list of pairs', 'keyword arguments given'}),
                ('%r, %s' % (dict(pairs), kws), {'argument is a dict', 'keyword arguments given'})]
    if len(dict(pairs)) == len(pairs):
        out.append((repr(dict(pairs)), {'argument is a dict'}))
    out.append((repr(pairs), {'argument is a list of pairs'}))
    out.append(('iter(%r)' % (pairs,), {'argument is a one-shot iterator'}))
    return [(s, f | ({'argument is empty'} if not pairs else set())) for s, f in out]


# ---- OneToOne ------------------------------------------------------------------------------------------
A = (1, 2, 'a')


def oto_ops():
    ops = []
    O = lambda *a, **kw: ops.append(Op(*a, **kw))  # noqa

    def kf(k, v=None):
        def f(m, s):
            x = m.view(s)
            out = {'key present' if k in x else 'key absent'}
            if v is not None and any(vv == v and kk != k for kk, vv in x.items()):
                out.add('value already under another key')
            return out
        return f
    for k in A:
        for v in A:
            O('__setitem__', 'key, value', 'operator.setitem({x}, %r, %r)' % (k, v), lambda m, s, k=k, v=v: m.setitem(s, k, v), kf(k, v))
            O('setdefault', 'key, default', '{x}.setdefault(%r, %r)' % (k, v), lambda m, s, k=k, v=v: m.setdefault(s, k, v), kf(k, v))
        O('__delitem__', 'key', 'operator.delitem({x}, %r)' % (k,), lambda m, s, k=k: m.delitem(s, k), kf(k))
        O('setdefault', 'key', '{x}.setdefault(%r)' % (k,), lambda m, s, k=k: m.setdefault(s, k), kf(k, None))
        O('pop', 'key', '{x}.pop(%r)' % (k,), lambda m, s, k=k: m.pop(s, k), kf(k))
        O('pop', 'key, default', '{x}.pop(%r, "D")' % (k,), lambda m, s, k=k: m.pop(s, k, 'D'), kf(k))
    O('popitem', 'no argument', '{x}.popitem()', None, special='popitem')
    O('clear', 'no argument', '{x}.clear()', lambda m, s: m.clear(s))
    O('copy', 'continue on the copy', '{x}.copy()', lambda m, s: None, special='copy')
    pays = [[], [(1, 2)], [(1, 2), ('a', 1)], [(1, 'a'), (2, 'a')], [(2, 1), (2, 'a')]]
    for pairs in pays:
        for src, fe in pair_forms(pairs):
            mp = list(dict(pairs).items()) if 'argument is a dict' in fe else pairs
            O('update', 'pairs argument', '{x}.update(%s)' % src, lambda m, s, mp=mp: m.update(s, mp), lambda m, s, fe=fe: set(fe))
            if pairs in (pays[0], pays[2], pays[3]):
                O('__ior__', 'pairs argument', 'operator.ior({x}, %s)' % src, lambda m, s, mp=mp: m.update(s, mp),
                  lambda m, s, fe=fe: set(fe), special='ior')
    for pairs, kw in (([], [('a', 2)]), ([(1, 'a')], [('a', 1), ('b', 2)])):
        for src, fe in pair_forms(pairs, kw):
            O('update', 'pairs argument', '{x}.update(%s)' % src, lambda m, s, p=pairs, kw=kw: m.update(s, p, kw), lambda m, s, fe=fe: set(fe))
    return ops


OTO_DERIVS = [('direct', 't = o', lambda o: o),
              ('copy()', 't = o.copy()', lambda o: o.copy()),
              ('constructor', 't = OneToOne(o)', lambda o: OneToOne(o)),
              ('update', 't = OneToOne()\nt.update(o)', lambda o: (lambda t: (t.update(o), t)[1])(OneToOne()))]


def oto_check(t, m, v='t'):
    """[(clause, detail, assertion source)] for a OneToOne t (called `v` in the replay program) against model m"""
    out = []
    F, I = R(lambda: dict(t)), R(lambda: dict(t.inv))
    if isinstance(F, str) or isinstance(I, str):
        return [('mutual_inverse', 'dict(t) / dict(t.inv) raised %r %r' % (F, I), 'assert isinstance(dict(%s.inv), dict)' % v)]
    if I != {v_: k for k, v_ in F.items()} or len(I) != len(F):
        out.append(('mutual_inverse', 'forward %r, inverse %r' % (F, I),
                    'F, I = dict(%s), dict(%s.inv)\nassert I == {v: k for k, v in F.items()} and len(I) == len(F), (F, I)' % (v, v)))
    if R(lambda: t.inv.inv is t) is not True or R(lambda: t.inv.inv.inv is t.inv) is not True:
        out.append(('inv_inv_identity', 't.inv.inv is not t', 'assert %s.inv.inv is %s' % (v, v)))
    if F != m.d:
        out.append(('effect_equals_model', 'forward %r, model %r' % (F, m.d), 'assert dict(%s) == %r, dict(%s)' % (v, m.d, v)))
    return out


def oto_key(t):
    return (tuple(t.items()), tuple(t.inv.items()))


# ---- ManyToMany ----------------------------------------------------------------------------------------
MK = (1, 2, 3)


def m2m_ops(MV):
    ops = []
    O = lambda *a, **kw: ops.append(Op(*a, **kw))  # noqa

    def kf(ki, nki=None):
        def f(m, s):
            ks = m.keys(s)
            k = (MK, MV)[s][ki % len((MK, MV)[s])]
            out = {'key present' if k in ks else 'key absent'}
            if nki is not None and (MK, MV)[s][nki % len((MK, MV)[s])] in ks and nki != ki:
                out.add('new key already present')
            return out
        return f
    # sources are written for side 0 (keys MK, values MV); side 1 swaps the alphabets
    for s in (0, 1):
        KS, VS = ((MK, MV), (MV, MK))[s]
        for ki, k in enumerate(KS):
            for v in VS:
                O('add', 'key, value', '{x}.add(%r, %r)' % (k, v), lambda m, sd, k=k, v=v: m.add(sd, k, v), kf(ki))
                O('remove', 'key, value', '{x}.remove(%r, %r)' % (k, v), lambda m, sd, k=k, v=v: m.remove(sd, k, v), kf(ki))
            for vals, it in (([], 0), (list(VS[:1]), 0), (list(VS), 0), (list(VS[-1:]), 1)):
                src = ('iter(%r)' if it else '%r') % (vals,)
                O('__setitem__', 'key, iterable of values', 'operator.setitem({x}, %r, %s)' % (k, src),
                  lambda m, sd, k=k, vals=vals: m.setitem(sd, k, vals),
                  lambda m, sd, ki=ki, it=it, vals=vals: kf(ki)(m, sd) | ({'argument is a one-shot iterator'} if it else set())
                  | ({'argument is empty'} if not vals else set()))
            O('__delitem__', 'key', 'operator.delitem({x}, %r)' % (k,), lambda m, sd, k=k: m.delitem(sd, k), kf(ki))
            for nki, nk in enumerate(KS):
                O('replace', 'key, new key', '{x}.replace(%r, %r)' % (k, nk), (k, nk), kf(ki, nki), special='replace')
        pays = [[], [(KS[0], VS[0])], [(KS[0], VS[0]), (KS[1], VS[0]), (KS[0], VS[-1])]]
        for pairs in pays:
            for src, fe in pair_forms(pairs):
                if 'argument is a dict' in fe:
                    continue
                O('update', 'pairs argument', '{x}.update(%s)' % src, lambda m, sd, p=pairs: m.update(sd, p), lambda m, sd, fe=fe: set(fe))
            fe = {'argument is another instance'} | ({'argument is empty'} if not pairs else set())
            O('update', 'pairs argument', '{x}.update(ManyToMany(%r))' % (pairs,), lambda m, sd, p=pairs: m.update(sd, p),
              lambda m, sd, fe=fe: set(fe))
        dct = {KS[0]: VS[-1], KS[-1]: VS[0]}
        O('update', 'pairs argument', '{x}.update(%r)' % (dct,), lambda m, sd, p=list(dct.items()): m.update(sd, p),
          lambda m, sd: {'argument is a dict'})
        for o in ops:
            if not hasattr(o, 'side'):
                o.side = s
    return ops


M2M_DERIVS = [('direct', 't = o', lambda o: o),
              ('constructor', 't = ManyToMany(o)', lambda o: ManyToMany(o)),
              ('update', 't = ManyToMany()\nt.update(o)', lambda o: (lambda t: (t.update(o), t)[1])(ManyToMany()))]
M2M_OBS = ('(sorted(t.iteritems(), key=repr), sorted(t.inv.iteritems(), key=repr), sorted(t.keys(), key=repr), '
           'sorted(t.inv.keys(), key=repr), len(t), len(t.inv), sorted(t, key=repr), '
           '[(k in t, R(lambda: t[k]), t.get(k), t.get(k, "D")) for k in (1, 2, 3, "a")], '
           '[(k in t.inv, R(lambda: t.inv[k]), t.inv.get(k)) for k in ("a", "b", "c", 1)])')
m2m_obs = fn_of(M2M_OBS, 't')


def m2m_expected(m):
    def rd(s, k, *d):
        ks = m.keys(s)
        return (k in ks, m.vals(s, k) if k in ks else 'EXC:KeyError') + tuple(m.vals(s, k) if k in ks else x for x in (frozenset(),) + d)
    return (sorted(m.view(0), key=repr), sorted(m.view(1), key=repr), sorted(m.keys(0), key=repr), sorted(m.keys(1), key=repr),
            len(m.keys(0)), len(m.keys(1)), sorted(m.keys(0), key=repr), [rd(0, k, 'D') for k in (1, 2, 3, 'a')],
            [rd(1, k) for k in ('a', 'b', 'c', 1)])


def m2m_check(t, m, v='t'):
    out = []
    obs = R(lambda: m2m_obs(t))
    src = 'obs = (lambda t: %s)(%s)\n' % (M2M_OBS, v)
    if isinstance(obs, str):
        return [('effect_equals_model', 'a reader raised ' + obs, src)]
    p0, p1, k0, k1 = obs[:4]
    if sorted(((b, a) for a, b in p0), key=repr) != p1:
        out.append(('pairs_transposed', 'forward pairs %r, inverse pairs %r' % (p0, p1),
                    src + 'assert sorted(((b, a) for a, b in obs[0]), key=repr) == obs[1], obs[:2]'))
    if k0 != sorted(set(k for k, _ in p0), key=repr) or k1 != sorted(set(k for k, _ in p1), key=repr):
        out.append(('no_empty_entries', 'keys %r / %r vs pairs %r / %r' % (k0, k1, p0, p1),
                    'assert all(len(%s[k]) for k in %s.keys()) and all(len(%s.inv[k]) for k in %s.inv.keys())' % (v, v, v, v)))
    if R(lambda: t.inv.inv is t) is not True:
        out.append(('inv_inv_identity', 't.inv.inv is not t', 'assert %s.inv.inv is %s' % (v, v)))
    want = m2m_expected(m)
    if obs != want:
        i = [a == b for a, b in zip(obs, want)].index(False)
        out.append(('effect_equals_model', 'observation %d: %r, pair-set model %r' % (i, obs[i], want[i]),
                    src + 'assert obs[%d] == %r, obs[%d]' % (i, want[i], i)))
    return out


# ---- generic exploration over both sides ---------------------------------------------------------------
DSITE = {'copy()': 'copy', 'constructor': '__init__', 'update': 'update'}
ORDER = ['mutual_inverse', 'pairs_transposed', 'no_empty_entries', 'inv_inv_identity', 'instances_independent',
         'effect_equals_model', 'mutator_result']


def explore(H, agg, cname, cls, model_cls, ops, derivs, check, key_of, depth, part):
    def replay(hist):
        o = cls()
        for oi, s in hist:
            op = ops[oi]
            r = R(lambda: op.fn(o if s == 0 else o.inv))
            if op.special in ('copy', 'ior') and not isinstance(r, str):
                o = r if s == 0 else r.inv
        return o

    def steps_src(hist):
        out = 'o = %s()\n' % cname
        for oi, s in hist:
            op, x = ops[oi], ('o', 'o.inv')[s]
            if op.special in ('copy', 'ior'):
                out += 'o = %s%s\n' % (op.src.replace('{x}', x), '.inv' if s else '')
            else:
                out += 'R(lambda: %s)\n' % op.src.replace('{x}', x)
        return out
    seen = {key_of(cls()): 0}
    frontier = [((), model_cls())]
    stats = []
    for lvl in range(depth):
        nxt = []
        for hist, m in frontier:
            if H.out_of_time(0.9):
                H.note_truncated('%s: exploration stopped by the time budget at depth %d' % (cname, lvl + 1))
                return stats
            for oi, op in enumerate(ops):
                for s in (0, 1):
                    if getattr(op, 'side', s) != s:
                        continue
                    for dname, dsrc, dfn in derivs:
                        o = replay(hist)
                        t = R(lambda: dfn(o))
                        site = '%s.%s' % (cname, op.meth)
                        feats = op.feats(m, s) | ({'applied to .inv'} if s else set()) | ({'non-empty state'} if (getattr(m, 'd', None) or getattr(m, 's', None)) else set())
                        if dname != 'direct':
                            feats.add('object derived from another instance')
                        wit = [steps_src(hist).strip().split('\n'), dsrc, op.src.replace('{x}', ('t', 't.inv')[s])]
                        pre = HDR + steps_src(hist) + dsrc + '\n'
                        H.ev(key=(cname, key_of(o), oi, s, dname), part=part, nontrivial=True,
                             sample=dict(cls=cname, history=steps_src(hist), derive=dsrc, op=op.src.replace('{x}', ('t', 't.inv')[s])))
                        if isinstance(t, str):
                            agg.add('effect_equals_model', '%s.%s' % (cname, dname), 'an instance', feats, wit, 'deriving raised ' + t, pre)
                            continue
                        m2 = m.clone()
                        x = t if s == 0 else t.inv
                        xs = ('t', 't.inv')[s]
                        r = R(lambda: op.fn(x))
                        t2, after = t, 'r = R(lambda: %s)\n' % op.src.replace('{x}', xs)
                        rs = 'assert r == %r, r'
                        if op.special == 'popitem':
                            opts = R(lambda: m2.popitem_options(s))
                            want = opts
                            if not isinstance(opts, str):
                                pick = [o_ for o_ in opts if o_[0] == r] or opts[:1]
                                want = pick[0][0]
                                m2._store(s, pick[0][1])
                            ok = r == want
                            rs = 'assert r in %r, r' % ([o_[0] for o_ in opts] if not isinstance(opts, str) else [opts],)
                        elif op.special == 'replace':
                            opts = m2.replace_options(s, *op.mfn)
                            real = R(lambda: set(x.iteritems()))
                            m2._store(s, ([o_ for o_ in opts if o_ == real] or opts[:1])[0])
                            want, ok = None, r is None
                        elif op.special == 'copy':
                            want, ok = 'a new %s' % cname, isinstance(r, cls) and r is not x
                            rs = 'assert isinstance(r, %s) and r is not %s, r' % (cname, xs)
                            if ok:
                                t2 = r if s == 0 else R(lambda: r.inv)
                                after += 't = r%s\n' % ('.inv' if s else '')
                        else:
                            want = R(lambda: op.mfn(m2, s))
                            ok = (r is x) if op.special == 'ior' else (r == want and type(r) is type(want))
                            if op.special == 'ior':
                                want, rs = 'the object itself', 'assert r is %s, r' % xs
                        probs = check(t2, m2) if not isinstance(t2, str) else [('effect_equals_model', '.inv of the copy raised ' + t2, 'assert 0')]
                        if not ok:
                            probs.append(('mutator_result', 'returned %r, model %r' % (r, want), rs % (want,) if '%r' in rs else rs))
                        if dname != 'direct':
                            probs += [('instances_independent', 'source instance changed: ' + d, a) for c, d, a in check(o, m, 'o')]
                        if probs:
                            clause, det, a = sorted(probs, key=lambda p: ORDER.index(p[0]))[0]
                            if clause == 'instances_independent':
                                # the entry at fault is the one that built t from o, whatever mutator reveals the sharing
                                agg.add(clause, '%s.%s' % (cname, DSITE[dname]), 'argument is another instance',
                                        feats - {'key present', 'key absent', 'applied to .inv'}, wit, det, pre + after + a + '\n')
                            else:
                                agg.add(clause, site, op.form, feats, wit, det, pre + after + a + '\n')
                        elif dname == 'direct':
                            k2 = key_of(t2)
                            if k2 not in seen:
                                seen[k2] = lvl + 1
                                nxt.append((hist + ((oi, s),), m2))
        stats.append((lvl + 1, len(nxt)))
        frontier = nxt
        if not nxt:
            break
    return stats


def ctor_part(H, agg):
    cases = [[], [(1, 2)], [(1, 2), ('a', 1)], [(1, 'a'), (2, 'a')], [(2, 1), (2, 'a')]]
    for pairs in cases:
        forms = pair_forms(pairs) + (pair_forms(pairs, [('a', 2)]) if pairs != cases[3] else [])
        for src, fe in forms:
            m = InjectiveMap()
            mp = list(dict(pairs).items()) if 'argument is a dict' in fe else pairs
            m.update(0, mp, [('a', 2)] if 'keyword arguments given' in fe else ())
            t = R(lambda: eval('OneToOne(%s)' % src, G))
            H.ev(key=('OneToOne ctor', src), part='ctor', sample=dict(construct='OneToOne(%s)' % src))
            probs = [('effect_equals_model', 'constructor raised ' + t, 'assert 0')] if isinstance(t, str) else oto_check(t, m)
            for clause, det, a in probs[:1]:
                agg.add(clause, 'OneToOne.__init__', 'pairs argument', fe, ['t = OneToOne(%s)' % src], det,
                        HDR + 't = OneToOne(%s)\n%s\n' % (src, a))
    for pairs in ([], [(1, 'a')], [(1, 'a'), (2, 'a'), (1, 'b')]):
        forms = [f for f in pair_forms(pairs)] + [('ManyToMany(%r)' % (pairs,), {'argument is another instance'})]
        for src, fe in forms:
            if 'argument is a dict' in fe and len(pairs) > 1:
                continue
            m = PairSet(pairs)
            t = R(lambda: eval('ManyToMany(%s)' % src, G))
            H.ev(key=('ManyToMany ctor', src), part='ctor', sample=dict(construct='ManyToMany(%s)' % src))
            probs = [('effect_equals_model', 'constructor raised ' + t, 'assert 0')] if isinstance(t, str) else m2m_check(t, m)
            for clause, det, a in probs[:1]:
                agg.add(clause, 'ManyToMany.__init__', 'pairs argument', fe, ['t = ManyToMany(%s)' % src], det,
                        HDR + 't = ManyToMany(%s)\n%s\n' % (src, a))


# ---- FrozenDict ----------------------------------------------------------------------------------------
def frozen_part(H, thorough):
    keys, vals = ((1, 2, 'a', (0,)) if thorough else (1, 2, 'a')), (1, 'x')
    site = 'FrozenDict.%s'
    contents = []
    for n in range(len(keys) + 1):
        for ks in itertools.combinations(keys, n):
            for vs in itertools.product(vals, repeat=n):
                contents.append(list(zip(ks, vs)))
    muts = [('__setitem__', 'operator.setitem(fd, {k}, 5)', 1), ('__setitem__', 'operator.setitem(fd, "new", 5)', 1),
            ('__delitem__', 'operator.delitem(fd, {k})', 1), ('__delitem__', 'operator.delitem(fd, "new")', 0),
            ('update', 'fd.update({{"new": 1}})', 1), ('update', 'fd.update([({k}, 9)])', 1), ('update', 'fd.update(new=1)', 1),
            ('update', 'fd.update(iter([("new", 1)]))', 1), ('update', 'fd.update({{}})', 0),
            ('setdefault', 'fd.setdefault("new")', 1), ('setdefault', 'fd.setdefault("new", 3)', 1), ('setdefault', 'fd.setdefault({k})', 0),
            ('pop', 'fd.pop({k})', 1), ('pop', 'fd.pop("new", None)', 0), ('pop', 'fd.pop("new")', 0),
            ('popitem', 'fd.popitem()', 1), ('clear', 'fd.clear()', 1),
            ('__ior__', 'operator.ior(fd, {{"new": 1}})', 1), ('__ior__', 'operator.ior(fd, [({k}, 9)])', 1), ('__ior__', 'operator.ior(fd, {{}})', 0)]
    for items in contents:
        perms = list(itertools.permutations(items))
        fds = [FrozenDict(list(p)) for p in perms]
        base = dict(items)
        # hash: equal FrozenDicts, equal hashes, whatever the insertion order (and the cached value is stable)
        hs = [R(lambda: hash(f)) for f in fds] + [R(lambda: hash(f)) for f in fds]
        H.ev(key=('hash', repr(items)), part='frozen', nontrivial=len(items) > 1, sample=dict(FrozenDict=items))
        if any(f != fds[0] for f in fds) or len(set(hs)) != 1 or isinstance(hs[0], str) or hs[0] != R(lambda: hash(FrozenDict(base))):
            H.fail('frozen_hash_order_independent', site % '__hash__', 'same items inserted in different orders', items, repr(hs),
                   HDR + 'import itertools\nhs = set(hash(FrozenDict(list(p))) for p in itertools.permutations(%r))\nassert len(hs) == 1, hs\n' % (items,))
        # mutators (with the hash both cached and not yet computed)
        for meth, tmpl, mutates in muts:
            if '{k}' in tmpl and not items:
                continue
            for cached in (False, True):
                fd = FrozenDict(list(items))
                h0 = hash(fd) if cached else None
                src = tmpl.format(k=repr(items[0][0]) if items else None)
                if (meth == 'popitem' or meth == 'clear') and not items:
                    mutates = 0
                r = R(lambda: eval(src, dict(G, fd=fd)))
                H.ev(key=('mut', repr(items), src, cached), part='frozen', sample=dict(FrozenDict=items, op=src))
                sn = HDR + 'fd = FrozenDict(%r)\nr = R(lambda: %s)\nassert dict(fd) == %r, fd\n' % (items, src, base)
                if dict.items(fd) != base.items() or list(dict.keys(fd)) != list(base) or hash(fd) != hash(FrozenDict(base)) or (cached and hash(fd) != h0):
                    H.fail('frozen_mutators_raise', site % meth, 'operation that changes a plain dict: FrozenDict changed', [items, src], 'now %r' % (dict(fd),), sn)
                elif mutates and r != 'EXC:TypeError':
                    H.fail('frozen_mutators_raise', site % meth, 'operation that changes a plain dict: no TypeError', [items, src], 'result %r' % (r,),
                           sn + 'assert r == "EXC:TypeError", r\n')
        # updated / copies / pickle
        fd = FrozenDict(list(items))
        for src, want in (('fd.updated()', base), ('fd.updated({"new": 1})', dict(base, new=1)), ('fd.updated([(1, 9)], new=2)', dict(base, **{'new': 2}, **{})),
                          ('fd.updated(iter([("new", 3)]))', dict(base, new=3)), ('fd.copy()', base), ('copy.copy(fd)', base), ('copy.deepcopy(fd)', base)) + tuple(
                              ('pickle.loads(pickle.dumps(fd, %d))' % p, base) for p in range(pickle.HIGHEST_PROTOCOL + 1)):
            want = dict(want)
            if '(1, 9)' in src:
                want[1] = 9
            for cached in (False, True):
                fd = FrozenDict(list(items))
                if cached:
                    hash(fd)
                r = R(lambda: eval(src, dict(G, fd=fd)))
                H.ev(key=('copy', repr(items), src, cached), part='frozen', sample=dict(FrozenDict=items, op=src))
                meth = src.split('(')[0].replace('fd.', '')
                ok = not isinstance(r, str) and r == want and dict(r) == want and (isinstance(r, FrozenDict) or src == 'fd.copy()')
                ok = ok and (not isinstance(r, FrozenDict) or hash(r) == hash(FrozenDict(want)))
                if not ok or dict(fd) != base or hash(fd) != hash(FrozenDict(base)):
                    H.fail('frozen_copies_equal', (site % meth) if 'fd.' in src else meth + '(FrozenDict)', 'any content', [items, src],
                           'result %r expected %r; original now %r' % (r, want, dict(fd)),
                           HDR + 'fd = FrozenDict(%r)\nr = %s\nassert r == %r and dict(fd) == %r, (r, fd)\n' % (items, src, want, base))
    # unhashable values: FrozenHashError, every time, for equal dicts alike; still immutable, copies still work
    for items in ([(1, [])], [(1, 'x'), (2, {})], [(2, {}), (1, 'x')], [('a', set())]):
        fd, fd2 = FrozenDict(list(items)), FrozenDict(list(items)[::-1])
        H.ev(key=('unhashable', repr(items)), part='frozen', sample=dict(FrozenDict=repr(items)))
        rs = []
        for f in (fd, fd, fd2, fd):
            try:
                rs.append(hash(f))
            except Exception as e:  # noqa
                rs.append(type(e))
        fhe = getattr(dictutils, 'FrozenHashError', None)
        if any(r is not fhe for r in rs) or fhe is None or not issubclass(fhe, TypeError):
            H.fail('frozen_hash_error_consistent', site % '__hash__', 'a value is unhashable', repr(items), repr(rs),
                   HDR + 'from boltons.dictutils import FrozenHashError\nfd = FrozenDict(%r)\nfor i in range(2):\n    try: hash(fd); raise SystemExit(1)\n'
                   '    except FrozenHashError: pass\n' % (items,))
        r = R(lambda: operator.setitem(fd, 1, 2))
        c = R(lambda: (copy.deepcopy(fd), pickle.loads(pickle.dumps(fd)), fd.updated(z=1)))
        if r != 'EXC:TypeError' or dict(fd) != dict(items) or isinstance(c, str) or c[0] != fd or c[1] != fd or c[2] != dict(items, z=1):
            H.fail('frozen_mutators_raise', site % '__setitem__', 'a value is unhashable, hash error cached', repr(items), repr((r, c)), None)


def run():
    H = Harness('C17',
                rule='a case is one (class, concrete state, side, operation instance, way the object was obtained); all are '
                     'counted non-trivial except operations on the empty FrozenDict; FrozenDict cases: (content, operation, hash cached?)',
                bounds=dict(quick='OneToOne: keys/values {1,2,"a"} (+None from setdefault), 60 operation instances x 2 sides x 4 ways of '
                                  'obtaining the object, every distinct ordered state reachable in <= 2 steps expanded (histories <= 3); '
                                  'ManyToMany: keys {1,2,3} x values {"a","b"}, 82 operation instances (41 per side) x 3 ways of obtaining the object, '
                                  'every operation from every one of the 64 pair sets (all reached within 3 steps); FrozenDict: all contents over 3 keys x 2 values in all insertion orders, 20 mutator calls, '
                                  '7 + 6 copy operations, hash cached or not',
                            thorough='OneToOne histories <= 5; ManyToMany keys {1,2,3} x values {"a","b","c"} until no new abstract '
                                     'state (all 512 pair sets); FrozenDict over 4 keys'))
    agg = Agg()
    only = H.args.part
    if only in (None, 'ctor'):
        ctor_part(H, agg)
    if only in (None, 'oto'):
        H.parts['OneToOne new states per depth'] = explore(H, agg, 'OneToOne', OneToOne, InjectiveMap, oto_ops(), OTO_DERIVS, oto_check,
                                                           oto_key, 5 if H.thorough else 3, 'oto')
    if only in (None, 'm2m'):
        H.parts['ManyToMany new states per depth'] = explore(
            H, agg, 'ManyToMany', ManyToMany, PairSet, m2m_ops(('a', 'b', 'c') if H.thorough else ('a', 'b')), M2M_DERIVS, m2m_check,
            lambda t: (frozenset(t.iteritems()), frozenset(t.inv.iteritems())), 8 if H.thorough else 4, 'm2m')
    if only in (None, 'frozen'):
        frozen_part(H, H.thorough)
    agg.flush(H)
    H.finish()


main_wrapper(run)
