"""C03 bounded stand-in: forced-preemption replay of two threads on one LRI/LRU.

Thread A runs op1 under sys.settrace and parks at the k-th trace event ('line', thorough tier also
'opcode' = every bytecode) raised inside boltons/cacheutils.py; thread B then runs op2 to completion, or
blocks on the cache lock (reported by a proxy around cache._lock; a plain timeout when there is no such
attribute) in which case A is resumed first and B finishes afterwards; then A resumes.  Every k from 1 to
the number of events of op1, every ordered pair (op1, op2), both classes, several start states.

Contract (clause equals_some_sequential_order): the outcome
    (result/exception of op1, of op2, final dict contents, len <= max_size, eviction order probed by
     fresh inserts, every lookup afterwards, cache still usable)
equals the outcome of op1;op2 or of op2;op1 run sequentially on the same tree (sequential correctness
itself is C02).  Clause no_deadlock: both threads finish.  Counters are not observed (DESIGN 3/C03).
The schedule is fully determined by (op1, op2, k).  On an LRU each schedule is run twice (once probing
the order first, once looking every key up first, since a lookup reorders); on an LRI once (lookups, then order).
A failure is blamed on the operation that is not a single critical section of the cache lock (measured on a
sequential run through the proxy); if both are, on A when it was parked outside the lock, else on B.
A watchdog ends a schedule that runs away (endless walk over a corrupted ring) -> clause no_deadlock.
"""
import os
import sys
import threading

sys.path.insert(0, os.path.dirname(os.path.dirname(os.path.abspath(__file__))))
from bounded.harness import Harness, main_wrapper  # noqa: E402
from refmodels.refcache import probe_order  # noqa: E402

from boltons import cacheutils  # noqa: E402

CU_FILE = cacheutils.__file__
FALLBACK_TIMEOUT = 0.05    # without a lock attribute to wrap: B is considered blocked after this long
HDR = 'from boltons.cacheutils import LRI, LRU\n'


def outcome(fn):
    try:
        return ('ret', norm(fn()))
    except RecursionError:
        return ('exc', 'RecursionError')
    except Exception as e:  # noqa
        return ('exc', type(e).__name__)


def norm(v):
    if isinstance(v, dict) and hasattr(v, 'max_size'):      # a cache returned by copy(): observe it fully
        return ('cache', type(v).__name__, v.max_size, observe(v, 1))
    return v


def observe(c, mode):
    """final-state observables. mode 1: contents, order probe. mode 2: contents, all lookups, order probe."""
    ms = getattr(c, 'max_size', 3)
    out = [outcome(lambda: dict(c)), outcome(lambda: len(c)), outcome(lambda: len(c) <= ms)]
    if mode == 2:
        keys = sorted(out[0][1], key=repr) if out[0][0] == 'ret' else []
        out.append([(k, outcome(lambda: c[k])) for k in keys + ['nokey']])
    out.append(outcome(lambda: probe_order(c, ms)))
    # still usable: the fresh keys are there, readable, removable
    out.append(outcome(lambda: (sorted(c.keys(), key=repr), [c[k] for k in sorted(c.keys(), key=repr)], c.pop(('z', 0), 'gone'),
                                len(c), c.clear(), len(c))))
    return out


# ---- operations (keys relative to the start states: a, b present; d, e absent) -------------------
def same_as(c):
    o = cacheutils.LRI(max_size=8)
    for k, v in dict(c).items():
        o[k] = v
    return o


OPS = [
    ('set_new', '__setitem__', "c['d'] = 4", lambda c: c.__setitem__('d', 4)),
    ('set_old', '__setitem__', "c['b'] = 20", lambda c: c.__setitem__('b', 20)),
    ('getitem_hit', '__getitem__', "c['b']", lambda c: c['b']),
    ('getitem_miss', '__getitem__', "c['d']", lambda c: c['d']),
    ('get_hit', 'get', "c.get('a')", lambda c: c.get('a')),
    ('get_miss', 'get', "c.get('d', 'G')", lambda c: c.get('d', 'G')),
    ('del_hit', '__delitem__', "del c['b']", lambda c: c.__delitem__('b')),
    ('del_miss', '__delitem__', "del c['d']", lambda c: c.__delitem__('d')),
    ('setdefault_hit', 'setdefault', "c.setdefault('a', 'S')", lambda c: c.setdefault('a', 'S')),
    ('setdefault_miss', 'setdefault', "c.setdefault('e', 'S')", lambda c: c.setdefault('e', 'S')),
    ('pop_hit', 'pop', "c.pop('a')", lambda c: c.pop('a')),
    ('pop_miss', 'pop', "c.pop('d', 'P')", lambda c: c.pop('d', 'P')),
    ('popitem', 'popitem', 'c.popitem()', lambda c: c.popitem()),
    ('clear', 'clear', 'c.clear()', lambda c: c.clear()),
    ('copy', 'copy', 'c.copy()', lambda c: c.copy()),
    ('update', 'update', "c.update({'d': 5, 'b': 6})", lambda c: c.update({'d': 5, 'b': 6})),
    ('update_pairs', 'update', "c.update([('e', 1), ('a', 2)])", lambda c: c.update([('e', 1), ('a', 2)])),
    ('eq_dict', '__eq__', 'c == dict(START)', None),
    ('eq_cache', '__eq__', 'c == LRI(values=START)', None),
    ('contains', '__contains__', "'a' in c", lambda c: 'a' in c),
    ('len', '__len__', 'len(c)', lambda c: len(c)),
    ('ior', '__ior__', "c |= {'d': 7}", lambda c: c.__ior__({'d': 7}) is c),
]
QUICK_SKIP = {'update_pairs', 'del_miss'}
QUICK_SKIP_B = {'getitem_miss', 'get_hit', 'get_miss', 'setdefault_hit', 'pop_miss', 'eq_dict', 'eq_cache'}

# start states: (name, max_size, build statements)
STATES = [
    ('full, dict order != recency', 3, [('a', 1), ('b', 2), ('c', 3), ('a', 10)]),
    ('not full', 3, [('a', 1), ('b', 2)]),
    ('full, max_size 1', 1, [('b', 2)]),
    ('full, max_size 2', 2, [('b', 2), ('a', 1)]),
]


class Config:
    def __init__(self, cname, state, om):
        self.cname, self.cls, self.om = cname, getattr(cacheutils, cname), om
        self.sname, self.ms, self.build = state
        self.start = {}
        for k, v in self.build:
            self.start[k] = v

    def new(self):
        c = self.cls(max_size=self.ms, on_miss=(lambda k: k * 2) if self.om else None)
        for k, v in self.build:
            c[k] = v
        return c

    def fn(self, op):
        if op[0] == 'eq_dict':
            other = dict(self.start)
            return lambda c: c == other
        if op[0] == 'eq_cache':
            other = same_as(self.start)
            return lambda c: c == other
        return op[3]

    def src(self):
        return 'c = %s(max_size=%d%s)\n' % (self.cname, self.ms, ', on_miss=lambda k: k * 2' if self.om else '') + \
            ''.join('c[%r] = %r\n' % kv for kv in self.build) + 'START = %r\n' % (self.start,)


class LockProxy:
    """wraps the cache's RLock: same semantics, but reports 'about to block' and who holds it"""
    def __init__(self, real):
        self.real, self.on_block, self.owner, self.depth = real, None, None, 0

    def acquire(self, blocking=True, timeout=-1):
        ok = self.real.acquire(False)
        if not ok and blocking:
            if self.on_block:
                self.on_block()
            ok = self.real.acquire(True, timeout)
        if ok:
            self.owner, self.depth = threading.get_ident(), self.depth + 1
        return ok

    def release(self):
        self.depth -= 1
        if not self.depth:
            self.owner = None
        self.real.release()

    def __enter__(self):
        return self.acquire()

    def __exit__(self, *a):
        self.release()


class Parker:
    """parks the thread playing A at its k-th event. 'line': sys.settrace line events in cacheutils.py;
    'opcode': one event per bytecode instruction (sys.monitoring INSTRUCTION events on every function of
    cacheutils.py; interpreters without sys.monitoring: settrace with f_trace_opcodes)"""
    current = None

    def __init__(self, k, event):
        self.k, self.event, self.count, self.where, self.tid = k, event, 0, None, None
        self.parked, self.resume = threading.Event(), threading.Event()
        self.wake = None
        self.monitoring = event == 'opcode' and hasattr(sys, 'monitoring')

    def start(self):                       # called in thread A
        self.tid = threading.get_ident()
        if self.monitoring:
            install_monitoring()
            Parker.current = self
        else:
            sys.settrace(self.glob)

    def stop(self):
        if self.monitoring:
            Parker.current = None
        else:
            sys.settrace(None)

    def hit(self, where):
        self.count += 1
        if self.count == self.k:
            self.where = where
            self.parked.set()
            self.wake.set()
            self.resume.wait(8)

    def glob(self, frame, event, arg):
        if frame.f_code.co_filename != CU_FILE:
            return None
        if self.event == 'opcode':
            frame.f_trace_opcodes = True
        return self.local

    def local(self, frame, event, arg):
        if event == self.event:
            self.hit('%s:%d' % (frame.f_code.co_name, frame.f_lineno))
        return self.local


def instruction_event(code, offset):
    P = Parker.current
    if P is not None and threading.get_ident() == P.tid:
        P.hit('%s+%d' % (code.co_name, offset))


def install_monitoring(done=[]):
    if done:
        return
    done.append(1)
    import types
    mon = sys.monitoring
    mon.use_tool_id(mon.DEBUGGER_ID, 'C03')
    mon.register_callback(mon.DEBUGGER_ID, mon.events.INSTRUCTION, instruction_event)
    funcs = [v for v in vars(cacheutils).values() if isinstance(v, types.FunctionType)]
    for cls in [v for v in vars(cacheutils).values() if isinstance(v, type)]:
        funcs += [v for v in vars(cls).values() if isinstance(v, types.FunctionType)]
    for f in funcs:
        if f.__code__.co_filename == CU_FILE:
            mon.set_local_events(mon.DEBUGGER_ID, f.__code__, mon.events.INSTRUCTION)


class ScheduleTimeout(BaseException):
    pass


def async_raise(tid, exc):
    import ctypes
    ctypes.pythonapi.PyThreadState_SetAsyncExc(ctypes.c_ulong(tid), ctypes.py_object(exc))


class Watchdog:
    """raises ScheduleTimeout in the controller thread when one schedule (or its observation) runs away,
    e.g. an endless walk over a corrupted ring"""
    def __init__(self, limit=4.0):
        self.limit, self.deadline, self.main = limit, None, threading.get_ident()
        threading.Thread(target=self.loop, daemon=True).start()

    def loop(self):
        import time
        while True:
            time.sleep(0.25)
            d = self.deadline
            if d is not None and time.time() > d:
                self.deadline = None
                async_raise(self.main, ScheduleTimeout)

    def __enter__(self):
        import time
        self.deadline = time.time() + self.limit

    def __exit__(self, *a):
        self.deadline = None


class Worker:
    """the thread that plays A (kept alive between schedules; replaced if it ever hangs)"""
    cur = None

    def __init__(self):
        self.go, self.done, self.job = threading.Event(), threading.Event(), None
        self.t = threading.Thread(target=self.loop, daemon=True)
        self.t.start()

    def loop(self):
        while True:
            self.go.wait()
            self.go.clear()
            try:
                self.job()
            finally:
                self.done.set()

    @classmethod
    def submit(cls, job):
        if cls.cur is None:
            cls.cur = Worker()
        w = cls.cur
        w.job = job
        w.done.clear()
        w.go.set()
        return w


WD = None


def run_schedule(cfg, f1, f2, k, event, mode):
    """returns dict(parked, nevents, where, blocked, held, resA, resB, obs, hung)"""
    global WD
    WD = WD or Watchdog()
    try:
        with WD:
            return _run_schedule(cfg, f1, f2, k, event, mode)
    except ScheduleTimeout:
        w, Worker.cur = Worker.cur, None
        if w is not None and not w.done.is_set():
            async_raise(w.t.ident, SystemExit)        # stop a spinning A; a blocked one just stays parked
        return dict(parked=True, where='?', blocked=False, held=False, resA=None, resB=None, hung=True)


def _run_schedule(cfg, f1, f2, k, event, mode):
    c = cfg.new()
    proxy = None
    lk = getattr(c, '_lock', None)
    if lk is not None and hasattr(lk, 'acquire') and hasattr(lk, 'release'):
        try:
            proxy = c._lock = LockProxy(lk)
        except Exception:  # noqa
            proxy = None
    P = Parker(k, event)
    wakeA, wakeB = threading.Event(), threading.Event()
    P.wake = wakeA
    res = {}

    def ta():
        P.start()
        try:
            res['A'] = outcome(lambda: f1(c))
        finally:
            P.stop()
            wakeA.set()

    def tb():
        try:
            res['B'] = outcome(lambda: f2(c))
        finally:
            wakeB.set()
    A = Worker.submit(ta)
    wakeA.wait(3)
    if not P.parked.is_set():                  # op1 has fewer than k events: enumeration of k is complete
        if not A.done.wait(3):
            raise ScheduleTimeout
        return dict(parked=False, nevents=P.count)
    held = bool(proxy and proxy.owner == A.t.ident)
    B = None
    if proxy:                                  # B = this thread; if it has to wait for the lock, A is resumed first
        flag = []
        proxy.on_block = lambda: (flag.append(1), P.resume.set())
        tb()
        blocked = bool(flag)
        proxy.on_block = None
    else:                                      # no lock attribute to wrap: a B thread and a plain timeout
        B = threading.Thread(target=tb, daemon=True)
        B.start()
        wakeB.wait(FALLBACK_TIMEOUT)
        blocked = 'B' not in res
    P.resume.set()
    hung = not A.done.wait(3)
    if B:
        B.join(3)
        hung = hung or B.is_alive()
    if hung:
        raise ScheduleTimeout
    out = dict(parked=True, where=P.where, blocked=blocked, held=held, resA=res.get('A'), resB=res.get('B'), hung=hung)
    if not hung:
        out['obs'] = observe(c, mode)
    return out


def lock_regions(cfg, f):
    """number of separate critical sections of the cache lock one sequential run of f goes through"""
    c = cfg.new()
    lk = getattr(c, '_lock', None)
    if lk is None or not hasattr(lk, 'acquire'):
        return 1
    n = [0]

    class Counting(LockProxy):
        def acquire(self, *a, **kw):
            if not self.depth:
                n[0] += 1
            return LockProxy.acquire(self, *a, **kw)
    c._lock = Counting(lk)
    outcome(lambda: f(c))
    return n[0]


def sequential(cfg, fa, fb, mode):
    global WD
    WD = WD or Watchdog()
    try:
        with WD:
            c = cfg.new()
            ra = outcome(lambda: fa(c))
            rb = outcome(lambda: fb(c))
            return ra, rb, observe(c, mode)
    except ScheduleTimeout:
        return ('exc', 'runs away'), ('exc', 'runs away'), [('exc', 'runs away')] * 6


def describe(obs):
    return 'contents %r len<=max %r order %r usable %r' % (obs[0], obs[2], obs[-2], obs[-1][0])


SNIP = '''import sys, threading
%(hdr)s%(build)sparked, resume, n, out = threading.Event(), threading.Event(), [0], {}
def loc(fr, ev, arg):
    if ev == %(event)r:
        n[0] += 1
        if n[0] == %(k)d:
            parked.set(); resume.wait(10)
    return loc
def glob(fr, ev, arg):
    if fr.f_code.co_filename.endswith('cacheutils.py'):
        fr.f_trace_opcodes = %(opc)r
        return loc
def ta():
    sys.settrace(glob)
    try: out['A'] = %(e1)s
    except Exception as e: out['A'] = type(e).__name__
    finally: sys.settrace(None)
def tb():
    try: out['B'] = %(e2)s
    except Exception as e: out['B'] = type(e).__name__
A, B = threading.Thread(target=ta, daemon=True), threading.Thread(target=tb, daemon=True)
A.start(); parked.wait(5); B.start(); B.join(0.5); resume.set(); A.join(5); B.join(5)
res = lambda x: (type(x).__name__, x.max_size, dict(x)) if hasattr(x, 'max_size') else x
got = (res(out.get('A')), res(out.get('B')), dict(c), len(c) <= c.max_size)
print(got)
assert got in %(allowed)r, got
'''


def expr(op):
    s = op[2]
    if ' = ' in s and not s.startswith('c =='):
        return 'exec(%r)' % s
    if s.startswith('del '):
        return 'exec(%r)' % s
    if s.startswith('c |='):
        return 'c.__ior__(%s) is c' % s[5:]
    return s


def simple(r):
    if r and r[0] == 'ret':
        v = r[1]
        return (v[1], v[2], v[3][0][1]) if isinstance(v, tuple) and v and v[0] == 'cache' else v
    return r[1] if r else None


def run():
    sys.setswitchinterval(5e-5)         # thread hand-over latency only; the schedule does not depend on it
    H = Harness('C03',
                rule='one evaluation = one forced schedule (start state, op1, op2, k, event kind) executed on the real '
                     'cache (twice on an LRU) and compared with both sequential orders; non-trivial = thread A was parked inside op1 after at '
                     'least one event of cacheutils.py and thread B either completed while A was parked or was stopped by the lock',
                bounds=dict(quick='LRU x 2 start states (max_size 3: full / not full) + LRI x full; on_miss None; 20 ops as A x 14 ops as B; every line '
                                  'event k of A',
                            thorough='LRI+LRU x 4 start states x on_miss in {None, k*2} (first state) x 22x22 op pairs x every line event; '
                                     'every opcode (bytecode) event for the first start state (14 ops as B)'))
    ops = OPS if H.thorough else [o for o in OPS if o[0] not in QUICK_SKIP]
    plans = []
    for cname in ('LRI', 'LRU'):
        for si, st in enumerate(STATES if H.thorough else STATES[:2]):
            if H.thorough or not (cname == 'LRI' and si == 1):
                plans.append((Config(cname, st, False), 'line'))
        if H.thorough:
            plans.append((Config(cname, STATES[0], True), 'line'))
    if H.thorough:
        plans += [(Config(cn, STATES[0], False), 'opcode') for cn in ('LRI', 'LRU')]
    stats = {}
    for pi, (cfg, event) in enumerate(plans):
        part = '%s/%s/%s/%s' % (cfg.cname, cfg.sname, 'f' if cfg.om else '-', event)
        st = stats[part] = dict(schedules=0, b_ran_inside=0, b_blocked=0, max_events=0)
        frac = 0.05 + 0.9 * (pi + 1) / len(plans)
        modes = (1, 2) if cfg.cname == 'LRU' else (2,)     # LRI lookups do not disturb the order: one run suffices
        good = []
        for o in ops:
            if sequential(cfg, cfg.fn(o), lambda c: None, 1)[0] == ('exc', 'RecursionError'):
                H.note_truncated('%s: %s skipped, it raises RecursionError sequentially (C02 eq_by_contents)' % (part, o[0]))
            else:
                good.append(o)
        ref = Config(cfg.cname, STATES[0], cfg.om)      # measured on the 3-key state: a per-key loop shows as >1 regions
        regions = {o[0]: lock_regions(ref, ref.fn(o)) for o in good}
        st['ops_not_in_one_critical_section'] = sorted(o for o, n in regions.items() if n != 1)
        for op1 in good:
            f1 = cfg.fn(op1)
            for op2 in [o for o in good if (H.thorough and event == 'line') or o[0] not in QUICK_SKIP_B]:
                f2 = cfg.fn(op2)
                if H.out_of_time(frac):
                    H.note_truncated('%s: stopped at op pair (%s, %s) by time budget' % (part, op1[0], op2[0]))
                    break
                allowed = None
                k = 0
                while True:
                    k += 1
                    r1 = run_schedule(cfg, f1, f2, k, event, modes[0])
                    if not r1['parked']:
                        st['max_events'] = max(st['max_events'], r1['nevents'])
                        break
                    r2 = run_schedule(cfg, f1, f2, k, event, modes[-1]) if len(modes) > 1 else r1
                    if allowed is None:
                        allowed = [tuple(sequential(cfg, f1, f2, m) for m in modes)]
                        s21 = tuple(sequential(cfg, f2, f1, m) for m in modes)
                        allowed.append(tuple((ra, rb, ob) for (rb, ra, ob) in s21))
                    st['schedules'] += 1
                    st['b_blocked' if r1['blocked'] else 'b_ran_inside'] += 1
                    wit = dict(cls=cfg.cname, max_size=cfg.ms, on_miss='k*2' if cfg.om else None, start=cfg.build,
                               A=op1[2], B=op2[2], park='%s event %d of A at %s' % (event, k, r1['where']),
                               lock='held by A' if r1['held'] else 'not held by A',
                               B_ran='after A released the lock' if r1['blocked'] else 'to completion while A was parked')
                    H.ev(key=(part, op1[0], op2[0], k), nontrivial=k >= 2, sample=wit, part=part)
                    # blame the operation that is not one critical section; else: A if parked outside the lock, else B
                    culprit_b = (regions[op1[0]] == 1) and (regions[op2[0]] != 1 or r1['held'])
                    site = 'LRI.' + (op2[1] if culprit_b else op1[1])
                    if cfg.cname == 'LRU' and site == 'LRI.__getitem__':
                        site = 'LRU.__getitem__'
                    wcl = 'overlaps an operation of another thread on the same cache'
                    if r1['hung'] or r2.get('hung') or not r2['parked']:
                        H.fail('no_deadlock', site, wcl, wit, 'threads did not finish (or ran away) within the time limit: %r %r' % (r1, r2))
                        break                     # one hang per op pair is enough; each costs seconds
                    got = tuple((r['resA'], r['resB'], r['obs']) for r in ((r1, r2) if len(modes) > 1 else (r1,)))
                    if got in allowed:
                        continue
                    seqs = ['%s: A -> %r, B -> %r, %s' % (nm, simple(a[0][0]), simple(a[0][1]), describe(a[0][2]))
                            for nm, a in zip(('A;B', 'B;A'), allowed)]
                    detail = 'schedule: A -> %r, B -> %r, %s (second run, lookups %r); sequential %s' % (
                        simple(r1['resA']), simple(r1['resB']), describe(r1['obs']), r2['obs'][3], ' | '.join(seqs))
                    simp = [(simple(a[0][0]), simple(a[0][1]), a[0][2][0][1], True) for a in allowed]
                    snip = SNIP % dict(hdr=HDR, build=cfg.src(), event=event, k=k, opc=(event == 'opcode'), e1=expr(op1), e2=expr(op2),
                                       allowed=simp)
                    gsimple = (simple(r1['resA']), simple(r1['resB']), r1['obs'][0][1], r1['obs'][2][1])
                    H.fail('equals_some_sequential_order', site, wcl, wit, detail, snip if gsimple not in simp else None)
            else:
                continue
            break
    H.bounds = dict(H.bounds, reached=stats)
    H.finish()


main_wrapper(run)
